package c15

import (
	"testing"

	"verif/harness/vkit"
)

// TestMatrix sweeps the finite core of the quantifier completely (no sampling): every token kind/state x declared type
// in the subject and in the actor role, every subject x actor x requested type x storage default x token format for
// requests that may succeed, and every client registration (application type x auth method x grant registered or not) x credential presentation - each on both routers. The cases
// go through the same run / oracle as the generated ones.

func allTokens() []TokSpec {
	var out []TokSpec
	for _, kind := range []string{"opaque", "jwt", "refresh", "id"} {
		out = append(out, TokSpec{Kind: kind, State: "live", Owner: "self", User: "u1"})
		for _, st := range statesOf[kind] {
			out = append(out, TokSpec{Kind: kind, State: st, Owner: "other", User: "u2"})
		}
	}
	out = append(out, TokSpec{Kind: "third", State: "live", Owner: "other", User: "u2"})
	for _, g := range []string{"x", "e30.bnVsbA.e30", "e30.e30.e30", "AAAAAAAAAAAAAAAAAAAAAAAAAAAAAAAA"} {
		out = append(out, TokSpec{Kind: "garbage", State: "live", Owner: "self", User: "u1", Literal: g})
	}
	return out
}

var (
	allDeclared  = []string{"access", "refresh", "id", "jwt", "saml2", "short", ""}
	allRequested = []string{"", "access", "refresh", "id", "jwt", "saml2", "short"}
	allCreds     = []string{"right", "basic_right", "post_right", "wrong_secret", "wrong_secret_other", "no_cred", "id_only", "basic_empty", "post_empty",
		"own_assertion", "bad_assertion", "unknown_client", "malformed_basic"}
)

func baseCase(router string) Case {
	return Case{Mode: "sweep", Router: router, SignKey: "p256a", ClientAuth: "client_secret_basic", Cred: "right",
		Subject:  TokSpec{Kind: "jwt", State: "live", Owner: "self", User: "u1", Declared: "access"},
		Scopes:   []string{"openid", "email", "api:read"},
		Audience: []string{"client-i"},
		Policy:   vkit.TEPolicy{DropScopes: []string{"api:read"}},
	}
}

func matrix() []Case {
	var out []Case
	routers := []string{"provider", "legacy"}
	requested := []string{"access"}
	if vkit.Tier() == "thorough" {
		requested = allRequested
	}
	n := 0
	// A: validity of the presented tokens
	for _, router := range routers {
		for _, tok := range allTokens() {
			for _, decl := range allDeclared {
				for _, vouch := range []bool{false, true} {
					if tok.Kind != "third" && vouch {
						continue
					}
					for _, req := range requested {
						n++
						tk := tok
						tk.Declared = decl
						c := baseCase(router)
						c.Break = "sweep-subject"
						c.Subject, c.Requested = tk, req
						c.Extras, c.Policy.VerifyThird = vouch, vouch
						c.IssueJWT = n%2 == 0
						out = append(out, c)
						a := tk
						a.User = "u3"
						c2 := baseCase(router)
						c2.Break = "sweep-actor"
						c2.Actor, c2.Requested = &a, req
						if req == "access" && n%2 == 1 {
							c2.Requested = "id"
						}
						c2.Extras, c2.Policy.VerifyThird = vouch, vouch
						c2.IssueJWT = n%2 == 1
						out = append(out, c2)
					}
				}
			}
		}
	}
	// B: what a permitted exchange returns
	good := []TokSpec{
		{Kind: "jwt", State: "live", Owner: "self", User: "u1", Declared: "access"},
		{Kind: "opaque", State: "live", Owner: "other", User: "u1", Declared: "access"},
		{Kind: "refresh", State: "live", Owner: "self", User: "u1", Declared: "refresh"},
		{Kind: "id", State: "live", Owner: "other", User: "u1", Declared: "id"},
		{Kind: "third", State: "live", Owner: "other", User: "u1", Declared: "jwt"},
	}
	for _, router := range routers {
		for _, s := range good {
			for ai := -1; ai < len(good); ai++ {
				for _, req := range allRequested {
					defaults := []string{""}
					if req == "" {
						defaults = []string{"", "access", "refresh", "id", "none"}
					}
					for _, def := range defaults {
						for _, jwt := range []bool{false, true} {
							n++
							c := baseCase(router)
							c.Break = "sweep-response"
							c.Subject, c.Requested, c.IssueJWT = s, req, jwt
							c.Policy.DefaultType = def
							c.Extras, c.Policy.VerifyThird = true, true
							if ai >= 0 {
								a := good[ai]
								a.User = "u2"
								c.Actor = &a
							}
							if n%3 == 0 {
								c.Policy.Impersonate = "u3"
							}
							if n%5 == 0 {
								c.Audience = nil
							}
							out = append(out, c)
						}
					}
				}
			}
		}
	}
	// D: the provider's life. Every token kind in either role, (1) obtained on one host of a provider with a host-derived
	// issuer and presented on the other, the other host / this host having served a request of that kind first or not,
	// and (2) minted before / after each kind of key change of the storage and presented after it, again (the very token)
	// or for the first time.
	live := []TokSpec{
		{Kind: "jwt", State: "live", Owner: "self", User: "u1", Declared: "access"},
		{Kind: "id", State: "live", Owner: "other", User: "u1", Declared: "id"},
		{Kind: "opaque", State: "live", Owner: "other", User: "u1", Declared: "access"},
		{Kind: "refresh", State: "live", Owner: "self", User: "u1", Declared: "refresh"},
	}
	// place puts the token into its role of exchange idx; an actor token comes with a subject token minted there and then
	place := func(st *Step, tok TokSpec, role, idx int) {
		if role == 0 {
			st.Subject = tok
			return
		}
		st.Subject = good[0]
		st.Subject.MintHost, st.Subject.Born = st.Host, idx
		st.Actor = &tok
	}
	for _, router := range routers {
		for _, tok := range live {
			for role := 0; role < 2; role++ {
				for first := 0; first < 3; first++ { // which host serves a token of this kind first: 0 / 1 / nobody (single exchange)
					for mintHost := 0; mintHost < 2; mintHost++ {
						n++
						c := baseCase(router)
						c.Break, c.Shape, c.Hosts, c.Requested, c.IssueJWT = "sweep-hosts", "hosts-seq", true, "access", n%2 == 0
						tk := tok
						tk.MintHost = mintHost
						last := Step{Host: 0, Requested: "access"}
						place(&last, tk, role, 1)
						if first == 2 {
							c.Shape = "hosts"
							c.Host, c.Subject, c.Actor = last.Host, last.Subject, last.Actor
						} else {
							warm := tok
							warm.MintHost = first
							c.Host, c.Subject = first, warm
							c.More = []Step{last}
						}
						out = append(out, c)
					}
				}
				for _, op := range keyOps[2:] {
					for _, pre := range []string{"", "rotate-keep"} {
						for variant := 0; variant < 3; variant++ { // the first exchange's token again / another one minted before the change / one minted after it
							n++
							c := baseCase(router)
							c.Break, c.Shape, c.Requested, c.IssueJWT = "sweep-keys", "seq", "access", n%2 == 0
							c.Subject = tok
							tk := tok
							last := Step{KeyOp: op, Requested: "access"}
							idx := 1
							if pre != "" {
								c.More = append(c.More, Step{KeyOp: pre, Subject: tok, Requested: "id"})
								idx = 2
							}
							switch variant {
							case 0:
								tk.Replay = 1
							case 2:
								tk.Born = idx
							}
							place(&last, tk, role, idx)
							c.More = append(c.More, last)
							out = append(out, c)
						}
					}
				}
			}
		}
	}
	// E: one string in both slots. Every live kind as subject token (declared as what it is) and the same string as actor
	// token under every declaration; a third-party token for every role the verifier vouches in. And the act claim: every
	// policy of the storage x delegation / impersonation x every kind of JWT handed out.
	for _, router := range routers {
		for _, s := range good {
			for _, decl := range allDeclared {
				roles := []string{""}
				if s.Kind == "third" {
					roles = vouchRoles
				}
				for _, role := range roles {
					n++
					c := baseCase(router)
					c.Break, c.Subject, c.Requested, c.IssueJWT = "sweep-same-string", s, "access", n%2 == 0
					c.Extras, c.Policy.VerifyThird, c.VouchRole = true, true, role
					a := s
					a.Replay, a.Declared = 1, decl
					c.Actor = &a
					out = append(out, c)
				}
			}
		}
		for _, pol := range actPolicies {
			for ai := -1; ai < 2; ai++ {
				for _, req := range []string{"access", "refresh", "id"} {
					n++
					c := baseCase(router)
					c.Break, c.Requested, c.IssueJWT, c.ActPolicy = "sweep-act", req, true, pol
					if ai >= 0 {
						a := good[ai]
						a.User = "u2"
						c.Actor = &a
					}
					out = append(out, c)
				}
			}
		}
	}
	// C: client authentication: every registration (application type x auth method x registered for the grant or not) x
	// every credential presentation; and with a storage veto on top
	for _, router := range routers {
		for _, app := range append([]string{""}, appTypes...) {
			for _, method := range []string{"client_secret_basic", "client_secret_post", "none", "private_key_jwt"} {
				for _, cred := range allCreds {
					for variant := 0; variant < 3; variant++ { // plain / storage veto / client not registered for the grant
						if app != "" && variant == 1 {
							continue
						}
						n++
						c := baseCase(router)
						c.Break = "sweep-auth"
						c.ClientAuth, c.AppType, c.Cred, c.Requested = method, app, cred, "access"
						c.Policy.Veto, c.NoGrant = variant == 1, variant == 2
						if app != "" && n%2 == 0 {
							c.Subject = TokSpec{Kind: "refresh", State: "live", Owner: "self", User: "u1", Declared: "refresh"}
						}
						out = append(out, c)
					}
				}
			}
		}
	}
	// F: the storage refuses. Every call at which it can refuse an exchange x every error style x refusing right away /
	// after the call's work x router, for a request whose premises all hold and which reaches that call (requested type and
	// token kinds chosen accordingly; thorough: every requested type).
	for _, router := range routers {
		for _, at := range vetoPlaces {
			for _, style := range vetoStyles {
				afters := []bool{false, true}
				if vkit.Tier() != "thorough" {
					// quick: each call x style once per router, the two timings and the three requested types taking turns
					n++
					afters = afters[n%2 : n%2+1]
				}
				for _, after := range afters {
					reqs := []string{"access", "refresh", "id"}
					if vkit.Tier() != "thorough" {
						reqs = reqs[(n/2)%3 : (n/2)%3+1]
					}
					for _, req := range reqs {
						c := baseCase(router)
						c.Break, c.Requested, c.IssueJWT = "sweep-store-veto", req, true
						c.StoreVeto = &VetoSpec{At: at, Style: style, After: after}
						switch at {
						case "lookup":
							c.Subject = good[2]
						case "verify":
							c.Subject = good[4]
							c.Extras, c.Policy.VerifyThird = true, true
						}
						out = append(out, c)
					}
				}
			}
		}
	}
	return out
}

func TestMatrix(t *testing.T) {
	rec := vkit.NewRecorder(prop.ID, prop.Rule)
	defer rec.Flush()
	cases := matrix()
	for _, c := range cases {
		res := run(c)
		rec.Record(c, res)
		if fresh := vkit.Judge(rec, prop.ID, res); len(fresh) > 0 {
			rec.WriteFail(c, fresh)
			t.Fatalf("VIOLATION %s: %s [%s]", prop.ID, fresh[0].Msg, fresh[0].FP)
		}
	}
	rec.SetExtra("sweep_cases", len(cases))
	rec.SetExtra("sweep_exhaustive_over", "token kind/state x declared type x role x router; subject x actor x requested x default x format x router; application type x auth method x grant registration x credential presentation x router; subject kind x same string as actor x declared actor type (x verifier role) x router; act policy x actor x requested type x router; token kind x role x (host of issue x host served first | key change x earlier rotation x token minted before / after / presented again) x router; storage call that refuses (6) x error style (115) x right away / after the call's work x router")
}
