package c15

import (
	"testing"

	"verif/harness/vkit"
)

// TestMatrix sweeps the finite core of the quantifier completely (no sampling): every token kind/state x declared type
// in the subject and in the actor role, every subject x actor x requested type x storage default x token format for
// requests that may succeed, and every client-auth method x credential presentation - each on both routers. The cases
// go through the same run / oracle as the generated ones.

func allTokens() []TokSpec {
	var out []TokSpec
	for _, kind := range []string{"opaque", "jwt", "refresh", "id"} {
		out = append(out, TokSpec{Kind: kind, State: "live", Owner: "self", User: "u1"})
		for _, st := range statesOf[kind] {
			out = append(out, TokSpec{Kind: kind, State: st, Owner: "other", User: "u2"})
		}
	}
	out = append(out, TokSpec{Kind: "third", State: "live", Owner: "other", User: "u2"})
	for _, g := range []string{"x", "e30.bnVsbA.e30", "e30.e30.e30", "AAAAAAAAAAAAAAAAAAAAAAAAAAAAAAAA"} {
		out = append(out, TokSpec{Kind: "garbage", State: "live", Owner: "self", User: "u1", Literal: g})
	}
	return out
}

var (
	allDeclared  = []string{"access", "refresh", "id", "jwt", "saml2", "short", ""}
	allRequested = []string{"", "access", "refresh", "id", "jwt", "saml2", "short"}
)

func baseCase(router string) Case {
	return Case{Mode: "sweep", Router: router, SignKey: "p256a", ClientAuth: "client_secret_basic", Cred: "right",
		Subject:  TokSpec{Kind: "jwt", State: "live", Owner: "self", User: "u1", Declared: "access"},
		Scopes:   []string{"openid", "email", "api:read"},
		Audience: []string{"client-i"},
		Policy:   vkit.TEPolicy{DropScopes: []string{"api:read"}},
	}
}

func matrix() []Case {
	var out []Case
	routers := []string{"provider", "legacy"}
	requested := []string{"access"}
	if vkit.Tier() == "thorough" {
		requested = allRequested
	}
	n := 0
	// A: validity of the presented tokens
	for _, router := range routers {
		for _, tok := range allTokens() {
			for _, decl := range allDeclared {
				for _, vouch := range []bool{false, true} {
					if tok.Kind != "third" && vouch {
						continue
					}
					for _, req := range requested {
						n++
						tk := tok
						tk.Declared = decl
						c := baseCase(router)
						c.Break = "sweep-subject"
						c.Subject, c.Requested = tk, req
						c.Extras, c.Policy.VerifyThird = vouch, vouch
						c.IssueJWT = n%2 == 0
						out = append(out, c)
						a := tk
						a.User = "u3"
						c2 := baseCase(router)
						c2.Break = "sweep-actor"
						c2.Actor, c2.Requested = &a, req
						if req == "access" && n%2 == 1 {
							c2.Requested = "id"
						}
						c2.Extras, c2.Policy.VerifyThird = vouch, vouch
						c2.IssueJWT = n%2 == 1
						out = append(out, c2)
					}
				}
			}
		}
	}
	// B: what a permitted exchange returns
	good := []TokSpec{
		{Kind: "jwt", State: "live", Owner: "self", User: "u1", Declared: "access"},
		{Kind: "opaque", State: "live", Owner: "other", User: "u1", Declared: "access"},
		{Kind: "refresh", State: "live", Owner: "self", User: "u1", Declared: "refresh"},
		{Kind: "id", State: "live", Owner: "other", User: "u1", Declared: "id"},
		{Kind: "third", State: "live", Owner: "other", User: "u1", Declared: "jwt"},
	}
	for _, router := range routers {
		for _, s := range good {
			for ai := -1; ai < len(good); ai++ {
				for _, req := range allRequested {
					defaults := []string{""}
					if req == "" {
						defaults = []string{"", "access", "refresh", "id", "none"}
					}
					for _, def := range defaults {
						for _, jwt := range []bool{false, true} {
							n++
							c := baseCase(router)
							c.Break = "sweep-response"
							c.Subject, c.Requested, c.IssueJWT = s, req, jwt
							c.Policy.DefaultType = def
							c.Extras, c.Policy.VerifyThird = true, true
							if ai >= 0 {
								a := good[ai]
								a.User = "u2"
								c.Actor = &a
							}
							if n%3 == 0 {
								c.Policy.Impersonate = "u3"
							}
							if n%5 == 0 {
								c.Audience = nil
							}
							out = append(out, c)
						}
					}
				}
			}
		}
	}
	// C: client authentication
	for _, router := range routers {
		for _, method := range []string{"client_secret_basic", "client_secret_post", "none", "private_key_jwt"} {
			for _, cred := range append([]string{"right"}, badCreds...) {
				for _, veto := range []bool{false, true} {
					c := baseCase(router)
					c.Break = "sweep-auth"
					c.ClientAuth, c.Cred, c.Requested = method, cred, "access"
					c.Policy.Veto = veto
					out = append(out, c)
				}
			}
		}
	}
	return out
}

func TestMatrix(t *testing.T) {
	rec := vkit.NewRecorder(prop.ID, prop.Rule)
	defer rec.Flush()
	cases := matrix()
	for _, c := range cases {
		res := run(c)
		rec.Record(c, res)
		if fresh := vkit.Judge(rec, prop.ID, res); len(fresh) > 0 {
			rec.WriteFail(c, fresh)
			t.Fatalf("VIOLATION %s: %s [%s]", prop.ID, fresh[0].Msg, fresh[0].FP)
		}
	}
	rec.SetExtra("sweep_cases", len(cases))
	rec.SetExtra("sweep_exhaustive_over", "token kind/state x declared type x role x router; subject x actor x requested x default x format x router; auth method x credential x router")
}
