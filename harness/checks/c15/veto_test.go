package c15

import (
	"context"
	"errors"
	"fmt"
	"strings"

	"github.com/zitadel/oidc/v3/pkg/oidc"
	"github.com/zitadel/oidc/v3/pkg/op"
	"pgregory.net/rapid"
)

// ---------------------------------------------------------------------------
// A storage that refuses an exchange: at which of its calls, and with what kind of error value.
//
// The statement: "a storage veto yields an OAuth error and never a success response". The storage interface gives the
// storage a say at several calls of an exchange, and leaves the error value to it: whichever call it refuses at and
// whatever it returns there, the answer must be a non-2xx OAuth error document without token material.

// VetoSpec: the storage refuses the exchange at one of its calls.
type VetoSpec struct {
	// At: validate (ValidateTokenExchangeRequest) | create (CreateTokenExchangeRequest) | issue (CreateAccessToken /
	// CreateAccessAndRefreshTokens, whichever the exchange needs) | claims (GetPrivateClaimsFromTokenExchangeRequest /
	// SetUserinfoFromTokenExchangeRequest) | lookup (TokenRequestByRefreshToken: a refresh token presented as subject / actor) |
	// verify (the third-party verifier VerifyExchangeSubjectToken / VerifyExchangeActorToken)
	At string `json:"at"`
	// Style: the error value, see vetoErr
	Style string `json:"style"`
	// After: the storage does the work of the call first (sets the defaults of the request, stores the tokens, fills the
	// claims) and refuses then; the results of the call are handed back together with the error
	After bool `json:"after,omitempty"`
	// Only: 0 = at every exchange of the case, k > 0 = at exchange k only (the others are judged as exchanges without a veto)
	Only int `json:"only,omitempty"`
}

var vetoPlaces = []string{"validate", "create", "issue", "claims", "lookup", "verify"}

// every error type pkg/oidc defines
var oidcErrors = map[string]oidc.Error{
	"invalid_request":        {ErrorType: oidc.InvalidRequest},
	"invalid_scope":          {ErrorType: oidc.InvalidScope},
	"invalid_client":         {ErrorType: oidc.InvalidClient},
	"invalid_grant":          {ErrorType: oidc.InvalidGrant},
	"unauthorized_client":    {ErrorType: oidc.UnauthorizedClient},
	"unsupported_grant_type": {ErrorType: oidc.UnsupportedGrantType},
	"server_error":           {ErrorType: oidc.ServerError},
	"interaction_required":   {ErrorType: oidc.InteractionRequired},
	"login_required":         {ErrorType: oidc.LoginRequired},
	"request_not_supported":  {ErrorType: oidc.RequestNotSupported},
	"authorization_pending":  {ErrorType: oidc.AuthorizationPending},
	"slow_down":              {ErrorType: oidc.SlowDown},
	"access_denied":          {ErrorType: oidc.AccessDenied},
	"expired_token":          {ErrorType: oidc.ExpiredToken},
	"invalid_target":         {ErrorType: oidc.InvalidTarget},
}

var oidcCodes = []string{"invalid_request", "invalid_scope", "invalid_client", "invalid_grant", "unauthorized_client", "unsupported_grant_type", "server_error",
	"interaction_required", "login_required", "request_not_supported", "authorization_pending", "slow_down", "access_denied", "expired_token", "invalid_target"}

// sentinels: exported error values of the library (and of context) that a storage may hand back or pass on from a layer below
var sentinels = map[string]error{
	"invalid-refresh": op.ErrInvalidRefreshToken,
	"dup-user-code":   op.ErrDuplicateUserCode,
	"key-none":        oidc.ErrKeyNone,
	"key-multiple":    oidc.ErrKeyMultiple,
	"expired":         oidc.ErrExpired,
	"canceled":        context.Canceled,
	"deadline":        context.DeadlineExceeded,
}

var sentinelNames = []string{"invalid-refresh", "dup-user-code", "key-none", "key-multiple", "expired", "canceled", "deadline"}

// storeErr: an error type of the storage's own (what a database driver returns), optionally carrying a cause.
type storeErr struct {
	op    string
	cause error
}

func (e *storeErr) Error() string { return "store: " + e.op + " failed" }
func (e *storeErr) Unwrap() error { return e.cause }

// vetoStyles lists every style vetoErr knows:
//
//	plain | errorf | joined | custom (an error type of the storage's own)
//	oidc:<code> (a bare *oidc.Error) | oidc-desc:<code> (with a description) | oidc-parent:<code> (with a plain parent error) |
//	oidc-wrapped:<code> (fmt.Errorf("...: %w")) | oidc-joined:<code> (errors.Join of a plain error and the *oidc.Error) |
//	oidc-custom:<code> (the storage's own error type with the *oidc.Error as its cause)    for every error type of pkg/oidc
//	sentinel:<name> | sentinel-wrapped:<name> | sentinel-custom:<name>                      for the library / context sentinels
var vetoStyles = func() []string {
	out := []string{"plain", "errorf", "joined", "custom"}
	for _, c := range oidcCodes {
		for _, p := range []string{"oidc:", "oidc-desc:", "oidc-parent:", "oidc-wrapped:", "oidc-joined:", "oidc-custom:"} {
			out = append(out, p+c)
		}
	}
	for _, s := range sentinelNames {
		for _, p := range []string{"sentinel:", "sentinel-wrapped:", "sentinel-custom:"} {
			out = append(out, p+s)
		}
	}
	return out
}()

// vetoErr builds the error value of a style (a fresh value each time; unknown styles are a plain error).
func vetoErr(style string) error {
	form, name, _ := strings.Cut(style, ":")
	oe := func() *oidc.Error {
		e, ok := oidcErrors[name]
		if !ok {
			e = oidcErrors["invalid_request"]
		}
		return &e
	}
	sent := func() error {
		if s, ok := sentinels[name]; ok {
			return s
		}
		return context.Canceled
	}
	switch form {
	case "errorf":
		return fmt.Errorf("exchange %d not recorded", 7)
	case "joined":
		return errors.Join(errors.New("audit sink unreachable"), errors.New("exchange refused"))
	case "custom":
		return &storeErr{op: "insert"}
	case "oidc":
		return oe()
	case "oidc-desc":
		return oe().WithDescription("exchange not permitted by the storage")
	case "oidc-parent":
		return oe().WithDescription("exchange not permitted by the storage").WithParent(errors.New("policy engine said no"))
	case "oidc-wrapped":
		return fmt.Errorf("storage: %w", oe().WithDescription("exchange not permitted by the storage"))
	case "oidc-joined":
		return errors.Join(errors.New("audit sink unreachable"), oe().WithDescription("exchange not permitted by the storage"))
	case "oidc-custom":
		return &storeErr{op: "policy", cause: oe().WithDescription("exchange not permitted by the storage")}
	case "sentinel":
		return sent()
	case "sentinel-wrapped":
		return fmt.Errorf("storage: %w", sent())
	case "sentinel-custom":
		return &storeErr{op: "query", cause: sent()}
	}
	return errors.New("exchange request can not be recorded")
}

// styleClass folds a style into the class named in labels / fingerprints.
func styleClass(style string) string {
	form, name, _ := strings.Cut(style, ":")
	switch {
	case form == "oidc" || form == "oidc-desc" || form == "oidc-parent":
		return "oidc-error"
	case strings.HasPrefix(form, "oidc-"):
		return "wrapped-oidc-error"
	case strings.HasPrefix(form, "sentinel") && (name == "canceled" || name == "deadline"):
		return "context-error"
	case strings.HasPrefix(form, "sentinel"):
		return "library-sentinel"
	}
	return "plain-error"
}

// vetoPlan is the veto of a case as the wrapped storage sees it: armed for the exchange request only (never while the
// harness mints tokens or inspects an answer), it records at which calls the storage really refused.
type vetoPlan struct {
	spec  VetoSpec
	armed bool
	hits  []string
}

func (p *vetoPlan) due(at string) bool { return p != nil && p.armed && p.spec.At == at }

// around runs one storage call under the plan: refuse before the call, or after a call that went well.
func (p *vetoPlan) around(at, method string, inner func() error) error {
	if p.due(at) && !p.spec.After {
		p.hits = append(p.hits, method)
		return vetoErr(p.spec.Style)
	}
	err := inner()
	if err == nil && p.due(at) {
		p.hits = append(p.hits, method)
		return vetoErr(p.spec.Style)
	}
	return err
}

// arm / disarm bracket the exchange request; disarm returns the calls the storage refused at.
func (p *vetoPlan) arm(idx int) {
	if p == nil {
		return
	}
	p.hits = nil
	p.armed = p.spec.Only == 0 || p.spec.Only == idx+1
}

func (p *vetoPlan) disarm() []string {
	if p == nil {
		return nil
	}
	p.armed = false
	h := p.hits
	p.hits = nil
	return h
}

func validVeto(v *VetoSpec) bool {
	return v != nil && contains(vetoPlaces, v.At)
}

// genVeto draws the storage's veto: the two hooks of the exchange and the token creation most often.
func genVeto(t *rapid.T) *VetoSpec {
	v := &VetoSpec{}
	v.At = rapid.SampledFrom([]string{"validate", "validate", "create", "create", "create", "issue", "issue", "issue", "claims", "lookup", "verify"}).Draw(t, "veto.at")
	// half of the draws from the four families evenly, the other half from the whole list (every code / sentinel)
	switch rapid.IntRange(0, 7).Draw(t, "veto.family") {
	case 0:
		v.Style = rapid.SampledFrom([]string{"plain", "errorf", "joined", "custom"}).Draw(t, "veto.style")
	case 1:
		v.Style = rapid.SampledFrom([]string{"oidc:", "oidc-desc:", "oidc-parent:"}).Draw(t, "veto.form") + rapid.SampledFrom(oidcCodes).Draw(t, "veto.code")
	case 2:
		v.Style = rapid.SampledFrom([]string{"oidc-wrapped:", "oidc-joined:", "oidc-custom:"}).Draw(t, "veto.form") + rapid.SampledFrom(oidcCodes).Draw(t, "veto.code")
	case 3:
		v.Style = rapid.SampledFrom([]string{"sentinel:", "sentinel-wrapped:", "sentinel-custom:"}).Draw(t, "veto.form") + rapid.SampledFrom(sentinelNames).Draw(t, "veto.sentinel")
	default:
		v.Style = rapid.SampledFrom(vetoStyles).Draw(t, "veto.style")
	}
	v.After = rapid.IntRange(0, 3).Draw(t, "veto.after") == 0
	return v
}
