// Package c03: the OP never redirects an authorization response or error to an unregistered URI (property C03).
package c03

import (
	"context"
	"encoding/json"
	"net/http/httptest"
	"runtime/debug"
	"fmt"
	"net"
	"net/url"
	"sort"
	"strings"
	"testing"
	"time"

	"github.com/zitadel/oidc/v3/pkg/oidc"
	"github.com/zitadel/oidc/v3/pkg/op"
	"golang.org/x/net/html"
	"pgregory.net/rapid"

	"verif/harness/vkit"
)

type Case struct {
	Router       string          `json:"router"`
	Client       vkit.ClientSpec `json:"client"`
	Requested    string          `json:"requested"`
	OmitURI      bool            `json:"omit_uri,omitempty"`
	ResponseType string          `json:"response_type"`
	ResponseMode string          `json:"response_mode,omitempty"`
	State        string          `json:"state,omitempty"`
	ErrPath      string          `json:"err_path"`
	ObjectURI    string          `json:"object_uri,omitempty"` // redirect_uri inside a signed request object (reqobj_* paths)
	Relation     string          `json:"relation"`             // how Requested was derived (label only)
	ErrStyle     string          `json:"err_style,omitempty"`  // how the storage words its refusals (vkit.Store.refuse)
	FaultKind    string          `json:"fault_kind,omitempty"` // kind of the injected storage fault on the store_* paths ("" = error)
}

// ---- generators ---------------------------------------------------------------

var (
	webHosts  = []string{"rp.example.com", "app.example.org"}
	loopHosts = []string{"localhost", "127.0.0.1", "[::1]", "127.1.2.3"}
	ports     = []string{"", "", ":8080", ":443", ":80"}
	paths     = []string{"/cb", "/auth/callback", "", "/a/b", "/"}
	queries   = []string{"", "", "", "?x=1", "?a=b&c=d"}
)

func genRegistered(t *rapid.T, label string) string {
	switch rapid.SampledFrom([]string{"https", "https", "http", "loop", "loop", "custom"}).Draw(t, label+"kind") {
	case "https":
		return "https://" + rapid.SampledFrom(webHosts).Draw(t, label+"h") + rapid.SampledFrom(ports).Draw(t, label+"p") + rapid.SampledFrom(paths).Draw(t, label+"pa") + rapid.SampledFrom(queries).Draw(t, label+"q")
	case "http":
		return "http://" + rapid.SampledFrom(webHosts).Draw(t, label+"h") + rapid.SampledFrom(ports).Draw(t, label+"p") + rapid.SampledFrom(paths).Draw(t, label+"pa") + rapid.SampledFrom(queries).Draw(t, label+"q")
	case "loop":
		return rapid.SampledFrom([]string{"http", "http", "https"}).Draw(t, label+"s") + "://" + rapid.SampledFrom(loopHosts).Draw(t, label+"h") + rapid.SampledFrom(ports).Draw(t, label+"p") + rapid.SampledFrom(paths).Draw(t, label+"pa") + rapid.SampledFrom(queries).Draw(t, label+"q")
	default:
		return rapid.SampledFrom([]string{"com.example.app:/cb", "myapp://callback", "com.example.app:/oauth/cb?x=1", "org.example:/"}).Draw(t, label+"c")
	}
}

func genGlob(t *rapid.T, label string) string {
	return rapid.SampledFrom([]string{
		"https://rp.example.com/cb/*", "https://*.example.com/cb", "http://localhost:*/cb", "https://rp.example.com/*/cb",
		"http://rp.example.com/*", "com.example.app:/*", "https://rp.example.com/cb*",
		"https://rp.example.com/cb/*", "https://*.example.com/cb", "http://localhost:*/cb", "https://rp.example.com/*/cb",
		// syntactically malformed patterns (an administrator's typo): they match nothing
		"https://rp.example.com/[cb", "https://rp.example.com/cb/{a,b",
	}).Draw(t, label)
}

func swapScheme(u string) string {
	if strings.HasPrefix(u, "https://") {
		return "http://" + strings.TrimPrefix(u, "https://")
	}
	if strings.HasPrefix(u, "http://") {
		return "https://" + strings.TrimPrefix(u, "http://")
	}
	return "https://" + u
}

func hostOf(u string) (scheme, host, rest string, ok bool) {
	i := strings.Index(u, "://")
	if i < 0 {
		return "", "", "", false
	}
	scheme = u[:i]
	r := u[i+3:]
	j := strings.IndexAny(r, "/?#")
	if j < 0 {
		return scheme, r, "", true
	}
	return scheme, r[:j], r[j:], true
}

func genRequested(t *rapid.T, c *vkit.ClientSpec) (string, string) {
	reg := c.RedirectURIs
	base := rapid.SampledFrom(reg).Draw(t, "base")
	kind := rapid.SampledFrom([]string{
		"registered", "registered", "registered", "registered", "registered", "registered",
		"userinfo", "suffixhost", "prefixhost", "extrapath", "dotdot", "addquery", "addfragment", "upperhost", "upperscheme",
		"trailingslash", "trailingdot", "schemeswap", "portchange", "backslash", "schemerelative", "relative", "empty",
		"loopvariant", "loopvariant", "loopvariant", "loopsuffix", "other", "otherloop", "globhit", "globmiss", "pathquery-of-registered-on-loop",
	}).Draw(t, "rel")
	scheme, host, rest, ok := hostOf(base)
	switch kind {
	case "registered":
		return base, kind
	case "userinfo":
		if ok {
			return scheme + "://" + host + "@evil.example.net" + rest, kind
		}
	case "suffixhost":
		if ok {
			return scheme + "://" + host + ".evil.example.net" + rest, kind
		}
	case "prefixhost":
		if ok {
			return scheme + "://evil" + host + rest, kind
		}
	case "extrapath":
		return base + "/extra", kind
	case "dotdot":
		return base + rapid.SampledFrom([]string{"/../x", "/%2e%2e/x", "/./"}).Draw(t, "dd"), kind
	case "addquery":
		if strings.Contains(base, "?") {
			return base + "&evil=1", kind
		}
		return base + "?evil=1", kind
	case "addfragment":
		return base + "#frag", kind
	case "upperhost":
		if ok {
			return scheme + "://" + strings.ToUpper(host) + rest, kind
		}
	case "upperscheme":
		if ok {
			return strings.ToUpper(scheme) + "://" + host + rest, kind
		}
	case "trailingslash":
		return base + "/", kind
	case "trailingdot":
		if ok {
			return scheme + "://" + host + "." + rest, kind
		}
	case "schemeswap":
		return swapScheme(base), kind
	case "portchange":
		if ok {
			h := host
			if i := strings.LastIndex(h, ":"); i > 0 && !strings.HasSuffix(h, "]") {
				h = h[:i]
			}
			return scheme + "://" + h + ":" + rapid.SampledFrom([]string{"1", "8443", "65535", "0"}).Draw(t, "port") + rest, kind
		}
	case "backslash":
		if ok {
			return scheme + "://" + host + "\\@evil.example.net" + rest, kind
		}
	case "schemerelative":
		return "//evil.example.net/cb", kind
	case "relative":
		return "/cb", kind
	case "empty":
		return "", kind
	case "loopvariant":
		if ok {
			nh := rapid.SampledFrom(loopHosts).Draw(t, "lh") + rapid.SampledFrom([]string{"", ":1234", ":65000", ":80"}).Draw(t, "lp")
			ns := rapid.SampledFrom([]string{"http", "https"}).Draw(t, "ls")
			return ns + "://" + nh + rest, kind
		}
	case "pathquery-of-registered-on-loop":
		if ok {
			return "http://localhost:7777" + rest, kind
		}
	case "loopsuffix":
		if ok {
			return scheme + "://" + rapid.SampledFrom([]string{"localhost.evil.example.net", "127.0.0.1.evil.example.net", "localhostx", "evil-localhost"}).Draw(t, "ls") + rest, kind
		}
	case "other":
		return rapid.SampledFrom([]string{"https://evil.example.net/cb", "http://evil.example.net/cb", "evil:/cb", "javascript:alert(1)", "https://rp.example.com.evil.net/cb"}).Draw(t, "o"), kind
	case "otherloop":
		return rapid.SampledFrom([]string{"http://localhost/other", "http://127.0.0.1:9/cb?z=1", "https://[::1]/cb"}).Draw(t, "ol"), kind
	case "globhit":
		return rapid.SampledFrom([]string{"https://rp.example.com/cb/x", "https://evil.example.com/cb", "http://localhost:9999/cb", "https://rp.example.com/zz/cb", "http://rp.example.com/any", "com.example.app:/zz", "https://rp.example.com/cbx"}).Draw(t, "gh"), kind
	case "globmiss":
		return rapid.SampledFrom([]string{"https://rp.example.com/cb/x/y", "https://evil.example.com.net/cb", "http://localhost:9999/cb/x", "https://rp.example.com/cb/", "https://x.example.com/cb/"}).Draw(t, "gm"), kind
	}
	return base, "registered"
}

func genCase(t *rapid.T) Case {
	var c Case
	c.Router = rapid.SampledFrom([]string{"provider", "legacy"}).Draw(t, "router")
	cl := &c.Client
	cl.ID = "client-a"
	cl.Secret = "secret-a"
	cl.AppType = rapid.SampledFrom([]string{"web", "web", "user_agent", "native", "native"}).Draw(t, "apptype")
	cl.AuthMethod = rapid.SampledFrom([]string{"client_secret_basic", "none", "client_secret_post", "private_key_jwt"}).Draw(t, "authmethod")
	cl.DevMode = rapid.IntRange(0, 4).Draw(t, "devmode") == 0
	cl.ResponseTypes = rapid.SampledFrom([][]string{{"code"}, {"code", "id_token", "id_token token"}, {"id_token", "id_token token"}, {"code", "id_token token"}}).Draw(t, "rts")
	cl.GrantTypes = []string{vkit.GCode, vkit.GImpl}
	cl.Keys = map[string]string{"ka": "rsa2"}
	n := rapid.IntRange(1, 4).Draw(t, "nreg")
	for i := 0; i < n; i++ {
		u := genRegistered(t, fmt.Sprintf("reg%d", i))
		if !contains(cl.RedirectURIs, u) {
			cl.RedirectURIs = append(cl.RedirectURIs, u)
		}
	}
	if rapid.IntRange(0, 3).Draw(t, "globs") == 0 {
		cl.UseGlobs = true
		ng := rapid.IntRange(1, 2).Draw(t, "nglob")
		for i := 0; i < ng; i++ {
			cl.RedirectGlobs = append(cl.RedirectGlobs, genGlob(t, fmt.Sprintf("glob%d", i)))
		}
	} else if rapid.IntRange(0, 5).Draw(t, "dormantglobs") == 0 {
		// globs present in the registration data but the client did NOT opt in
		cl.RedirectGlobs = []string{genGlob(t, "dglob")}
	}
	c.Requested, c.Relation = genRequested(t, cl)
	if c.Relation == "empty" && rapid.Bool().Draw(t, "omit") {
		c.OmitURI = true
	}
	if rapid.IntRange(0, 7).Draw(t, "rtreg") > 0 {
		c.ResponseType = rapid.SampledFrom(cl.ResponseTypes).Draw(t, "rt")
	} else {
		c.ResponseType = rapid.SampledFrom([]string{"code", "id_token", "id_token token", "token", ""}).Draw(t, "rt")
	}
	c.ResponseMode = rapid.SampledFrom([]string{"", "", "query", "fragment", "form_post"}).Draw(t, "rm")
	c.State = rapid.SampledFrom([]string{"", "xyz", "a b&c=d"}).Draw(t, "state")
	c.ErrPath = rapid.SampledFrom([]string{
		"none", "none", "none", "none", "none", "none",
		"bad_form", "max_age", "unknown_client", "no_client", "no_scope", "bad_prompt", "bad_hint", "prompt_none",
		"store_create_fail", "store_client_fail", "store_client_fail_cb", "store_code_fail", "no_login", "unknown_callback",
		"reqobj_same", "reqobj_other_uri", "reqobj_foreign", "reqobj_unsupported", "reqobj_garbage",
	}).Draw(t, "errpath")
	if rapid.Bool().Draw(t, "errstyled") {
		c.ErrStyle = rapid.SampledFrom(vkit.ErrStyles).Draw(t, "errstyle")
	}
	if strings.HasPrefix(c.ErrPath, "store_") {
		c.FaultKind = rapid.SampledFrom([]string{"", "deadline", "oidc", "oidc-wrapped"}).Draw(t, "faultkind")
	}
	if strings.HasPrefix(c.ErrPath, "reqobj") {
		c.ObjectURI = rapid.SampledFrom([]string{c.Requested, "https://evil.example.net/cb", cl.RedirectURIs[0], "http://localhost:1/cb"}).Draw(t, "objuri")
	}
	return c
}

func contains(l []string, s string) bool {
	for _, x := range l {
		if x == s {
			return true
		}
	}
	return false
}

// ---- reference model ---------------------------------------------------------

// simple glob: '*' matches any run of characters other than '/'. Patterns and
// subjects stay inside the subset where path.Match and doublestar agree with this.
func globMatch(pat, s string) bool {
	if pat == "" {
		return s == ""
	}
	if pat[0] == '*' {
		for i := 0; i <= len(s); i++ {
			if globMatch(pat[1:], s[i:]) {
				return true
			}
			if i < len(s) && s[i] == '/' {
				break
			}
		}
		return false
	}
	if s == "" || pat[0] != s[0] {
		return false
	}
	return globMatch(pat[1:], s[1:])
}


type loopInfo struct {
	ok        bool // http/https URL on a loopback host
	path, raw string
	plain     bool // no userinfo, no fragment, lower-case scheme: differs from a registered URI only in scheme, host spelling, port
}

func loopback(raw string) loopInfo {
	u, err := url.Parse(raw)
	if err != nil {
		return loopInfo{}
	}
	if u.Scheme != "http" && u.Scheme != "https" {
		return loopInfo{}
	}
	h := u.Hostname()
	ip := net.ParseIP(h)
	if h != "localhost" && (ip == nil || !ip.IsLoopback()) {
		return loopInfo{}
	}
	plain := u.User == nil && u.Fragment == "" && !strings.Contains(raw, "#") && (strings.HasPrefix(raw, "http://") || strings.HasPrefix(raw, "https://")) && u.Opaque == ""
	return loopInfo{ok: true, path: u.EscapedPath(), raw: u.RawQuery, plain: plain}
}

// verdict: +1 allowed, -1 refused, 0 grey
func allowed(c *vkit.ClientSpec, uri, responseType string) (int, string) {
	if uri == "" {
		return -1, "empty"
	}
	exact := contains(c.RedirectURIs, uri)
	glob, malformed := false, false
	if c.UseGlobs {
		for _, g := range c.RedirectGlobs {
			if strings.ContainsAny(g, "[{") {
				malformed = true // matches nothing; the implementation may stop at it (fail closed)
				continue
			}
			if globMatch(g, uri) {
				glob = true
			}
		}
	}
	if !exact && glob && malformed {
		return 0, "glob-hit-beside-malformed-glob"
	}
	registered := exact || glob
	isHTTPS := strings.HasPrefix(uri, "https://")
	isHTTP := strings.HasPrefix(uri, "http://")
	custom := !isHTTP && !isHTTPS
	if c.AppType == "native" {
		lb := loopback(uri)
		if registered {
			switch {
			case c.DevMode:
				return 1, "native-registered-devmode"
			case isHTTPS:
				return 1, "native-registered-https"
			case custom:
				return 1, "native-registered-custom"
			case lb.ok:
				return 1, "native-registered-loopback"
			}
			return -1, "native-http-nonloopback"
		}
		if !lb.ok {
			return -1, "native-unregistered"
		}
		for _, r := range c.RedirectURIs {
			rl := loopback(r)
			if rl.ok && rl.path == lb.path && rl.raw == lb.raw {
				if lb.plain {
					return 1, "native-loopback-variant"
				}
				return 0, "native-loopback-variant-decorated"
			}
		}
		return -1, "native-loopback-unregistered"
	}
	if !registered {
		return -1, "unregistered"
	}
	if isHTTPS {
		return 1, "https-registered"
	}
	if isHTTP {
		if c.DevMode {
			return 1, "http-devmode"
		}
		if responseType == "code" && c.AppType == "web" {
			return 1, "http-confidential-code"
		}
		return -1, "http-not-allowed"
	}
	return -1, "custom-scheme-non-native"
}

// sameTarget: does location point at requested (ignoring added response parameters)?
func sameTarget(location, requested string) bool {
	if requested != "" && location == requested {
		return true // byte-identical (also covers strings that are not parsable URIs, e.g. a form_post action)
	}
	pr, err := url.Parse(requested)
	if err != nil || requested == "" {
		return false
	}
	pl, err := url.Parse(location)
	if err != nil {
		return false
	}
	if pl.Scheme != pr.Scheme || pl.Opaque != pr.Opaque || pl.Host != pr.Host || pl.EscapedPath() != pr.EscapedPath() {
		return false
	}
	if (pl.User == nil) != (pr.User == nil) || (pl.User != nil && pl.User.String() != pr.User.String()) {
		return false
	}
	lq := pl.Query()
	for k, vs := range pr.Query() {
		have := append([]string(nil), lq[k]...)
		for _, v := range vs {
			found := false
			for i, h := range have {
				if h == v {
					have = append(have[:i], have[i+1:]...)
					found = true
					break
				}
			}
			if !found {
				return false
			}
		}
	}
	return true
}

// ---- execution -----------------------------------------------------------------

func formAction(body []byte) (string, bool) {
	doc, err := html.Parse(strings.NewReader(string(body)))
	if err != nil {
		return "", false
	}
	var action string
	var found bool
	var walk func(n *html.Node)
	walk = func(n *html.Node) {
		if n.Type == html.ElementNode && n.Data == "form" {
			for _, a := range n.Attr {
				if a.Key == "action" {
					action, found = a.Val, true
				}
			}
		}
		for ch := n.FirstChild; ch != nil; ch = ch.NextSibling {
			walk(ch)
		}
	}
	walk(doc)
	return action, found
}

const issuer = "https://op.example.com"

func requestObject(c Case, signer *vkit.ClientSpec, kid, key string) string {
	m := map[string]any{"iss": signer.ID, "aud": []string{issuer}, "client_id": signer.ID, "response_type": c.ResponseType,
		"redirect_uri": c.ObjectURI, "scope": "openid", "iat": time.Now().Unix(), "exp": time.Now().Add(time.Hour).Unix()}
	b, _ := json.Marshal(m)
	return vkit.MustSignJWT("RS256", kid, vkit.Key(key), b)
}

func run(c Case) *vkit.Result {
	res := &vkit.Result{}
	cl := c.Client
	other := &vkit.ClientSpec{ID: "client-b", Secret: "secret-b", AppType: "web", AuthMethod: "client_secret_basic", GrantTypes: []string{vkit.GCode},
		ResponseTypes: []string{"code", "id_token", "id_token token"}, RedirectURIs: []string{"https://evil.example.net/cb", "https://other.example.net/cb"}, Keys: map[string]string{"kb": "rsa3"}}
	pol := vkit.StorePolicy{ErrStyle: c.ErrStyle}
	fk := c.FaultKind
	if fk == "" {
		fk = "error"
	}
	if c.ErrPath == "prompt_none" {
		pol.PromptNoneLoginError = true
	}
	st := vkit.NewStore([]*vkit.ClientSpec{&cl, other}, vkit.SignKeySpec{KeyName: "rsa1", Alg: "RS256", KID: "sig1"}, pol)
	spec := vkit.DefaultProviderSpec(c.Router)
	if c.ErrPath == "reqobj_unsupported" {
		spec.ReqObj = false
	}
	sut := vkit.MustBuild(spec, st)
	ag := vkit.NewAgent(sut)

	q := url.Values{"client_id": {cl.ID}, "response_type": {c.ResponseType}, "scope": {"openid profile"}}
	if !c.OmitURI {
		q.Set("redirect_uri", c.Requested)
	}
	if c.ResponseMode != "" {
		q.Set("response_mode", c.ResponseMode)
	}
	if c.State != "" {
		q.Set("state", c.State)
	}
	rawExtra := ""
	candidates := []string{c.Requested}
	objectInPlay := false
	switch c.ErrPath {
	case "bad_form":
		rawExtra = "&bad=%zz"
	case "max_age":
		q.Set("max_age", "abc")
	case "unknown_client":
		q.Set("client_id", "nobody")
	case "no_client":
		q.Del("client_id")
	case "no_scope":
		q.Del("scope")
	case "bad_prompt":
		q.Set("prompt", "none login")
	case "prompt_none":
		q.Set("prompt", "none")
	case "bad_hint":
		q.Set("id_token_hint", "e30.e30.e30")
	case "store_create_fail":
		st.SetFaults(vkit.Fault{Method: "CreateAuthRequest", Kind: fk})
	case "store_client_fail":
		st.SetFaults(vkit.Fault{Method: "GetClientByClientID", Kind: fk})
	case "reqobj_same", "reqobj_other_uri", "reqobj_unsupported":
		q.Set("request", requestObject(c, &cl, "ka", "rsa2"))
		candidates = append(candidates, c.ObjectURI)
		objectInPlay = true
	case "reqobj_foreign":
		// signed by another registered client with its own key and kid, naming itself
		q.Set("request", requestObject(c, other, "kb", "rsa3"))
		candidates = append(candidates, c.ObjectURI)
		objectInPlay = true
	case "reqobj_garbage":
		q.Set("request", "e30.bnVsbA.e30")
		objectInPlay = true
	}

	var responses []*vkit.Resp
	authResp := ag.Get(sut.Paths["authorization"]+"?"+q.Encode()+rawExtra, nil, nil)
	responses = append(responses, authResp)
	reqID, toLogin := vkit.LoginRequestID(authResp)
	var final *vkit.Resp
	if toLogin {
		if c.ErrPath != "no_login" {
			st.Login(reqID, "u1")
		}
		switch c.ErrPath {
		case "store_code_fail":
			st.SetFaults(vkit.Fault{Method: "SaveAuthCode", Kind: fk}, vkit.Fault{Method: "CreateAccessToken", Kind: fk})
		case "store_client_fail_cb":
			st.SetFaults(vkit.Fault{Method: "GetClientByClientID", Kind: fk})
		}
		id := reqID
		if c.ErrPath == "unknown_callback" {
			id = "ar-999"
		}
		final = ag.Callback(id)
		responses = append(responses, final)
	}

	// the URI the stored request carries is what the callback will use: the effective requested URI
	effective := c.Requested
	if ar, ok := st.AuthReqSnapshot(reqID); ok && toLogin {
		effective = ar.RedirectURI
		if !contains(candidates, effective) {
			res.Fail("C03:stored-uri-not-requested", "auth request stored with redirect_uri %q which was neither in the query nor in the request object", effective)
		}
	}

	clientKnown := c.ErrPath != "unknown_client" && c.ErrPath != "no_client"
	verdictQ, reasonQ := allowed(&cl, c.Requested, c.ResponseType)
	if c.OmitURI {
		verdictQ, reasonQ = -1, "omitted"
	}
	if !clientKnown {
		verdictQ, reasonQ = -1, "no-client"
	}

	for i, r := range responses {
		if r.Panic != nil {
			res.Fail("C03:panic@"+r.PanicFrame(), "panic: %v", r.Panic)
			continue
		}
		target := ""
		if r.IsRedirect() {
			target = r.Location()
			if i == 0 && toLogin {
				continue // redirect to the OP's own login UI
			}
		} else if r.Status == 200 && strings.Contains(r.Header.Get("Content-Type")+string(r.Body), "<form") {
			if a, ok := formAction(r.Body); ok {
				target = a
				res.Label("form_post-delivery")
			}
		}
		if target == "" {
			continue
		}
		if target == "#ZgotmplZ" {
			// html/template refused to emit the URI as an action: inert, nothing is sent anywhere
			res.Label("form-action-neutralised")
			continue
		}
		// several candidates can denote the same target (a fragment-mode response replaces the fragment of the URI): the
		// response is judged against the most favourable one - it is indistinguishable from a delivery to that URI
		matched, v, why := "", -2, ""
		for _, cand := range candidates {
			if !sameTarget(target, cand) {
				continue
			}
			cv, cwhy := allowed(&cl, cand, c.ResponseType)
			if cv > v {
				matched, v, why = cand, cv, cwhy
			}
		}
		if v == -2 {
			res.Fail("C03:redirect-to-unrequested", "response %d sends the user agent to %q, which is neither the login UI nor the requested redirect_uri %q", i, target, candidates)
			continue
		}
		if !clientKnown {
			v, why = -1, "no-client"
		}
		res.Label("delivered:" + why)
		if v < 0 {
			res.Fail("C03:redirect-to-unregistered:"+why, "response %d (status %d) sends the user agent to %q; redirect_uri %q is not acceptable for client %+v (%s)", i, r.Status, target, matched, cl, why)
		}
	}

	// refused requests are answered directly, never with a redirect (not even to the login UI)
	allRefused := verdictQ < 0
	if objectInPlay && c.ObjectURI != "" {
		vo, _ := allowed(&cl, c.ObjectURI, c.ResponseType)
		allRefused = allRefused && vo < 0
	}
	if allRefused {
		res.Label("must-refuse", "refuse:"+reasonQ)
		if authResp.IsRedirect() {
			res.Fail("C03:refused-but-redirected:"+reasonQ, "authorize answered %d to %q although redirect_uri %q must be refused (%s)", authResp.Status, authResp.Location(), c.Requested, reasonQ)
		}
	}

	// completeness: an acceptable, fault-free code/implicit request reaches the redirect URI
	_, perr := url.Parse(c.Requested)
	if verdictQ > 0 && perr != nil {
		// a string that matches a registered glob but is not a URI at all (e.g. "http://localhost:8080.evil/cb": invalid
		// port) cannot be redirected to by anybody; refusing it is no loss of completeness
		res.Label("grey:model-allowed-but-not-a-uri")
		res.Grey = true
	}
	if verdictQ > 0 && perr == nil && c.ErrPath == "none" && contains(cl.ResponseTypes, c.ResponseType) && c.ResponseType != "" {
		res.Label("must-deliver", "allow:"+reasonQ)
		ok := false
		if final != nil && final.Panic == nil {
			if final.IsRedirect() && sameTarget(final.Location(), c.Requested) {
				p := vkit.DeliveredParams(final.Location())
				ok = p.Get("code") != "" || p.Get("id_token") != ""
			} else if final.Status == 200 && c.ResponseMode == "form_post" {
				a, found := formAction(final.Body)
				ok = found && (sameTarget(a, c.Requested) || a == "#ZgotmplZ")
			}
		}
		if !ok {
			d := "no callback (authorize: " + authResp.Describe() + ")"
			if final != nil {
				d = final.Describe()
			}
			res.Fail("C03:complete:"+reasonQ, "acceptable request (%s) did not reach the redirect URI %q: %s", reasonQ, c.Requested, d)
		}
	} else if verdictQ == 0 {
		res.Grey = true
		res.Label("grey:" + reasonQ)
	}

	// the same guarantee through the public building blocks a custom Server / validator uses:
	// the error the validator returns for a refused URI must never be turned into a redirect
	directAPI(res, c, &cl, sut)

	path := "direct-error"
	if toLogin {
		path = "login"
		if final != nil {
			switch {
			case final.IsRedirect():
				path = "callback-redirect"
			case final.Status == 200:
				path = "callback-form"
			default:
				path = "callback-error"
			}
		}
	}
	res.Label("path:"+path, "rel:"+c.Relation, "err:"+c.ErrPath, "router:"+c.Router)
	res.NonTrivial = !contains(cl.RedirectURIs, c.Requested) || (c.ErrPath != "none" && toLogin)
	regKinds := []string{}
	for _, r := range cl.RedirectURIs {
		regKinds = append(regKinds, strings.SplitN(r, ":", 2)[0])
	}
	sort.Strings(regKinds)
	res.Key = fmt.Sprintf("%s|%s|dev=%v|globs=%v|%v|%s|%s|%s|%s|%s|%s|v=%d", c.Router, cl.AppType, cl.DevMode, cl.UseGlobs, regKinds, c.Relation, c.ResponseType, c.ResponseMode, c.ErrPath, path, reasonQ, verdictQ)
	res.Info = map[string]any{"verdict": verdictQ, "reason": reasonQ, "path": path, "effective": effective}
	return res
}

func directAPI(res *vkit.Result, c Case, cl *vkit.ClientSpec, sut *vkit.SUT) {
	defer func() {
		if p := recover(); p != nil {
			res.Fail("C03:panic@"+vkit.FirstLibFrame(string(debug.Stack())), "direct API panic: %v", p)
		}
	}()
	verr := op.ValidateAuthReqRedirectURI(vkit.AsOPClient(cl), c.Requested, oidc.ResponseType(c.ResponseType))
	v, why := allowed(cl, c.Requested, c.ResponseType)
	if v > 0 && verr != nil {
		res.Fail("C03:validator-rejects-acceptable:"+why, "ValidateAuthReqRedirectURI(%q) = %v but the URI is acceptable (%s)", c.Requested, verr, why)
	}
	if v < 0 && verr == nil {
		res.Fail("C03:validator-accepts:"+why, "ValidateAuthReqRedirectURI(%q) accepted a URI that must be refused (%s)", c.Requested, why)
	}
	if verr == nil {
		return
	}
	ar := &oidc.AuthRequest{RedirectURI: c.Requested, ResponseType: oidc.ResponseType(c.ResponseType), State: c.State, ResponseMode: oidc.ResponseMode(c.ResponseMode)}
	red, _ := op.TryErrorRedirect(context.Background(), ar, verr, sut.Provider.Encoder(), vkit.DiscardLogger())
	if red != nil {
		res.Fail("C03:tryerrorredirect-redirects-refused", "TryErrorRedirect turned the validator's refusal of %q into a redirect to %q", c.Requested, red.URL)
	}
	w := httptest.NewRecorder()
	op.AuthRequestError(w, httptest.NewRequest("GET", "/authorize", nil), ar, verr, sut.Provider)
	if w.Code >= 300 && w.Code < 400 {
		res.Fail("C03:authrequesterror-redirects-refused", "AuthRequestError turned the validator's refusal of %q into a redirect to %q", c.Requested, w.Header().Get("Location"))
	}
	res.Label("direct-api-refusal")
}

var prop = vkit.Prop[Case]{
	ID: "C03",
	Rule: "cases = client registration (application type x dev mode x auth method x response types x 1-4 registered URIs from a grammar x optional opted-in or dormant globs) x requested redirect_uri (registered or one of 30 near-miss relations) x response_type x response_mode x error path (24 kinds incl. pre-validation errors, request objects, storage faults, missing login) x router, driven authorize->login->callback; " +
		"non-trivial = requested URI is not a registered string, or an error path taken after URI validation; distinct = (router, client class, registered schemes, relation, response type/mode, error path, path taken, model reason)",
	Gen: genCase,
	Run: run,
}

func TestRapid(t *testing.T)  { prop.Check(t) }
func TestReplay(t *testing.T) { prop.Replay(t) }
