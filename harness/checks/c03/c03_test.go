// Package c03: the OP never redirects an authorization response or error to an unregistered URI (property C03).
package c03

import (
	"context"
	"encoding/json"
	"errors"
	"fmt"
	"net"
	"net/http"
	"net/http/httptest"
	"net/url"
	"runtime/debug"
	"sort"
	"strings"
	"testing"
	"time"

	"github.com/zitadel/oidc/v3/pkg/oidc"
	"github.com/zitadel/oidc/v3/pkg/op"
	"golang.org/x/net/html"
	"pgregory.net/rapid"

	"verif/harness/vkit"
)

type Case struct {
	Router       string          `json:"router"`
	Client       vkit.ClientSpec `json:"client"`
	Requested    string          `json:"requested"`
	OmitURI      bool            `json:"omit_uri,omitempty"`
	ResponseType string          `json:"response_type"`
	ResponseMode string          `json:"response_mode,omitempty"`
	State        string          `json:"state,omitempty"`
	ErrPath      string          `json:"err_path"`
	ObjectURI    string          `json:"object_uri,omitempty"` // redirect_uri inside a signed request object (reqobj_* paths)
	Relation     string          `json:"relation"`             // how Requested was derived (label only)
	ErrStyle     string          `json:"err_style,omitempty"`  // how the storage words its refusals (vkit.Store.refuse)
	FaultKind    string          `json:"fault_kind,omitempty"` // kind of the injected storage fault on the store_* paths ("" = error)

	// sequences: the fields above are flow 0 (on provider 0); More = further flows that run, one after the other, on the
	// same long-lived provider instance(s)
	Break   string `json:"break,omitempty"`   // flow 0: which of its responses go to a ResponseWriter that breaks ("authorize", "callback", "both")
	Accept  int    `json:"accept,omitempty"`  // ... after this many body bytes
	Router2 string `json:"router2,omitempty"` // router of provider 1 (a second instance in the same process with its own storage)
	More    []Flow `json:"more,omitempty"`

	// custom op.Server variants (routers "custom" / "custom-bare", see server_test.go)
	PushOrder string  `json:"push_order,omitempty"` // "after" | "before": deposit applied after / before the embedded LegacyServer's verification
	PushMerge string  `json:"push_merge,omitempty"` // "replace" | "overlay"
	Pushed    *Pushed `json:"pushed,omitempty"`     // flow 0 presents a request_uri; this is what was deposited under it
}

// Flow is one authorization flow (authorize -> login -> callback) of a sequence. Client is the registration in force for
// this flow: it is written into the storage of provider Prov (as a fresh record, the way a storage loads a row again)
// before the authorization request is sent, while no request is in flight; the oracle judges every response of the flow
// against it.
type Flow struct {
	Prov         int             `json:"prov,omitempty"`
	Client       vkit.ClientSpec `json:"client"`
	Change       string          `json:"change,omitempty"`       // how Client was derived from the previous registration of that id on that provider (label)
	Unregistered bool            `json:"unregistered,omitempty"` // the client id was REMOVED from the storage before this flow (Client = its last registration)
	Requested    string          `json:"requested"`
	OmitURI      bool            `json:"omit_uri,omitempty"`
	ResponseType string          `json:"response_type"`
	ResponseMode string          `json:"response_mode,omitempty"`
	State        string          `json:"state,omitempty"`
	ErrPath      string          `json:"err_path"`
	ObjectURI    string          `json:"object_uri,omitempty"`
	Relation     string          `json:"relation"`
	FaultKind    string          `json:"fault_kind,omitempty"`
	Break        string          `json:"break,omitempty"`
	Accept       int             `json:"accept,omitempty"`
	Pushed       *Pushed         `json:"pushed,omitempty"`
}

func (c Case) flows() []Flow {
	f0 := Flow{Client: c.Client, Requested: c.Requested, OmitURI: c.OmitURI, ResponseType: c.ResponseType, ResponseMode: c.ResponseMode, State: c.State,
		ErrPath: c.ErrPath, ObjectURI: c.ObjectURI, Relation: c.Relation, FaultKind: c.FaultKind, Break: c.Break, Accept: c.Accept, Pushed: c.Pushed}
	return append([]Flow{f0}, c.More...)
}

// ---- generators ---------------------------------------------------------------

var (
	webHosts  = []string{"rp.example.com", "app.example.org"}
	loopHosts = []string{"localhost", "127.0.0.1", "[::1]", "127.1.2.3"}
	ports     = []string{"", "", ":8080", ":443", ":80"}
	paths     = []string{"/cb", "/auth/callback", "", "/a/b", "/"}
	queries   = []string{"", "", "", "?x=1", "?a=b&c=d"}
)

func genRegistered(t *rapid.T, label string) string {
	switch rapid.SampledFrom([]string{"https", "https", "http", "loop", "loop", "custom"}).Draw(t, label+"kind") {
	case "https":
		return "https://" + rapid.SampledFrom(webHosts).Draw(t, label+"h") + rapid.SampledFrom(ports).Draw(t, label+"p") + rapid.SampledFrom(paths).Draw(t, label+"pa") + rapid.SampledFrom(queries).Draw(t, label+"q")
	case "http":
		return "http://" + rapid.SampledFrom(webHosts).Draw(t, label+"h") + rapid.SampledFrom(ports).Draw(t, label+"p") + rapid.SampledFrom(paths).Draw(t, label+"pa") + rapid.SampledFrom(queries).Draw(t, label+"q")
	case "loop":
		return rapid.SampledFrom([]string{"http", "http", "https"}).Draw(t, label+"s") + "://" + rapid.SampledFrom(loopHosts).Draw(t, label+"h") + rapid.SampledFrom(ports).Draw(t, label+"p") + rapid.SampledFrom(paths).Draw(t, label+"pa") + rapid.SampledFrom(queries).Draw(t, label+"q")
	default:
		return rapid.SampledFrom([]string{"com.example.app:/cb", "myapp://callback", "com.example.app:/oauth/cb?x=1", "org.example:/"}).Draw(t, label+"c")
	}
}

func genGlob(t *rapid.T, label string) string {
	return rapid.SampledFrom([]string{
		"https://rp.example.com/cb/*", "https://*.example.com/cb", "http://localhost:*/cb", "https://rp.example.com/*/cb",
		"http://rp.example.com/*", "com.example.app:/*", "https://rp.example.com/cb*",
		"https://rp.example.com/cb/*", "https://*.example.com/cb", "http://localhost:*/cb", "https://rp.example.com/*/cb",
		// syntactically malformed patterns (an administrator's typo): they match nothing
		"https://rp.example.com/[cb", "https://rp.example.com/cb/{a,b",
	}).Draw(t, label)
}

func swapScheme(u string) string {
	if strings.HasPrefix(u, "https://") {
		return "http://" + strings.TrimPrefix(u, "https://")
	}
	if strings.HasPrefix(u, "http://") {
		return "https://" + strings.TrimPrefix(u, "http://")
	}
	return "https://" + u
}

func hostOf(u string) (scheme, host, rest string, ok bool) {
	i := strings.Index(u, "://")
	if i < 0 {
		return "", "", "", false
	}
	scheme = u[:i]
	r := u[i+3:]
	j := strings.IndexAny(r, "/?#")
	if j < 0 {
		return scheme, r, "", true
	}
	return scheme, r[:j], r[j:], true
}

func genRequested(t *rapid.T, c *vkit.ClientSpec) (string, string) {
	reg := c.RedirectURIs
	base := rapid.SampledFrom(reg).Draw(t, "base")
	kind := rapid.SampledFrom([]string{
		"registered", "registered", "registered", "registered", "registered", "registered",
		"userinfo", "suffixhost", "prefixhost", "extrapath", "dotdot", "addquery", "addfragment", "upperhost", "upperscheme",
		"trailingslash", "trailingdot", "schemeswap", "portchange", "backslash", "schemerelative", "relative", "empty",
		"loopvariant", "loopvariant", "loopvariant", "loopsuffix", "other", "otherloop", "globhit", "globmiss", "pathquery-of-registered-on-loop",
	}).Draw(t, "rel")
	scheme, host, rest, ok := hostOf(base)
	switch kind {
	case "registered":
		return base, kind
	case "userinfo":
		if ok {
			return scheme + "://" + host + "@evil.example.net" + rest, kind
		}
	case "suffixhost":
		if ok {
			return scheme + "://" + host + ".evil.example.net" + rest, kind
		}
	case "prefixhost":
		if ok {
			return scheme + "://evil" + host + rest, kind
		}
	case "extrapath":
		return base + "/extra", kind
	case "dotdot":
		return base + rapid.SampledFrom([]string{"/../x", "/%2e%2e/x", "/./"}).Draw(t, "dd"), kind
	case "addquery":
		if strings.Contains(base, "?") {
			return base + "&evil=1", kind
		}
		return base + "?evil=1", kind
	case "addfragment":
		return base + "#frag", kind
	case "upperhost":
		if ok {
			return scheme + "://" + strings.ToUpper(host) + rest, kind
		}
	case "upperscheme":
		if ok {
			return strings.ToUpper(scheme) + "://" + host + rest, kind
		}
	case "trailingslash":
		return base + "/", kind
	case "trailingdot":
		if ok {
			return scheme + "://" + host + "." + rest, kind
		}
	case "schemeswap":
		return swapScheme(base), kind
	case "portchange":
		if ok {
			h := host
			if i := strings.LastIndex(h, ":"); i > 0 && !strings.HasSuffix(h, "]") {
				h = h[:i]
			}
			return scheme + "://" + h + ":" + rapid.SampledFrom([]string{"1", "8443", "65535", "0"}).Draw(t, "port") + rest, kind
		}
	case "backslash":
		if ok {
			return scheme + "://" + host + "\\@evil.example.net" + rest, kind
		}
	case "schemerelative":
		return "//evil.example.net/cb", kind
	case "relative":
		return "/cb", kind
	case "empty":
		return "", kind
	case "loopvariant":
		if ok {
			nh := rapid.SampledFrom(loopHosts).Draw(t, "lh") + rapid.SampledFrom([]string{"", ":1234", ":65000", ":80"}).Draw(t, "lp")
			ns := rapid.SampledFrom([]string{"http", "https"}).Draw(t, "ls")
			return ns + "://" + nh + rest, kind
		}
	case "pathquery-of-registered-on-loop":
		if ok {
			return "http://localhost:7777" + rest, kind
		}
	case "loopsuffix":
		if ok {
			return scheme + "://" + rapid.SampledFrom([]string{"localhost.evil.example.net", "127.0.0.1.evil.example.net", "localhostx", "evil-localhost"}).Draw(t, "ls") + rest, kind
		}
	case "other":
		return rapid.SampledFrom([]string{"https://evil.example.net/cb", "http://evil.example.net/cb", "evil:/cb", "javascript:alert(1)", "https://rp.example.com.evil.net/cb"}).Draw(t, "o"), kind
	case "otherloop":
		return rapid.SampledFrom([]string{"http://localhost/other", "http://127.0.0.1:9/cb?z=1", "https://[::1]/cb"}).Draw(t, "ol"), kind
	case "globhit":
		return rapid.SampledFrom([]string{"https://rp.example.com/cb/x", "https://evil.example.com/cb", "http://localhost:9999/cb", "https://rp.example.com/zz/cb", "http://rp.example.com/any", "com.example.app:/zz", "https://rp.example.com/cbx"}).Draw(t, "gh"), kind
	case "globmiss":
		return rapid.SampledFrom([]string{"https://rp.example.com/cb/x/y", "https://evil.example.com.net/cb", "http://localhost:9999/cb/x", "https://rp.example.com/cb/", "https://x.example.com/cb/"}).Draw(t, "gm"), kind
	}
	return base, "registered"
}

var errPaths = []string{
	"none", "none", "none", "none", "none", "none",
	"bad_form", "max_age", "unknown_client", "no_client", "no_scope", "bad_prompt", "bad_hint", "prompt_none",
	"store_create_fail", "store_client_fail", "store_client_fail_cb", "store_code_fail", "no_login", "unknown_callback",
	"reqobj_same", "reqobj_other_uri", "reqobj_foreign", "reqobj_unsupported", "reqobj_garbage",
}

var (
	appTypes        = []string{"web", "web", "user_agent", "native", "native"}
	responseTypeSet = [][]string{{"code"}, {"code", "id_token", "id_token token"}, {"id_token", "id_token token"}, {"code", "id_token token"}}
	// response types beyond the three canonical values (OAuth 2.0 Multiple Response Type Encoding Practices): the hybrid
	// types, their permuted spellings (the order of the values does not matter to the RFC, a registration holds strings),
	// duplicated values, values with unusual spacing, unknown values
	hybridTypes  = []string{"code id_token", "code token", "code id_token token"}
	unusualTypes = []string{"id_token code", "token code", "token id_token code", "code token id_token", "token id_token", "code code", "code  id_token", " code", "code ",
		"token", "none", "code none", "CODE", "code,id_token", "code+id_token", "codex", "xcode id_token", "device_code", "id_token id_token"}
)

// genResponseTypes: what the client registered: mostly one of the four canonical sets; otherwise a generated list over the
// canonical, hybrid and unusual spellings (an administrator's UI may store whatever the RP asked for)
func genResponseTypes(t *rapid.T) []string {
	switch rapid.IntRange(0, 5).Draw(t, "rtsclass") {
	case 0, 1, 2:
		return rapid.SampledFrom(responseTypeSet).Draw(t, "rts")
	case 3:
		return []string{"code", "id_token", "id_token token", "code id_token", "code token", "code id_token token"}
	}
	var out []string
	n := rapid.IntRange(1, 4).Draw(t, "nrts")
	for i := 0; i < n; i++ {
		var rt string
		switch rapid.IntRange(0, 3).Draw(t, "rtskind") {
		case 0:
			rt = rapid.SampledFrom([]string{"code", "id_token", "id_token token"}).Draw(t, "rtsc")
		case 1, 2:
			rt = rapid.SampledFrom(hybridTypes).Draw(t, "rtsh")
		default:
			rt = rapid.SampledFrom(unusualTypes).Draw(t, "rtsu")
		}
		if !contains(out, rt) {
			out = append(out, rt)
		}
	}
	return out
}

// rtClass: the flow a response type denotes, by its exact value: only "code" is the code flow; a value that merely
// contains `code` (hybrid, permuted, duplicated, decorated) is not.
func rtClass(rt string) string {
	switch rt {
	case "code":
		return "code"
	case "id_token", "id_token token":
		return "implicit"
	case "":
		return "empty"
	}
	if contains(hybridTypes, rt) {
		return "hybrid"
	}
	if contains(strings.Fields(rt), "code") {
		return "other-containing-code"
	}
	return "other"
}

func genClient(t *rapid.T, id string) vkit.ClientSpec {
	var cl vkit.ClientSpec
	cl.ID = id
	cl.Secret = "secret-" + strings.TrimPrefix(id, "client-")
	cl.AppType = rapid.SampledFrom(appTypes).Draw(t, "apptype")
	cl.AuthMethod = rapid.SampledFrom([]string{"client_secret_basic", "none", "client_secret_post", "private_key_jwt"}).Draw(t, "authmethod")
	cl.DevMode = rapid.IntRange(0, 4).Draw(t, "devmode") == 0
	cl.ResponseTypes = genResponseTypes(t)
	cl.GrantTypes = []string{vkit.GCode, vkit.GImpl}
	cl.Keys = map[string]string{"ka": "rsa2"}
	n := rapid.IntRange(1, 4).Draw(t, "nreg")
	for i := 0; i < n; i++ {
		u := genRegistered(t, fmt.Sprintf("reg%d", i))
		if !contains(cl.RedirectURIs, u) {
			cl.RedirectURIs = append(cl.RedirectURIs, u)
		}
	}
	if rapid.IntRange(0, 3).Draw(t, "globs") == 0 {
		cl.UseGlobs = true
		ng := rapid.IntRange(1, 2).Draw(t, "nglob")
		for i := 0; i < ng; i++ {
			cl.RedirectGlobs = append(cl.RedirectGlobs, genGlob(t, fmt.Sprintf("glob%d", i)))
		}
	} else if rapid.IntRange(0, 5).Draw(t, "dormantglobs") == 0 {
		// globs present in the registration data but the client did NOT opt in
		cl.RedirectGlobs = []string{genGlob(t, "dglob")}
	}
	return cl
}

func cloneSpec(c vkit.ClientSpec) vkit.ClientSpec {
	c.RedirectURIs = append([]string(nil), c.RedirectURIs...)
	c.RedirectGlobs = append([]string(nil), c.RedirectGlobs...)
	c.ResponseTypes = append([]string(nil), c.ResponseTypes...)
	c.GrantTypes = append([]string(nil), c.GrantTypes...)
	k := map[string]string{}
	for a, b := range c.Keys {
		k[a] = b
	}
	c.Keys = k
	return c
}

// registrable: a string an administrator can be assumed to put into a registration (sound input domain): an absolute URI in
// normalised spelling without userinfo, fragment or backslashes. Strings an earlier flow merely REQUESTED (userinfo and
// backslash tricks, upper-case schemes, relative references ...) are requested again later but never become registrations.
func registrable(raw string) bool {
	u, err := url.Parse(raw)
	if err != nil || u.Scheme == "" || u.Scheme == "javascript" || u.User != nil || u.Fragment != "" {
		return false
	}
	if strings.ContainsAny(raw, "\\#@ ") || u.String() != raw {
		return false
	}
	return u.Host != "" || u.Opaque != "" || u.Path != ""
}

// changeKinds: what an administrator does to a registration between two flows
var changeKinds = []string{"same", "same", "remove_uri", "remove_uri", "remove_uri", "add_uri", "add_uri", "replace_uri", "replace_uri", "replace_all",
	"globs_switch", "globs_switch", "glob_swap", "dev_switch", "dev_switch", "apptype", "response_types", "unregister"}

// genChange derives the next registration of a client id from the one in force (a deep copy is changed).
func genChange(t *rapid.T, cur vkit.ClientSpec, known []string) (vkit.ClientSpec, string, bool) {
	cl := cloneSpec(cur)
	kind := rapid.SampledFrom(changeKinds).Draw(t, "change")
	switch kind {
	case "remove_uri":
		if len(cl.RedirectURIs) > 1 {
			i := rapid.IntRange(0, len(cl.RedirectURIs)-1).Draw(t, "rmidx")
			cl.RedirectURIs = append(cl.RedirectURIs[:i], cl.RedirectURIs[i+1:]...)
			break
		}
		kind = "replace_uri"
		fallthrough
	case "replace_uri":
		i := rapid.IntRange(0, len(cl.RedirectURIs)-1).Draw(t, "rpidx")
		u := genRegistered(t, "rp")
		if !contains(cl.RedirectURIs, u) {
			cl.RedirectURIs[i] = u
		}
	case "add_uri":
		// a new URI, or one this client id has a history with (removed earlier and put back; requested - and refused - before)
		var back []string
		for _, u := range known {
			if !contains(cl.RedirectURIs, u) && registrable(u) {
				back = append(back, u)
			}
		}
		var u string
		if len(back) > 0 && rapid.Bool().Draw(t, "addback") {
			u, kind = rapid.SampledFrom(back).Draw(t, "back"), "add_uri_from_history"
		} else {
			u = genRegistered(t, "add")
		}
		if !contains(cl.RedirectURIs, u) {
			cl.RedirectURIs = append(cl.RedirectURIs, u)
		}
	case "replace_all":
		cl.RedirectURIs = nil
		n := rapid.IntRange(1, 3).Draw(t, "nreg")
		for i := 0; i < n; i++ {
			u := genRegistered(t, fmt.Sprintf("reg%d", i))
			if !contains(cl.RedirectURIs, u) {
				cl.RedirectURIs = append(cl.RedirectURIs, u)
			}
		}
	case "globs_switch":
		cl.UseGlobs = !cl.UseGlobs
		if cl.UseGlobs && len(cl.RedirectGlobs) == 0 {
			cl.RedirectGlobs = []string{genGlob(t, "glob0")}
		}
	case "glob_swap":
		cl.RedirectGlobs = []string{genGlob(t, "glob0")}
	case "dev_switch":
		cl.DevMode = !cl.DevMode
	case "apptype":
		cl.AppType = rapid.SampledFrom(appTypes).Draw(t, "apptype")
	case "response_types":
		cl.ResponseTypes = genResponseTypes(t)
	case "unregister":
		return cl, kind, true
	}
	return cl, kind, false
}

func genResponseType(t *rapid.T, cl *vkit.ClientSpec) string {
	if rapid.IntRange(0, 7).Draw(t, "rtreg") > 1 {
		return rapid.SampledFrom(cl.ResponseTypes).Draw(t, "rt")
	}
	switch rapid.IntRange(0, 3).Draw(t, "rtother") {
	case 0, 1:
		return rapid.SampledFrom([]string{"code", "id_token", "id_token token", "token", ""}).Draw(t, "rt")
	case 2:
		return rapid.SampledFrom(hybridTypes).Draw(t, "rt")
	}
	return rapid.SampledFrom(unusualTypes).Draw(t, "rt")
}

var responseModes = []string{"", "", "query", "fragment", "form_post"}

func genBreak(t *rapid.T) (string, int) {
	if rapid.IntRange(0, 3).Draw(t, "broken") > 0 {
		return "", 0
	}
	return rapid.SampledFrom([]string{"callback", "callback", "both", "authorize"}).Draw(t, "break"),
		rapid.SampledFrom([]int{0, 0, 0, 1, 40, 150, 200, 400}).Draw(t, "accept")
}

func genCase(t *rapid.T) Case {
	var c Case
	c.Router = rapid.SampledFrom(routers).Draw(t, "router")
	pushCfg := func() {
		if c.PushOrder == "" {
			c.PushOrder = rapid.SampledFrom([]string{"after", "before"}).Draw(t, "pushorder")
			c.PushMerge = rapid.SampledFrom([]string{"replace", "overlay"}).Draw(t, "pushmerge")
		}
	}
	if isCustom(c.Router) {
		pushCfg()
	}
	c.Client = genClient(t, "client-a")
	cl := &c.Client
	nMore := 0
	if rapid.Bool().Draw(t, "sequence") {
		nMore = rapid.IntRange(1, 3).Draw(t, "nmore")
	}
	seq := nMore > 0
	c.Requested, c.Relation = genRequested(t, cl)
	if seq && c.Relation != "registered" && rapid.Bool().Draw(t, "seqreg") {
		// flows of a sequence lean towards requests that get through: what a later flow can inherit is what an earlier one left
		c.Requested, c.Relation = rapid.SampledFrom(cl.RedirectURIs).Draw(t, "base"), "registered"
	}
	if c.Relation == "empty" && rapid.Bool().Draw(t, "omit") {
		c.OmitURI = true
	}
	c.ResponseType = genResponseType(t, cl)
	c.ResponseMode = rapid.SampledFrom(responseModes).Draw(t, "rm")
	c.State = rapid.SampledFrom([]string{"", "xyz", "a b&c=d"}).Draw(t, "state")
	c.ErrPath = rapid.SampledFrom(errPaths).Draw(t, "errpath")
	if seq && c.ErrPath != "none" && rapid.Bool().Draw(t, "seqnoerr") {
		c.ErrPath = "none"
	}
	if rapid.Bool().Draw(t, "errstyled") {
		c.ErrStyle = rapid.SampledFrom(vkit.ErrStyles).Draw(t, "errstyle")
	}
	if isCustom(c.Router) && rapid.IntRange(0, 3).Draw(t, "pushed") > 0 {
		c.Pushed = genPushed(t, cl)
		genFront(t, cl, &c.Requested, &c.Relation, &c.OmitURI)
		if strings.HasPrefix(c.ErrPath, "reqobj") || rapid.Bool().Draw(t, "pushnoerr") {
			c.ErrPath = "none" // request and request_uri are not used together (OIDC Core 6)
		}
	}
	if strings.HasPrefix(c.ErrPath, "store_") {
		c.FaultKind = rapid.SampledFrom([]string{"", "deadline", "oidc", "oidc-wrapped"}).Draw(t, "faultkind")
	}
	if strings.HasPrefix(c.ErrPath, "reqobj") {
		c.ObjectURI = rapid.SampledFrom([]string{c.Requested, "https://evil.example.net/cb", cl.RedirectURIs[0], "http://localhost:1/cb"}).Draw(t, "objuri")
	}
	if !seq {
		return c
	}
	c.Break, c.Accept = genBreak(t)

	// ---- further flows on the same provider instance(s)
	type slot struct {
		reg  vkit.ClientSpec
		gone bool
	}
	regs := map[string]*slot{"0/client-a": {reg: c.Client}}
	hist := map[string][]string{} // client id -> every URI that was ever registered for it anywhere or requested in its name
	note := func(id string, us ...string) {
		for _, u := range us {
			if u != "" && !contains(hist[id], u) {
				hist[id] = append(hist[id], u)
			}
		}
	}
	note("client-a", c.Client.RedirectURIs...)
	note("client-a", c.Requested)
	prev := Flow{ResponseType: c.ResponseType, ResponseMode: c.ResponseMode}
	for i := 0; i < nMore; i++ {
		var f Flow
		if rapid.IntRange(0, 4).Draw(t, "prov2") == 0 {
			f.Prov = 1
			if c.Router2 == "" {
				c.Router2 = rapid.SampledFrom(routers).Draw(t, "router2")
				if isCustom(c.Router2) {
					pushCfg()
				}
			}
		}
		custom := isCustom(c.Router)
		if f.Prov == 1 {
			custom = isCustom(c.Router2)
		}
		id := rapid.SampledFrom([]string{"client-a", "client-a", "client-c"}).Draw(t, "clientid")
		key := fmt.Sprintf("%d/%s", f.Prov, id)
		s := regs[key]
		switch {
		case s == nil:
			// first use of this id on this provider: a registration of its own (the other provider may know the same id with other URIs)
			f.Client, f.Change = genClient(t, id), "new"
			regs[key] = &slot{reg: f.Client}
		case s.gone:
			f.Client, f.Change = cloneSpec(s.reg), "reregister"
			s.gone = false
		default:
			f.Client, f.Change, f.Unregistered = genChange(t, s.reg, hist[id])
			s.reg, s.gone = f.Client, f.Unregistered
		}
		fc := &f.Client
		// the requested URI: from the registration in force (as in a single flow), or from the history of this client id
		// (a URI an earlier registration, or the other provider's registration, held; a string an earlier flow requested),
		// or a URI of the other generated client
		var stale, foreign []string
		for _, u := range hist[id] {
			if !contains(fc.RedirectURIs, u) {
				stale = append(stale, u)
			}
		}
		if id == "client-a" {
			foreign = hist["client-c"]
		} else {
			foreign = hist["client-a"]
		}
		src := rapid.SampledFrom([]string{"current", "current", "history", "history", "history", "other-client"}).Draw(t, "urisrc")
		switch {
		case src == "history" && len(stale) > 0:
			f.Requested, f.Relation = rapid.SampledFrom(stale).Draw(t, "stale"), "history-not-in-force"
		case src == "history" && len(hist[id]) > 0:
			f.Requested, f.Relation = rapid.SampledFrom(hist[id]).Draw(t, "hist"), "history"
		case src == "other-client" && len(foreign) > 0:
			f.Requested, f.Relation = rapid.SampledFrom(foreign).Draw(t, "foreign"), "other-client-uri"
		default:
			f.Requested, f.Relation = genRequested(t, fc)
			if f.Relation == "empty" && rapid.Bool().Draw(t, "omit") {
				f.OmitURI = true
			}
		}
		// response type and mode: often those of the previous flow (same URI, other response type; same mode, other client)
		if rapid.Bool().Draw(t, "samert") {
			f.ResponseType = prev.ResponseType
		} else {
			f.ResponseType = genResponseType(t, fc)
		}
		if rapid.IntRange(0, 2).Draw(t, "samerm") > 0 {
			f.ResponseMode = prev.ResponseMode
		} else {
			f.ResponseMode = rapid.SampledFrom(responseModes).Draw(t, "rm")
		}
		f.State = rapid.SampledFrom([]string{"", "xyz", "a b&c=d", "s-" + fmt.Sprint(i+1)}).Draw(t, "state")
		f.ErrPath = "none"
		if rapid.IntRange(0, 2).Draw(t, "witherr") == 0 {
			f.ErrPath = rapid.SampledFrom(errPaths).Draw(t, "errpath")
			if f.ErrPath == "reqobj_unsupported" { // a property of the provider, decided by flow 0
				f.ErrPath = "reqobj_same"
			}
		}
		if custom && rapid.IntRange(0, 3).Draw(t, "pushed") > 0 {
			f.Pushed = genPushed(t, fc)
			genFront(t, fc, &f.Requested, &f.Relation, &f.OmitURI)
			if strings.HasPrefix(f.ErrPath, "reqobj") {
				f.ErrPath = "none"
			}
			note(id, f.Pushed.URI)
		}
		if strings.HasPrefix(f.ErrPath, "store_") {
			f.FaultKind = rapid.SampledFrom([]string{"", "deadline", "oidc", "oidc-wrapped"}).Draw(t, "faultkind")
		}
		if strings.HasPrefix(f.ErrPath, "reqobj") {
			f.ObjectURI = rapid.SampledFrom([]string{f.Requested, "https://evil.example.net/cb", fc.RedirectURIs[0], "http://localhost:1/cb"}).Draw(t, "objuri")
		}
		f.Break, f.Accept = genBreak(t)
		note(id, fc.RedirectURIs...)
		note(id, f.Requested, f.ObjectURI)
		prev = f
		c.More = append(c.More, f)
	}
	return c
}

func contains(l []string, s string) bool {
	for _, x := range l {
		if x == s {
			return true
		}
	}
	return false
}

// ---- reference model ---------------------------------------------------------

// simple glob: '*' matches any run of characters other than '/'. Patterns and
// subjects stay inside the subset where path.Match and doublestar agree with this.
func globMatch(pat, s string) bool {
	if pat == "" {
		return s == ""
	}
	if pat[0] == '*' {
		for i := 0; i <= len(s); i++ {
			if globMatch(pat[1:], s[i:]) {
				return true
			}
			if i < len(s) && s[i] == '/' {
				break
			}
		}
		return false
	}
	if s == "" || pat[0] != s[0] {
		return false
	}
	return globMatch(pat[1:], s[1:])
}

type loopInfo struct {
	ok        bool // http/https URL on a loopback host
	path, raw string
	plain     bool // no userinfo, no fragment, lower-case scheme: differs from a registered URI only in scheme, host spelling, port
}

func loopback(raw string) loopInfo {
	u, err := url.Parse(raw)
	if err != nil {
		return loopInfo{}
	}
	if u.Scheme != "http" && u.Scheme != "https" {
		return loopInfo{}
	}
	h := u.Hostname()
	ip := net.ParseIP(h)
	if h != "localhost" && (ip == nil || !ip.IsLoopback()) {
		return loopInfo{}
	}
	plain := u.User == nil && u.Fragment == "" && !strings.Contains(raw, "#") && (strings.HasPrefix(raw, "http://") || strings.HasPrefix(raw, "https://")) && u.Opaque == ""
	return loopInfo{ok: true, path: u.EscapedPath(), raw: u.RawQuery, plain: plain}
}

// verdict: +1 allowed, -1 refused, 0 grey
func allowed(c *vkit.ClientSpec, uri, responseType string) (int, string) {
	if uri == "" {
		return -1, "empty"
	}
	exact := contains(c.RedirectURIs, uri)
	glob, malformed := false, false
	if c.UseGlobs {
		for _, g := range c.RedirectGlobs {
			if strings.ContainsAny(g, "[{") {
				malformed = true // matches nothing; the implementation may stop at it (fail closed)
				continue
			}
			if globMatch(g, uri) {
				glob = true
			}
		}
	}
	if !exact && glob && malformed {
		return 0, "glob-hit-beside-malformed-glob"
	}
	registered := exact || glob
	isHTTPS := strings.HasPrefix(uri, "https://")
	isHTTP := strings.HasPrefix(uri, "http://")
	custom := !isHTTP && !isHTTPS
	if c.AppType == "native" {
		lb := loopback(uri)
		if registered {
			switch {
			case c.DevMode:
				return 1, "native-registered-devmode"
			case isHTTPS:
				return 1, "native-registered-https"
			case custom:
				return 1, "native-registered-custom"
			case lb.ok:
				return 1, "native-registered-loopback"
			}
			return -1, "native-http-nonloopback"
		}
		if !lb.ok {
			return -1, "native-unregistered"
		}
		for _, r := range c.RedirectURIs {
			rl := loopback(r)
			if rl.ok && rl.path == lb.path && rl.raw == lb.raw {
				if lb.plain {
					return 1, "native-loopback-variant"
				}
				return 0, "native-loopback-variant-decorated"
			}
		}
		return -1, "native-loopback-unregistered"
	}
	if !registered {
		return -1, "unregistered"
	}
	if isHTTPS {
		return 1, "https-registered"
	}
	if isHTTP {
		if c.DevMode {
			return 1, "http-devmode"
		}
		if responseType == "code" && c.AppType == "web" {
			return 1, "http-confidential-code"
		}
		return -1, "http-not-allowed"
	}
	return -1, "custom-scheme-non-native"
}

// sameTarget: does location point at requested (ignoring added response parameters)?
func sameTarget(location, requested string) bool {
	if requested != "" && location == requested {
		return true // byte-identical (also covers strings that are not parsable URIs, e.g. a form_post action)
	}
	if requested == "" {
		return false
	}
	pr, err := url.Parse(requested)
	if err != nil {
		// not a URI for Go's parser: it can only be acceptable as a plain string that matches an opted-in glob (e.g.
		// "http://localhost:8080\@x/cb" against "http://localhost:*/cb"). The one delivery that does not parse the URI is the
		// form_post action, which html/template percent-escapes ("\" -> "%5c"): the same string modulo escaping, and the
		// escaped spelling matches the same glob.
		lu, e1 := url.PathUnescape(location)
		ru, e2 := url.PathUnescape(requested)
		return e1 == nil && e2 == nil && lu == ru
	}
	pl, err := url.Parse(location)
	if err != nil {
		return false
	}
	if pl.Scheme != pr.Scheme || pl.Opaque != pr.Opaque || pl.Host != pr.Host || pl.EscapedPath() != pr.EscapedPath() {
		return false
	}
	if (pl.User == nil) != (pr.User == nil) || (pl.User != nil && pl.User.String() != pr.User.String()) {
		return false
	}
	lq := pl.Query()
	for k, vs := range pr.Query() {
		have := append([]string(nil), lq[k]...)
		for _, v := range vs {
			found := false
			for i, h := range have {
				if h == v {
					have = append(have[:i], have[i+1:]...)
					found = true
					break
				}
			}
			if !found {
				return false
			}
		}
	}
	return true
}

// ---- execution -----------------------------------------------------------------

// pageTargets lists, in document order, every place the HTML page can send the user agent to: the action of EVERY form
// (document.forms[0] is whatever comes first in the bytes the user agent received, not what this flow rendered), formaction
// overrides, hyperlinks / embedded resources / base URLs, and meta refreshes. Tags the writer cut off are not part of the tree.
func pageTargets(body []byte) (targets []string, forms int) {
	doc, err := html.Parse(strings.NewReader(string(body)))
	if err != nil {
		return nil, 0
	}
	var walk func(n *html.Node)
	walk = func(n *html.Node) {
		if n.Type == html.ElementNode {
			if n.Data == "form" {
				forms++
			}
			refresh := false
			for _, a := range n.Attr {
				if n.Data == "meta" && a.Key == "http-equiv" && strings.EqualFold(strings.TrimSpace(a.Val), "refresh") {
					refresh = true
				}
			}
			for _, a := range n.Attr {
				switch {
				case a.Key == "action" && n.Data == "form", a.Key == "formaction", a.Key == "href", a.Key == "src":
					targets = append(targets, a.Val)
				case a.Key == "content" && refresh:
					if i := strings.Index(strings.ToLower(a.Val), "url="); i >= 0 {
						targets = append(targets, strings.Trim(strings.TrimSpace(a.Val[i+4:]), `'"`))
					}
				}
			}
		}
		for ch := n.FirstChild; ch != nil; ch = ch.NextSibling {
			walk(ch)
		}
	}
	walk(doc)
	return targets, forms
}

const issuer = "https://op.example.com"

func requestObject(f Flow, signer *vkit.ClientSpec, kid, key string) string {
	m := map[string]any{"iss": signer.ID, "aud": []string{issuer}, "client_id": signer.ID, "response_type": f.ResponseType,
		"redirect_uri": f.ObjectURI, "scope": "openid", "iat": time.Now().Unix(), "exp": time.Now().Add(time.Hour).Unix()}
	b, _ := json.Marshal(m)
	return vkit.MustSignJWT("RS256", kid, vkit.Key(key), b)
}

// brokenWriter is the ResponseWriter of a user agent that went away (http.TimeoutHandler after its timeout, a reset stream,
// a closed connection): it takes `accept` body bytes and fails from then on. Like net/http it sends the header map as it is
// at the first WriteHeader / Write; later changes of the map never reach anybody.
type brokenWriter struct {
	hdr, sent http.Header
	status    int
	body      []byte
	accept    int
	failed    bool
}

func (w *brokenWriter) Header() http.Header { return w.hdr }
func (w *brokenWriter) WriteHeader(code int) {
	if w.status == 0 {
		w.status = code
		w.sent = w.hdr.Clone()
	}
}
func (w *brokenWriter) Write(p []byte) (int, error) {
	if w.status == 0 {
		w.WriteHeader(200)
	}
	if !w.failed && len(p) <= w.accept {
		w.accept -= len(p)
		w.body = append(w.body, p...)
		return len(p), nil
	}
	n := 0
	if !w.failed {
		n = w.accept
		w.body = append(w.body, p[:n]...)
	}
	w.accept, w.failed = 0, true
	return n, errors.New("write tcp: broken pipe")
}

// env is one long-lived provider instance with its storage.
type env struct {
	st     *vkit.Store
	sut    *vkit.SUT
	ag     *vkit.Agent
	custom *customServer // routers "custom" / "custom-bare"
	merge  string
}

func otherClient() *vkit.ClientSpec {
	return &vkit.ClientSpec{ID: "client-b", Secret: "secret-b", AppType: "web", AuthMethod: "client_secret_basic", GrantTypes: []string{vkit.GCode},
		ResponseTypes: []string{"code", "id_token", "id_token token"}, RedirectURIs: []string{"https://evil.example.net/cb", "https://other.example.net/cb"}, Keys: map[string]string{"kb": "rsa3"}}
}

func newEnv(router, errStyle string, reqObj bool, order, merge string) *env {
	st := vkit.NewStore([]*vkit.ClientSpec{otherClient()}, vkit.SignKeySpec{KeyName: "rsa1", Alg: "RS256", KID: "sig1"}, vkit.StorePolicy{ErrStyle: errStyle})
	base := router
	if isCustom(router) {
		base = "legacy"
	}
	spec := vkit.DefaultProviderSpec(base)
	spec.ReqObj = reqObj
	sut := vkit.MustBuild(spec, st)
	e := &env{st: st, sut: sut}
	if isCustom(router) {
		if order == "" {
			order = "after"
		}
		if merge == "" {
			merge = "replace"
		}
		e.custom, e.merge = mountCustom(sut, router, order, merge), merge
	}
	e.ag = vkit.NewAgent(sut)
	return e
}

// get sends one GET to the provider; broken: the response goes to a brokenWriter that takes accept body bytes.
func (e *env) get(target string, broken bool, accept int) *vkit.Resp {
	if !broken {
		return e.ag.Get(target, nil, nil)
	}
	r := httptest.NewRequest("GET", "http://"+e.sut.Host+target, nil)
	r.Host = e.sut.Host
	w := &brokenWriter{hdr: http.Header{}, accept: accept}
	resp := &vkit.Resp{Req: e.st.BeginRequest(), JournalAtWrite: -1}
	func() {
		defer func() {
			if p := recover(); p != nil {
				resp.Panic = p
				resp.Stack = string(debug.Stack())
			}
		}()
		e.sut.Handler.ServeHTTP(w, r)
	}()
	resp.Status, resp.Header, resp.Body = w.status, w.sent, w.body
	if resp.Header == nil {
		resp.Header = w.hdr
	}
	if resp.Status == 0 && resp.Panic == nil {
		resp.Status = 200
	}
	resp.JournalAtEnd = e.st.JournalLen()
	return resp
}

func run(c Case) *vkit.Result {
	res := &vkit.Result{}
	flows := c.flows()
	envs := map[int]*env{}
	var keys []string
	brokenFormPost := false // an earlier flow's form_post page went to a writer that broke
	for i, f := range flows {
		e := envs[f.Prov]
		if e == nil {
			router, reqObj := c.Router, c.ErrPath != "reqobj_unsupported"
			if f.Prov != 0 {
				router, reqObj = c.Router2, true
				if router == "" {
					router = "provider"
				}
			}
			e = newEnv(router, c.ErrStyle, reqObj, c.PushOrder, c.PushMerge)
			envs[f.Prov] = e
			if len(flows) > 1 {
				res.Label("seq:router:" + router)
			}
			if e.custom != nil {
				res.Label("server:order:"+e.custom.order, "server:merge:"+e.custom.merge)
			}
		}
		out := runFlow(res, e, f, i)
		keys = append(keys, out.key)
		if out.nonTrivial {
			res.NonTrivial = true
		}
		if i == 0 {
			res.Info = out.info
		}
		if len(flows) > 1 {
			res.Label("seq:rel:"+f.Relation, fmt.Sprintf("seq:flow%d:path:%s", i, out.path))
			if i > 0 {
				res.Label("seq:change:" + f.Change)
				res.NonTrivial = true
				keys[i] = fmt.Sprintf("p%d|%s|%s|%s", f.Prov, f.Client.ID, f.Change, keys[i])
				if f.Prov == flows[i-1].Prov && f.Client.ID == flows[i-1].Client.ID {
					res.Label("seq:same-client-as-previous")
				} else if f.Prov != flows[i-1].Prov && f.Client.ID == flows[i-1].Client.ID {
					res.Label("seq:same-id-other-provider")
				} else {
					res.Label("seq:other-client")
				}
				if f.Relation == "history-not-in-force" {
					res.Label(fmt.Sprintf("seq:stale-uri:v=%d", out.verdict))
				}
				if brokenFormPost && out.path == "callback-form" {
					res.Label("seq:form_post-after-broken-form_post")
				}
			}
			if f.Break != "" {
				res.Label("seq:break:" + f.Break)
				if (f.Break == "callback" || f.Break == "both") && out.path == "callback-form" {
					brokenFormPost = true
				}
			}
		}
	}
	if len(flows) > 1 {
		res.Label(fmt.Sprintf("seq:len=%d", len(flows)))
	} else {
		res.Label("seq:len=1")
	}
	res.Key = strings.Join(keys, " ;; ")
	return res
}

type flowOut struct {
	key, path  string
	verdict    int
	nonTrivial bool
	info       map[string]any
}

// runFlow puts the flow's registration in force, drives authorize -> login -> callback on the long-lived provider e and
// judges every response against that registration.
func runFlow(res *vkit.Result, e *env, f Flow, idx int) flowOut {
	cl := cloneSpec(f.Client)
	st, sut := e.st, e.sut
	other := otherClient()
	// no request is in flight: the storage's records can be replaced without a race. A fresh record every time, the way a
	// storage that reads its database hands out a new object per lookup.
	if f.Unregistered {
		delete(st.Clients, cl.ID)
	} else {
		reg := cloneSpec(cl)
		st.Clients[cl.ID] = &reg
	}
	st.Policy.PromptNoneLoginError = f.ErrPath == "prompt_none"
	st.SetFaults()
	defer st.SetFaults()
	fk := f.FaultKind
	if fk == "" {
		fk = "error"
	}
	brokenAuth := f.Break == "authorize" || f.Break == "both"
	brokenCB := f.Break == "callback" || f.Break == "both"

	q := url.Values{"client_id": {cl.ID}, "response_type": {f.ResponseType}, "scope": {"openid profile"}}
	if !f.OmitURI {
		q.Set("redirect_uri", f.Requested)
	}
	if f.ResponseMode != "" {
		q.Set("response_mode", f.ResponseMode)
	}
	if f.State != "" {
		q.Set("state", f.State)
	}
	frontPrompt := ""
	switch f.ErrPath {
	case "bad_prompt":
		frontPrompt = "none login"
	case "prompt_none":
		frontPrompt = "none"
	}
	// the request that is authorized, by the model: the front channel parameters, or - on a server that resolves
	// request_uri - those with the deposit applied
	eff := effective(f, frontPrompt, e.merge, e.custom != nil)
	if f.Pushed != nil {
		ref := requestURIOf(idx)
		q.Set("request_uri", ref)
		if e.custom != nil {
			switch f.Pushed.Kind {
			case "":
				e.custom.table[ref] = deposit{clientID: cl.ID, p: *f.Pushed}
			case "foreign":
				e.custom.table[ref] = deposit{clientID: other.ID, p: *f.Pushed}
			}
		}
	}
	rawExtra := ""
	candidates := []string{eff.URI}
	if eff.dead {
		candidates = nil // nothing was requested: no redirect URI can be the target of anything
	}
	objectInPlay := false
	switch f.ErrPath {
	case "bad_form":
		rawExtra = "&bad=%zz"
	case "max_age":
		q.Set("max_age", "abc")
	case "unknown_client":
		q.Set("client_id", "nobody")
	case "no_client":
		q.Del("client_id")
	case "no_scope":
		q.Del("scope")
	case "bad_prompt":
		q.Set("prompt", "none login")
	case "prompt_none":
		q.Set("prompt", "none")
	case "bad_hint":
		q.Set("id_token_hint", "e30.e30.e30")
	case "store_create_fail":
		st.SetFaults(vkit.Fault{Method: "CreateAuthRequest", Kind: fk})
	case "store_client_fail":
		st.SetFaults(vkit.Fault{Method: "GetClientByClientID", Kind: fk})
	case "reqobj_same", "reqobj_other_uri", "reqobj_unsupported":
		q.Set("request", requestObject(f, &cl, "ka", "rsa2"))
		candidates = append(candidates, f.ObjectURI)
		objectInPlay = true
	case "reqobj_foreign":
		// signed by another registered client with its own key and kid, naming itself
		q.Set("request", requestObject(f, other, "kb", "rsa3"))
		candidates = append(candidates, f.ObjectURI)
		objectInPlay = true
	case "reqobj_garbage":
		q.Set("request", "e30.bnVsbA.e30")
		objectInPlay = true
	}

	var responses []*vkit.Resp
	authResp := e.get(sut.Paths["authorization"]+"?"+q.Encode()+rawExtra, brokenAuth, f.Accept)
	responses = append(responses, authResp)
	reqID, toLogin := vkit.LoginRequestID(authResp)
	var final *vkit.Resp
	if toLogin {
		if f.ErrPath != "no_login" {
			st.Login(reqID, "u1")
		}
		switch f.ErrPath {
		case "store_code_fail":
			st.SetFaults(vkit.Fault{Method: "SaveAuthCode", Kind: fk}, vkit.Fault{Method: "CreateAccessToken", Kind: fk})
		case "store_client_fail_cb":
			st.SetFaults(vkit.Fault{Method: "GetClientByClientID", Kind: fk})
		}
		id := reqID
		if f.ErrPath == "unknown_callback" {
			id = "ar-999"
		}
		final = e.get(sut.CallbackPath()+"?"+url.Values{"id": {id}}.Encode(), brokenCB, f.Accept)
		responses = append(responses, final)
	}

	// the URI the stored request carries is what the callback will use: the effective requested URI
	stored := eff.URI
	if ar, ok := st.AuthReqSnapshot(reqID); ok && toLogin {
		stored = ar.RedirectURI
		if !contains(candidates, stored) {
			res.Fail("C03:stored-uri-not-requested", "flow %d: auth request stored with redirect_uri %q which is not the redirect_uri of the request being authorized %q (front channel %q, request object %q, deposit %+v)", idx, stored, candidates, f.Requested, f.ObjectURI, f.Pushed)
		}
	}

	clientKnown := f.ErrPath != "unknown_client" && f.ErrPath != "no_client" && !f.Unregistered
	verdictQ, reasonQ := allowed(&cl, eff.URI, eff.ResponseType)
	if f.OmitURI && !eff.pushed {
		verdictQ, reasonQ = -1, "omitted"
	}
	if eff.dead {
		verdictQ, reasonQ = -1, "request_uri-unresolved"
	}
	if !clientKnown {
		verdictQ, reasonQ = -1, "no-client"
	}

	// judge: where does this response send the user agent?
	judge := func(i int, r *vkit.Resp, target, fpUnrequested string) {
		// several candidates can denote the same target (a fragment-mode response replaces the fragment of the URI): the
		// response is judged against the most favourable one - it is indistinguishable from a delivery to that URI
		matched, v, why := "", -2, ""
		for _, cand := range candidates {
			if !sameTarget(target, cand) {
				continue
			}
			cv, cwhy := allowed(&cl, cand, eff.ResponseType)
			if _, perr := url.Parse(cand); perr != nil && target != cand {
				// a string that is no URI, delivered in another (escaped) spelling: what the user agent is handed must
				// itself be acceptable for the client
				res.Label("delivered-in-escaped-spelling")
				if tv, twhy := allowed(&cl, target, eff.ResponseType); tv < cv {
					cv, cwhy = tv, twhy+"(escaped-spelling)"
				}
			}
			if cv > v {
				matched, v, why = cand, cv, cwhy
			}
		}
		if v == -2 {
			tv, twhy := allowed(&cl, target, eff.ResponseType)
			if !clientKnown {
				tv, twhy = -1, "no-client"
			}
			res.Fail(fpUnrequested, "flow %d response %d sends the user agent to %q, which is neither the login UI nor the redirect_uri requested in this flow %q (for the client of this flow that target is: %d %s; registration in force: %+v)", idx, i, target, candidates, tv, twhy, cl)
			return
		}
		if !clientKnown {
			v, why = -1, "no-client"
		}
		res.Label("delivered:" + why)
		if v < 0 {
			res.Fail("C03:redirect-to-unregistered:"+why, "flow %d response %d (status %d) sends the user agent to %q; redirect_uri %q is not acceptable for client %+v (%s)", idx, i, r.Status, target, matched, cl, why)
		}
	}
	for i, r := range responses {
		if r.Panic != nil {
			res.Fail("C03:panic@"+r.PanicFrame(), "panic: %v", r.Panic)
			continue
		}
		if r.IsRedirect() {
			if i == 0 && toLogin {
				continue // redirect to the OP's own login UI
			}
			if target := r.Location(); target != "" {
				judge(i, r, target, "C03:redirect-to-unrequested")
			}
			continue
		}
		if !strings.Contains(string(r.Body), "<") {
			continue
		}
		// a page: EVERY form in it (and whatever else in it navigates), wherever in the bytes it stands
		targets, forms := pageTargets(r.Body)
		if forms > 0 {
			res.Label("form_post-delivery")
		}
		if forms > 1 {
			res.Label("page-with-several-forms")
		}
		for k, target := range targets {
			if target == "" {
				continue
			}
			if target == "#ZgotmplZ" {
				// html/template refused to emit the URI as an action: inert, nothing is sent anywhere
				res.Label("form-action-neutralised")
				continue
			}
			fp := "C03:redirect-to-unrequested"
			if len(targets) > 1 {
				fp = fmt.Sprintf("C03:page-target-unrequested:%d-of-%d", k+1, len(targets))
			}
			judge(i, r, target, fp)
		}
	}

	// refused requests are answered directly, never with a redirect (not even to the login UI)
	allRefused := verdictQ < 0
	if objectInPlay && f.ObjectURI != "" && clientKnown {
		vo, _ := allowed(&cl, f.ObjectURI, eff.ResponseType)
		allRefused = allRefused && vo < 0
	}
	if allRefused {
		res.Label("must-refuse", "refuse:"+reasonQ)
		if authResp.IsRedirect() {
			res.Fail("C03:refused-but-redirected:"+reasonQ, "flow %d: authorize answered %d to %q although the redirect_uri %q of the request being authorized (front channel %q, deposit %+v) must be refused (%s) under the registration in force %+v (unregistered=%v)", idx, authResp.Status, authResp.Location(), eff.URI, f.Requested, f.Pushed, reasonQ, cl, f.Unregistered)
		}
	}

	// completeness: an acceptable, fault-free code/implicit request reaches the redirect URI
	_, perr := url.Parse(eff.URI)
	if verdictQ > 0 && perr != nil {
		// a string that matches a registered glob but is not a URI at all (e.g. "http://localhost:8080.evil/cb": invalid
		// port) cannot be redirected to by anybody; refusing it is no loss of completeness
		res.Label("grey:model-allowed-but-not-a-uri")
		res.Grey = true
	}
	if verdictQ > 0 && perr == nil && f.ErrPath == "none" && contains(cl.ResponseTypes, eff.ResponseType) && eff.ResponseType != "" &&
		contains(strings.Fields(eff.Scope), "openid") && eff.Prompt == "" {
		res.Label("must-deliver", "allow:"+reasonQ)
		ok := false
		if final != nil && final.Panic == nil {
			if final.IsRedirect() && sameTarget(final.Location(), eff.URI) {
				p := vkit.DeliveredParams(final.Location())
				ok = p.Get("code") != "" || p.Get("id_token") != ""
			} else if final.Status == 200 && eff.ResponseMode == "form_post" {
				targets, forms := pageTargets(final.Body)
				for _, a := range targets {
					ok = ok || (forms > 0 && (sameTarget(a, eff.URI) || a == "#ZgotmplZ"))
				}
				if brokenCB {
					ok = true // the page was cut off by the writer: what did not arrive is not judged
					res.Label("complete-not-judged:page-cut-off")
				}
			}
		}
		if !ok {
			d := "no callback (authorize: " + authResp.Describe() + ")"
			if final != nil {
				d = final.Describe()
			}
			res.Fail("C03:complete:"+reasonQ, "flow %d: acceptable request (%s) did not reach the redirect URI %q (front channel %q, deposit %+v): %s", idx, reasonQ, eff.URI, f.Requested, f.Pushed, d)
		}
	} else if verdictQ == 0 {
		res.Grey = true
		res.Label("grey:" + reasonQ)
	}

	// the same guarantee through the public building blocks a custom Server / validator uses:
	// the error the validator returns for a refused URI must never be turned into a redirect
	directAPI(res, f, &cl, sut)

	path := "direct-error"
	if toLogin {
		path = "login"
		if final != nil {
			switch {
			case final.IsRedirect():
				path = "callback-redirect"
			case final.Status == 200:
				path = "callback-form"
			default:
				path = "callback-error"
			}
		}
	}
	res.Label("path:"+path, "rel:"+f.Relation, "err:"+f.ErrPath, "router:"+sut.Spec.Router)
	rtReg := "unregistered"
	if contains(cl.ResponseTypes, eff.ResponseType) {
		rtReg = "registered"
	}
	res.Label("rt:" + rtClass(eff.ResponseType) + ":" + rtReg)
	if strings.HasPrefix(eff.URI, "http://") && !loopback(eff.URI).ok && clientKnown && !cl.DevMode && cl.AppType != "native" {
		// the class the plain-http clause is about: a registered plain-http URI of a client that is neither dev-mode nor native
		if v, _ := allowed(&cl, eff.URI, "code"); v > 0 || cl.AppType == "user_agent" && contains(cl.RedirectURIs, eff.URI) {
			res.Label(fmt.Sprintf("plain-http-registered:%s:rt:%s:%s:v=%d:%s", cl.AppType, rtClass(eff.ResponseType), rtReg, verdictQ, path))
		}
	}
	pushKey := ""
	if f.Pushed != nil && e.custom != nil {
		// the class the dimension is about: what the front channel alone would get vs. what the authorized request gets
		vf, _ := allowed(&cl, f.Requested, f.ResponseType)
		if f.OmitURI || !clientKnown {
			vf = -1
		}
		kind := f.Pushed.Kind
		if kind == "" {
			kind = "own"
		}
		pushKey = fmt.Sprintf("|push:%s:%s:%s:%s:front=%d", kind, e.custom.order, e.custom.merge, f.Pushed.Relation, vf)
		res.Label("push:kind:"+kind, "push:rel:"+f.Pushed.Relation, fmt.Sprintf("push:front=%d,authorized=%d:%s", vf, verdictQ, path))
		if eff.pushed && eff.ResponseType != f.ResponseType {
			res.Label("push:response_type-differs")
		}
	} else if e.custom != nil {
		res.Label("push:none(copy-only)")
	}
	regKinds := []string{}
	for _, r := range cl.RedirectURIs {
		regKinds = append(regKinds, strings.SplitN(r, ":", 2)[0])
	}
	sort.Strings(regKinds)
	return flowOut{
		key:        fmt.Sprintf("%s|%s|dev=%v|globs=%v|%v|%s|%s|%s|%s|%s|%s|v=%d", sut.Spec.Router, cl.AppType, cl.DevMode, cl.UseGlobs, regKinds, f.Relation, f.ResponseType, f.ResponseMode, f.ErrPath, path, reasonQ, verdictQ) + pushKey,
		path:       path,
		verdict:    verdictQ,
		nonTrivial: !contains(cl.RedirectURIs, eff.URI) || (f.ErrPath != "none" && toLogin) || pushKey != "",
		info:       map[string]any{"verdict": verdictQ, "reason": reasonQ, "path": path, "effective": stored},
	}
}

func directAPI(res *vkit.Result, c Flow, cl *vkit.ClientSpec, sut *vkit.SUT) {
	defer func() {
		if p := recover(); p != nil {
			res.Fail("C03:panic@"+vkit.FirstLibFrame(string(debug.Stack())), "direct API panic: %v", p)
		}
	}()
	verr := op.ValidateAuthReqRedirectURI(vkit.AsOPClient(cl), c.Requested, oidc.ResponseType(c.ResponseType))
	v, why := allowed(cl, c.Requested, c.ResponseType)
	if v > 0 && verr != nil {
		res.Fail("C03:validator-rejects-acceptable:"+why, "ValidateAuthReqRedirectURI(%q) = %v but the URI is acceptable (%s)", c.Requested, verr, why)
	}
	if v < 0 && verr == nil {
		res.Fail("C03:validator-accepts:"+why, "ValidateAuthReqRedirectURI(%q) accepted a URI that must be refused (%s)", c.Requested, why)
	}
	if verr == nil {
		return
	}
	ar := &oidc.AuthRequest{RedirectURI: c.Requested, ResponseType: oidc.ResponseType(c.ResponseType), State: c.State, ResponseMode: oidc.ResponseMode(c.ResponseMode)}
	red, _ := op.TryErrorRedirect(context.Background(), ar, verr, sut.Provider.Encoder(), vkit.DiscardLogger())
	if red != nil {
		res.Fail("C03:tryerrorredirect-redirects-refused", "TryErrorRedirect turned the validator's refusal of %q into a redirect to %q", c.Requested, red.URL)
	}
	w := httptest.NewRecorder()
	op.AuthRequestError(w, httptest.NewRequest("GET", "/authorize", nil), ar, verr, sut.Provider)
	if w.Code >= 300 && w.Code < 400 {
		res.Fail("C03:authrequesterror-redirects-refused", "AuthRequestError turned the validator's refusal of %q into a redirect to %q", c.Requested, w.Header().Get("Location"))
	}
	res.Label("direct-api-refusal")
}

var prop = vkit.Prop[Case]{
	ID: "C03",
	Rule: "cases = client registration (application type x dev mode x auth method x response types (one of four canonical sets, all six standard types, or a generated list over canonical / hybrid `code id_token`, `code token`, `code id_token token` / permuted, duplicated, oddly spaced, decorated and unknown spellings) x 1-4 registered URIs from a grammar x optional opted-in or dormant globs) x requested redirect_uri (registered or one of 30 near-miss relations) x response_type (3/4 a registered one, else canonical / `token` / empty / hybrid / permuted, duplicated, decorated, unknown: only the exact value `code` is the code flow for the plain-http clause, a value that merely contains `code` is not, also when the answer is an error such as unauthorized_client) x response_mode x error path (24 kinds incl. pre-validation errors, request objects, storage faults, missing login) x router, driven authorize->login->callback; " +
		"half of the cases are SEQUENCES of 2-4 such flows on one long-lived provider instance (optionally a second instance, either router, with its own storage that knows the same client ids with other URIs), for the same or another client, with a generated registration change between flows (URI removed / added / replaced, all replaced, glob opt-in switched, glob changed, dev mode switched, application type / response types changed, client unregistered and re-registered; the storage hands out a fresh record), " +
		"later flows preferring URIs from the history of that client id (held by an earlier or the other provider's registration, requested before, registered by the other client) and the response type / mode of the previous flow, any response optionally written to a ResponseWriter that breaks after k body bytes; every response of every flow is judged against the registration in force for that flow on that provider, form_post pages by EVERY form / link / refresh in the page; " +
		"router = op.Provider | LegacyServer via RegisterLegacyServer | a CUSTOM op.Server (struct embedding *op.LegacyServer whose VerifyAuthRequest returns a NEW request object: a model of pushed authorization requests / request_uri, deposit applied after or before the embedded verification, replacing or overlaying the front channel parameters) registered via RegisterLegacyServer or via RegisterServer with the callback mounted by hand; on custom servers 3/4 of the flows present a request_uri whose generated deposit (redirect_uri registered / near-miss / absent, response_type, response_mode, state, scope, prompt; deposited by this client, by another client, or not at all) stands behind a front channel that carries the generated, a registered or no redirect_uri; the oracle judges the request that is AUTHORIZED (the one VerifyAuthRequest returned): every Location / form target must be acceptable for its redirect_uri and response_type, a must-refuse one is answered directly, an acceptable one is delivered, the stored request carries exactly that URI; request= and request_uri are not combined (OIDC Core 6); " +
		"non-trivial = requested URI is not a registered string, or an error path taken after URI validation, or a sequence, or a deposit in play; distinct = per flow (router, client class, registered schemes, relation, response type/mode, error path, path taken, model reason) + (provider, client id, change) + (deposit kind, order, merge, deposit URI relation, verdict of the front channel alone)",
	Gen: genCase,
	Run: run,
}

func TestRapid(t *testing.T)  { prop.Check(t) }
func TestReplay(t *testing.T) { prop.Replay(t) }
