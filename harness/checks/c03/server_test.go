package c03

import (
	"context"
	"fmt"
	"net/http"
	"strings"

	"github.com/zitadel/oidc/v3/pkg/oidc"
	"github.com/zitadel/oidc/v3/pkg/op"
	"pgregory.net/rapid"

	"verif/harness/vkit"
)

// ---- custom op.Server variants ---------------------------------------------------
//
// The Server router (op.RegisterServer / op.RegisterLegacyServer) is an extension point: an application embeds
// *op.LegacyServer (or op.UnimplementedServer) and overrides single methods. The interface contract of
// Server.VerifyAuthRequest is "verify, attach the client, and let the claims of a request object / referenced request
// overwrite the fields of the AuthRequest": the request it RETURNS is the one that gets authorized. The routers
// "custom" and "custom-bare" are such applications: a LegacyServer extended with pushed authorization requests
// (RFC 9126 / OIDC request_uri): parameters deposited beforehand under a request_uri take the place of the front channel
// parameters. Like any implementation that does not mutate its input, it hands back a NEW request object.

// Pushed is the parameter set deposited under the request_uri this flow presents ("" = parameter absent from the deposit).
type Pushed struct {
	Kind         string `json:"kind,omitempty"` // "" = deposited by this flow's client; "unknown" = nothing deposited under that request_uri; "foreign" = deposited by another client
	URI          string `json:"uri,omitempty"`
	Relation     string `json:"relation,omitempty"` // how URI was derived from the registration (label only)
	ResponseType string `json:"response_type,omitempty"`
	ResponseMode string `json:"response_mode,omitempty"`
	State        string `json:"state,omitempty"`
	Scope        string `json:"scope,omitempty"`
	Prompt       string `json:"prompt,omitempty"`
}

func isCustom(router string) bool { return router == "custom" || router == "custom-bare" }

var routers = []string{"provider", "provider", "provider", "provider", "legacy", "legacy", "custom", "custom", "custom-bare"}

type deposit struct {
	clientID string
	p        Pushed
}

// customServer: *op.LegacyServer with VerifyAuthRequest overridden.
//
//	order "after":  the embedded LegacyServer verifies the front channel request (request object, client lookup), then the
//	                deposited parameters are applied to a COPY of the verified request, which is returned
//	order "before": the deposited parameters are applied to a copy of the decoded request first, and the embedded
//	                LegacyServer verifies that copy (what it returns wraps the copy)
//	merge "replace": the deposit IS the request (RFC 9126: front channel parameters other than client_id are ignored)
//	merge "overlay": parameters present in the deposit overwrite the front channel ones (the way request object claims do)
//
// Without a request_uri the request is still returned as a copy.
type customServer struct {
	*op.LegacyServer
	order, merge string
	table        map[string]deposit
}

func (s *customServer) VerifyAuthRequest(ctx context.Context, r *op.Request[oidc.AuthRequest]) (*op.ClientRequest[oidc.AuthRequest], error) {
	var dep *deposit
	if ref := r.Form.Get("request_uri"); ref != "" {
		d, ok := s.table[ref]
		if !ok || d.clientID != r.Data.ClientID {
			return nil, oidc.ErrInvalidRequest().WithDescription("unknown request_uri")
		}
		dep = &d
	}
	if s.order == "before" {
		return s.LegacyServer.VerifyAuthRequest(ctx, withData(r, s.apply(r.Data, dep)))
	}
	cr, err := s.LegacyServer.VerifyAuthRequest(ctx, r)
	if err != nil {
		return nil, err
	}
	return &op.ClientRequest[oidc.AuthRequest]{Request: withData(cr.Request, s.apply(cr.Data, dep)), Client: cr.Client}, nil
}

func withData(r *op.Request[oidc.AuthRequest], data *oidc.AuthRequest) *op.Request[oidc.AuthRequest] {
	return &op.Request[oidc.AuthRequest]{Method: r.Method, URL: r.URL, Header: r.Header, Form: r.Form, PostForm: r.PostForm, Data: data}
}

// apply returns a new AuthRequest: front with the deposit applied.
func (s *customServer) apply(front *oidc.AuthRequest, dep *deposit) *oidc.AuthRequest {
	out := *front
	out.Scopes = append(oidc.SpaceDelimitedArray(nil), front.Scopes...)
	out.Prompt = append(oidc.SpaceDelimitedArray(nil), front.Prompt...)
	if dep == nil {
		return &out
	}
	replace := s.merge == "replace"
	if replace {
		out = oidc.AuthRequest{ClientID: front.ClientID}
	}
	p := dep.p
	if replace || p.URI != "" {
		out.RedirectURI = p.URI
	}
	if replace || p.ResponseType != "" {
		out.ResponseType = oidc.ResponseType(p.ResponseType)
	}
	if replace || p.ResponseMode != "" {
		out.ResponseMode = oidc.ResponseMode(p.ResponseMode)
	}
	if replace || p.State != "" {
		out.State = p.State
	}
	if replace || p.Scope != "" {
		out.Scopes = oidc.SpaceDelimitedArray(strings.Fields(p.Scope))
	}
	if replace || p.Prompt != "" {
		out.Prompt = oidc.SpaceDelimitedArray(strings.Fields(p.Prompt))
	}
	return &out
}

// mountCustom replaces the handler of a SUT built with the LegacyServer router by one that serves a customServer.
//
//	"custom":      op.RegisterLegacyServer (accepts any ExtendedLegacyServer, i.e. any extension of LegacyServer)
//	"custom-bare": op.RegisterServer, the issuer middleware added by hand and the authorize callback of the provider
//	               mounted next to it by the application's own mux
func mountCustom(sut *vkit.SUT, router, order, merge string) *customServer {
	p := sut.Provider
	ep := vkit.PristineEndpoints()
	srv := &customServer{LegacyServer: op.NewLegacyServer(p, ep), order: order, merge: merge, table: map[string]deposit{}}
	switch router {
	case "custom":
		sut.Handler = op.RegisterLegacyServer(srv, op.AuthorizeCallbackHandler(p), op.WithFallbackLogger(vkit.DiscardLogger()))
	default:
		ic := op.NewIssuerInterceptor(p.IssuerFromRequest)
		main := op.RegisterServer(srv, ep, op.WithHTTPMiddleware(ic.Handler), op.WithFallbackLogger(vkit.DiscardLogger()))
		callback := ic.HandlerFunc(op.AuthorizeCallbackHandler(p))
		cbPath := sut.CallbackPath()
		sut.Handler = http.HandlerFunc(func(w http.ResponseWriter, r *http.Request) {
			if r.URL.Path == cbPath {
				callback(w, r)
				return
			}
			main.ServeHTTP(w, r)
		})
	}
	sut.Spec.Router = router
	return srv
}

func requestURIOf(idx int) string {
	return fmt.Sprintf("urn:ietf:params:oauth:request_uri:flow-%d", idx)
}

// ---- generator ---------------------------------------------------------------------

func genPushed(t *rapid.T, cl *vkit.ClientSpec) *Pushed {
	p := &Pushed{}
	p.Kind = rapid.SampledFrom([]string{"", "", "", "", "", "", "unknown", "foreign"}).Draw(t, "pkind")
	if rapid.IntRange(0, 5).Draw(t, "puri") > 0 {
		p.URI, p.Relation = genRequested(t, cl)
		if p.Relation != "registered" && rapid.IntRange(0, 3).Draw(t, "preg") == 0 {
			p.URI, p.Relation = rapid.SampledFrom(cl.RedirectURIs).Draw(t, "base"), "registered"
		}
	} else {
		p.Relation = "absent"
	}
	if rapid.IntRange(0, 2).Draw(t, "prt") > 0 {
		p.ResponseType = genResponseType(t, cl)
	}
	p.ResponseMode = rapid.SampledFrom(responseModes).Draw(t, "prm")
	p.State = rapid.SampledFrom([]string{"", "pushed", "p q&r=s"}).Draw(t, "pstate")
	p.Scope = rapid.SampledFrom([]string{"", "openid", "openid", "openid profile", "profile"}).Draw(t, "pscope")
	p.Prompt = rapid.SampledFrom([]string{"", "", "", "", "", "login", "none login"}).Draw(t, "pprompt")
	return p
}

// genFront: what the front channel carries next to the request_uri. "asis": the generated request (a client - or an
// attacker - may send anything there); "registered": a registered URI; "bare": no redirect_uri at all (what RFC 9126 clients send).
func genFront(t *rapid.T, cl *vkit.ClientSpec, requested, relation *string, omit *bool) {
	switch rapid.SampledFrom([]string{"asis", "asis", "registered", "registered", "bare"}).Draw(t, "front") {
	case "registered":
		*requested, *relation, *omit = rapid.SampledFrom(cl.RedirectURIs).Draw(t, "base"), "registered", false
	case "bare":
		*requested, *relation, *omit = "", "empty", true
	}
}

// ---- model ---------------------------------------------------------------------------

// effReq: the parameters of the request that is authorized, by the statement of the extension: front channel parameters,
// with the deposit applied when the flow presents a request_uri to a server that knows deposits.
type effReq struct {
	URI, ResponseType, ResponseMode, Scope, Prompt string
	pushed                                         bool // a deposit by this client is in force
	dead                                           bool // the request_uri resolves to nothing this client deposited: there is no request to authorize
}

func effective(f Flow, frontPrompt, merge string, custom bool) effReq {
	e := effReq{URI: f.Requested, ResponseType: f.ResponseType, ResponseMode: f.ResponseMode, Scope: "openid profile", Prompt: frontPrompt}
	if f.OmitURI {
		e.URI = ""
	}
	if f.ErrPath == "no_scope" {
		e.Scope = ""
	}
	p := f.Pushed
	if p == nil || !custom {
		return e
	}
	if p.Kind != "" {
		e.dead = true
		return e
	}
	e.pushed = true
	pick := func(front, dep string) string {
		if merge == "replace" || dep != "" {
			return dep
		}
		return front
	}
	e.URI = pick(e.URI, p.URI)
	e.ResponseType = pick(e.ResponseType, p.ResponseType)
	e.ResponseMode = pick(e.ResponseMode, p.ResponseMode)
	e.Scope = pick(e.Scope, p.Scope)
	e.Prompt = pick(e.Prompt, p.Prompt)
	return e
}
