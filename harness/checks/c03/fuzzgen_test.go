package c03

import "testing"

// FuzzGen: the check's own rapid generator driven by Go's coverage-guided fuzzer (thorough tier only; see vkit.Prop.FuzzGen).
func FuzzGen(f *testing.F) { prop.FuzzGen(f) }
