package c08

import (
	"crypto/aes"
	"crypto/cipher"
	"crypto/sha256"
	"encoding/base64"
	"encoding/json"
	"strings"

	"verif/harness/vkit"
)

// aesKey is the provider's AES key for sealing opaque tokens (same derivation as vkit.Build).
func aesKey(b byte) [32]byte {
	var k [32]byte
	for i := range k {
		k[i] = byte(i*7+3) ^ b
	}
	return k
}

// ---- independent sealing / unsealing of opaque tokens (crypto/aes, crypto/cipher only) ----

func unsealRaw(raw []byte, key [32]byte) (string, bool) {
	if len(raw) < aes.BlockSize {
		return "", false
	}
	block, err := aes.NewCipher(key[:])
	if err != nil {
		return "", false
	}
	out := make([]byte, len(raw)-aes.BlockSize)
	cipher.NewCFBDecrypter(block, raw[:aes.BlockSize]).XORKeyStream(out, raw[aes.BlockSize:])
	return string(out), true
}

func unseal(tok string, key [32]byte) (string, bool) {
	raw, err := base64.RawURLEncoding.DecodeString(tok)
	if err != nil {
		return "", false
	}
	return unsealRaw(raw, key)
}

// seal encrypts plain under key with an IV derived from salt (deterministic: no randomness outside rapid).
func seal(plain string, key [32]byte, salt string) string {
	block, err := aes.NewCipher(key[:])
	if err != nil {
		panic(err)
	}
	iv := sha256.Sum256([]byte("c08-iv|" + salt))
	out := make([]byte, aes.BlockSize+len(plain))
	copy(out, iv[:aes.BlockSize])
	cipher.NewCFBEncrypter(block, out[:aes.BlockSize]).XORKeyStream(out[aes.BlockSize:], []byte(plain))
	return base64.RawURLEncoding.EncodeToString(out)
}

// jwtPayload decodes the payload of a compact JWS without verifying anything.
func jwtPayload(tok string) (map[string]any, bool) {
	t, ok := vkit.SplitCompact(tok)
	if !ok {
		return nil, false
	}
	b, err := vkit.UnB64(t.Payload)
	if err != nil {
		return nil, false
	}
	var m map[string]any
	if json.Unmarshal(b, &m) != nil || m == nil {
		return nil, false
	}
	return m, true
}

func oneOf(s string, l ...string) bool {
	for _, x := range l {
		if x == s {
			return true
		}
	}
	return false
}

func short(s string) string {
	if len(s) > 160 {
		return s[:160] + "..."
	}
	return s
}

func hasLeak(body []byte) string {
	b := string(body)
	for _, u := range vkit.AllUserIDs {
		usr := vkit.Users[u]
		for _, needle := range []string{usr.Email, usr.Username, usr.Phone} {
			if needle != "" && strings.Contains(b, needle) {
				return needle
			}
		}
	}
	return ""
}
