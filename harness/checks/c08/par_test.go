package c08

// Concurrent steps (op kind "par"): "from then on" must not depend on what else is in flight. The harness owns the
// interleaving: a read request A (userinfo / introspection / token exchange) is started and parked inside one of its
// storage calls by a vkit gate (on entry: before the storage looked at its state, or on exit: the answer is computed and
// under way); while A is held, a revocation / logout / expiry completes and is acknowledged; then one or two read
// requests B are STARTED, and only after that A is let go.
//
// The oracle does not depend on the schedule that materialised:
//   - every B started after the kill was acknowledged and is judged by the sequential oracle against the model as it is
//     after the kill (a token that is dead by then must not be honoured, whatever else is in flight);
//   - A overlapped the kill: if the model refuses it for a reason that held before the kill it is refused in every
//     interleaving; if its token is live before and after the step it must be honoured; otherwise grey;
//   - the kill itself is judged as in a sequential history (answer, effect in the storage).
//
// Wall clock: bounds limit how long the harness waits for "A is parked or has answered" and "B has answered"; they only
// select the interleaving (a B that blocks on A's progress stays blocked until A's gate is opened), never a verdict. A
// request that has not answered parJoin after every gate was opened is reported: the harness owns no blocking point then.

import (
	"fmt"
	"time"

	"pgregory.net/rapid"

	"verif/harness/vkit"
)

type GateSpec struct {
	Method string `json:"method,omitempty"`  // storage method whose next call is parked ("" = the token lookup of A's endpoint)
	AtExit bool   `json:"at_exit,omitempty"` // park after the method computed its result (default: before it looked at its state)
}

type Par struct {
	A    Op       `json:"a"`    // userinfo | introspect | exchange: started first, parked at Gate
	Gate GateSpec `json:"gate"` //
	Kill Op       `json:"kill"` // revoke | end_session | expire: runs to completion while A is parked
	B    []Op     `json:"b"`    // userinfo | introspect | exchange: started after the kill was acknowledged, before A is released
}

const (
	parBoundA = 500 * time.Millisecond
	parBoundB = 150 * time.Millisecond
	parJoin   = vkit.GateTimeout + 15*time.Second
)

var (
	lookupOf = map[string]string{"userinfo": "SetUserinfoFromToken", "introspect": "SetIntrospectionFromToken", "exchange": "ValidateTokenExchangeRequest"}
	// other storage calls on the path of the three endpoints (caller authentication, key lookups, minting)
	gateMethods = map[string][]string{
		"userinfo":   {"", "", "", "", "KeySet"},
		"introspect": {"", "", "", "", "GetClientByClientID", "AuthorizeClientIDSecret", "GetKeyByIDAndClientID", "KeySet"},
		"exchange": {"", "", "", "TokenRequestByRefreshToken", "CreateTokenExchangeRequest", "CreateAccessToken", "CreateAccessAndRefreshTokens",
			"GetClientByClientID", "AuthorizeClientIDSecret", "SigningKey", "KeySet"},
	}
)

func genRead(t *rapid.T, label, kind string, tok Ref, hosts bool) Op {
	o := Op{Kind: kind, Tok: tok}
	if hosts {
		o.Other = rapid.IntRange(0, 4).Draw(t, label+"other") == 0
	}
	switch kind {
	case "userinfo":
		o.Form = rapid.IntRange(0, 3).Draw(t, label+"form") == 0
	case "introspect":
		o.Caller = rapid.SampledFrom([]string{"owner", "owner", "owner", "owner", "ca", "cb", "ck"}).Draw(t, label+"caller")
		o.Cred = rapid.SampledFrom([]string{"right", "right", "right", "right", "right", "right", "wrong", "idonly", "madeup-basic"}).Draw(t, label+"cred")
	case "exchange":
		o.Caller = rapid.SampledFrom([]string{"ca", "ca", "cb", "owner"}).Draw(t, label+"caller")
		o.Cred = rapid.SampledFrom([]string{"right", "right", "right", "right", "right", "right", "wrong", "madeup-basic"}).Draw(t, label+"cred")
		o.Req = rapid.SampledFrom([]string{"", "", "access", "refresh"}).Draw(t, label+"req")
		if tok.Which == "" && rapid.IntRange(0, 5).Draw(t, label+"asactor") == 0 {
			// the token under test as actor, another grant's access token as subject
			o.Actor = &Ref{Grant: tok.Grant, Which: tok.Which}
			o.Tok = Ref{Grant: tok.Grant + 1}
		}
	}
	return o
}

func genPar(t *rapid.T, label string, hosts bool) Op {
	p := &Par{}
	tok := Ref{Grant: rapid.IntRange(0, 5).Draw(t, label+"g")}
	if rapid.IntRange(0, 5).Draw(t, label+"refresh") == 0 {
		tok.Which = "refresh" // only token exchange takes refresh tokens; at the other endpoints their use is grey / refused
	}
	kinds := []string{"userinfo", "userinfo", "introspect", "introspect", "exchange"}
	if tok.Which == "refresh" {
		kinds = []string{"exchange", "exchange", "exchange", "userinfo", "introspect"}
	}
	ak := rapid.SampledFrom(kinds).Draw(t, label+"a.kind")
	p.A = genRead(t, label+"a.", ak, tok, hosts)
	if rapid.IntRange(0, 7).Draw(t, label+"a.forged") == 0 {
		p.A.Tok = genRef(t, label+"a.tok", 10)
	}
	p.Gate.Method = rapid.SampledFrom(gateMethods[ak]).Draw(t, label+"gate")
	p.Gate.AtExit = rapid.Bool().Draw(t, label+"atexit")

	k := Op{Kind: rapid.SampledFrom([]string{"revoke", "revoke", "revoke", "end_session", "end_session", "expire"}).Draw(t, label+"kill.kind"), Tok: tok}
	switch k.Kind {
	case "revoke":
		k.Caller = rapid.SampledFrom([]string{"owner", "owner", "owner", "owner", "owner", "owner", "ca", "cb"}).Draw(t, label+"kill.caller")
		k.Cred = rapid.SampledFrom([]string{"right", "right", "right", "right", "right", "right", "right", "wrong", "idonly"}).Draw(t, label+"kill.cred")
		k.Hint = rapid.SampledFrom([]string{"", "", "access_token", "refresh_token", "junk"}).Draw(t, label+"kill.hint")
		if rapid.IntRange(0, 3).Draw(t, label+"kill.sibling") == 0 && tok.Which == "" {
			k.Tok.Which = "refresh" // revoking the grant's refresh token kills its access token too
		}
	case "end_session":
		k.ES = rapid.SampledFrom([]string{"hint", "hint", "hint+client", "exphint", "clientonly"}).Draw(t, label+"kill.es")
	}
	p.Kill = k

	n := rapid.SampledFrom([]int{1, 1, 2}).Draw(t, label+"nb")
	for i := 0; i < n; i++ {
		l := fmt.Sprintf("%sb%d.", label, i)
		b := p.A
		switch rapid.IntRange(0, 5).Draw(t, l+"variant") {
		case 0, 1, 2: // the very request A made, once more
		case 3: // same endpoint, drawn anew
			b = genRead(t, l, ak, tok, hosts)
		default: // another endpoint
			b = genRead(t, l, rapid.SampledFrom(kinds).Draw(t, l+"kind"), tok, hosts)
		}
		if p.A.Tok.Forge != "" {
			b.Tok = tok
			if b.Actor != nil {
				b.Actor = nil
			}
		}
		p.B = append(p.B, b)
	}
	return Op{Kind: "par", Par: p}
}

// ---- execution ------------------------------------------------------------------

type flight struct {
	op   Op
	pd   *pending
	done chan struct{}
	resp *vkit.Resp
}

// prepRead resolves a read op of a concurrent step (no storage faults, no impersonation warm-up: nothing but the request
// itself may reach the storage while another request is parked).
func (e *env) prepRead(o Op) *pending {
	o.Fault, o.Spoof = "", false
	if o.Cred == "imp" {
		o.Cred = "right"
	}
	h := e.host(o.Other)
	switch o.Kind {
	case "userinfo":
		return e.userinfoPrep(o, e.resolve(o.Tok, h), h)
	case "introspect":
		return e.introspectPrep(o, e.resolve(o.Tok, h), h)
	case "exchange":
		subj := e.resolve(o.Tok, h)
		var actor *presented
		if o.Actor != nil {
			a := e.resolve(*o.Actor, h)
			actor = &a
		}
		return e.exchangePrep(o, subj, actor, h)
	}
	return nil
}

func (e *env) launch(o Op) *flight {
	pd := e.prepRead(o)
	if pd == nil {
		return nil
	}
	f := &flight{op: o, pd: pd, done: make(chan struct{})}
	go func() {
		defer close(f.done)
		f.resp = pd.send()
	}()
	return f
}

func (f *flight) finished() bool {
	select {
	case <-f.done:
		return true
	default:
		return false
	}
}

// nthNext: the ordinal, as the store counts (per method, from the registration of the first gate on), of the next call
// of method. Only meaningful while no request is in flight.
func (e *env) nthNext(method string) int {
	if e.gateJ0 < 0 {
		e.gateJ0 = len(e.st.Journal)
	}
	n := 0
	for _, j := range e.st.Journal[e.gateJ0:] {
		if j.Method == method {
			n++
		}
	}
	return n + 1
}

func (e *env) par(o Op) {
	pr := o.Par
	if pr == nil || len(e.grants) == 0 || !oneOf(pr.A.Kind, "userinfo", "introspect", "exchange") || !oneOf(pr.Kill.Kind, "revoke", "end_session", "expire") {
		return
	}
	// ---- A is started and parked
	method := pr.Gate.Method
	if method == "" {
		method = lookupOf[pr.A.Kind]
	}
	gate := e.st.AddGate(method, e.nthNext(method), pr.Gate.AtExit)
	defer gate.Release()
	a := e.launch(pr.A)
	if a == nil {
		return
	}
	where := "entry"
	if pr.Gate.AtExit {
		where = "exit"
	}
	state := "loose"
	for t0 := time.Now(); time.Since(t0) < parBoundA; {
		if gate.WaitParked(100 * time.Microsecond) {
			state = "parked"
			break
		}
		if a.finished() {
			state = "answered-before-gate"
			break
		}
	}
	if state != "parked" {
		// nothing is held: the step degenerates to a sequential one (the gate is opened so that nobody else parks there)
		gate.Release()
		if !e.join(a, "A") {
			return
		}
	}
	e.res.Label("par:A:"+pr.A.Kind+":"+state, "par:gate:"+method+"@"+where+":"+state)
	vBefore := a.pd.v

	// ---- the kill completes
	deaths := e.deaths
	e.trace = append(e.trace, "  kill:"+describe(pr.Kill))
	switch pr.Kill.Kind {
	case "revoke":
		k := pr.Kill
		k.Fault, k.Spoof = "", false
		if k.Cred == "imp" {
			k.Cred = "right"
		}
		e.revoke(k)
	case "end_session":
		k := pr.Kill
		k.Fault = ""
		e.endSession(k)
	case "expire":
		e.expire(pr.Kill)
	}
	e.checkState(pr.Kill)
	killed := e.deaths > deaths
	e.res.Label("par:kill:"+pr.Kill.Kind, fmt.Sprintf("par:kill-took-effect:%v", killed))

	// ---- every B starts after the kill was acknowledged, while A is still held
	var bs []*flight
	for i, b := range pr.B {
		if !oneOf(b.Kind, "userinfo", "introspect", "exchange") {
			continue
		}
		e.trace = append(e.trace, fmt.Sprintf("  B%d:%s", i+1, describe(b)))
		f := e.launch(b)
		if f == nil {
			continue
		}
		bs = append(bs, f)
		for t0 := time.Now(); !f.finished() && time.Since(t0) < parBoundB; {
			time.Sleep(100 * time.Microsecond)
		}
		if !f.finished() {
			e.res.Label("par:B-waits-while-A-is-held") // blocked on A's progress, parked at a stale gate, or a slow machine
		}
		if state == "parked" && killed && f.pd.v < 0 {
			e.res.Label("par:B-must-be-refused-while-A-is-held:"+b.Kind, "par:A-held-at-"+where+":B-must-be-refused")
			e.res.NonTrivial = true
			e.keys["par|"+pr.A.Kind+"|"+where+"|"+pr.Kill.Kind+"|"+b.Kind] = true
		}
	}

	// ---- A is let go; everybody answers
	gate.Release()
	if state == "parked" && !e.join(a, "A") {
		return
	}
	for i, f := range bs {
		if !e.join(f, fmt.Sprintf("B%d", i+1)) {
			return
		}
	}
	if gate.TimedOut {
		e.res.Label("par:gate-timed-out") // harness trouble (machine stalled); the interleaving was not the intended one
	}

	// ---- verdicts. A overlapped the kill: what held before it and cannot be undone is asserted, the rest is grey
	if state == "parked" && vBefore >= 0 {
		after := e.prepVerdict(pr.A)
		if !(vBefore > 0 && after > 0) {
			a.pd.v, a.pd.why = 0, "overlapped-a-"+pr.Kill.Kind
		}
	}
	if state == "parked" {
		e.fpSuffix = ":while-request-in-flight"
		defer func() { e.fpSuffix = "" }()
	}
	a.pd.judge(a.pd, a.resp)
	for _, f := range bs {
		f.pd.judge(f.pd, f.resp)
	}
}

// prepVerdict: the verdict a read op would get now (labels of the preparation are harmless duplicates).
func (e *env) prepVerdict(o Op) int {
	pd := e.prepRead(o)
	if pd == nil {
		return 0
	}
	return pd.v
}

// join waits for a request of a concurrent step. Every blocking point the harness owns is open when it is called.
func (e *env) join(f *flight, name string) bool {
	select {
	case <-f.done:
		return true
	case <-time.After(parJoin):
		e.fail("C08:par:request-never-answered", "concurrent step: request %s (%s) has not answered %v after every storage call was released", name, describe(f.op), parJoin)
		return false
	}
}
