// Package c08: only live tokens are honoured; revocation and logout take effect everywhere (property C08).
//
// A case is a provider configuration plus a history of symbolic operations (issue, userinfo, introspect, revoke,
// end_session, expire, exchange). run() executes the history against the real library over HTTP handlers and keeps a
// reference model of every token (issued / revoked / expired / session ended, owner, audience). Each use of a token
// string is judged against the model: must-accept, must-reject or grey.
package c08

import (
	"crypto/sha256"
	"encoding/json"
	"fmt"
	"net/url"
	"regexp"
	"runtime/debug"
	"slices"
	"sort"
	"strings"
	"testing"
	"time"

	"pgregory.net/rapid"

	"verif/harness/vkit"
)

// ---- case -------------------------------------------------------------------------

// Ref names a token string symbolically: the access (or refresh) token of grant number Grant (mod number of grants
// issued so far), optionally run through a forging recipe.
type Ref struct {
	Grant int    `json:"g"`
	Which string `json:"w,omitempty"`     // "" access token | "refresh"
	Forge string `json:"forge,omitempty"` // "" genuine | one of forgeKinds
	Arg   int    `json:"arg,omitempty"`   // parameter of the recipe (bit position, sibling index, garbage index)
	Raw   string `json:"raw,omitempty"`   // forge "raw": the literal string (if empty: garbage[Arg])
}

type Op struct {
	Kind    string `json:"kind"` // issue | userinfo | introspect | revoke | end_session | expire | exchange | par
	Client  string `json:"client,omitempty"`
	User    string `json:"user,omitempty"`
	Scope   int    `json:"scope,omitempty"`
	Offline bool   `json:"offline,omitempty"`
	Other   bool   `json:"other,omitempty"` // use the second issuer host (only when Case.Hosts)
	Tok     Ref    `json:"tok"`
	Actor   *Ref   `json:"actor,omitempty"`
	Caller  string `json:"caller,omitempty"` // owner | ca | cb | cp | ck | ck2 | svc
	Cred    string `json:"cred,omitempty"`   // right | wrong | idonly (client_id in the form, nothing else) | empty-basic (Basic with an empty password) | madeup-basic | madeup-post (a made-up secret, also for clients that have none: public, private_key_jwt) | imp
	By      string `json:"by,omitempty"`     // cred "imp": the real sender, a private_key_jwt client (ck | ck2) other than Caller; the assertion names Caller as iss and sub but carries the sender's own kid and signature
	Warm    bool   `json:"warm,omitempty"`   // cred "imp": immediately before, the real sender makes a legitimate introspection request as itself (same token)
	Hint    string `json:"hint,omitempty"`
	Fault   string `json:"fault,omitempty"`    // "" | error | partial | ... (vkit fault kinds): storage failure inside userinfo / introspection / at the revocation / termination call
	FaultAt string `json:"fault_at,omitempty"` // revoke: "" the fault hits Storage.RevokeToken | "lookup": Storage.GetRefreshTokenInfo
	RTName  string `json:"rt_name,omitempty"`  // issue: how the storage names the refresh token: "" (rt-N-...) | one of rtNames (a string that unseals, under the provider's key, to text with a colon)
	Par     *Par   `json:"par,omitempty"`      // kind "par": requests in flight while a revocation / logout / expiry completes
	Form    bool   `json:"form,omitempty"`     // userinfo: token in the POST body
	Req     string `json:"req,omitempty"`      // exchange: requested type "" | access | refresh
	ES      string `json:"es,omitempty"`       // end_session: hint | hint+client | clientonly
	Spoof   bool   `json:"spoof,omitempty"`    // revoke / introspect by a non-owner: additionally send client_id=<owner> in the body
}

type Case struct {
	ErrStyle   string            `json:"err_style,omitempty"` // how the storage words its own refusals (vkit.Store.refuse)
	Router     string            `json:"router"`
	Hosts      bool              `json:"hosts,omitempty"` // issuer derived from the Host header: two issuers share storage and keys
	Alg        string            `json:"alg"`
	CryptoKey  byte              `json:"crypto_key,omitempty"`
	JWT        []string          `json:"jwt,omitempty"` // clients whose access tokens are JWTs
	CBPost     bool              `json:"cb_post,omitempty"`
	ExtraAud   string            `json:"extra_aud,omitempty"`
	Extras     bool              `json:"extras,omitempty"`
	TELax      bool              `json:"te_lax,omitempty"`      // storage does NOT check liveness of access-token subject/actor in ValidateTokenExchangeRequest (grey)
	RefreshIDs bool              `json:"refresh_ids,omitempty"` // storage gives refresh tokens an id that differs from the token string
	AppTypes   map[string]string `json:"app_types,omitempty"`   // client id -> application type (web | native | user_agent); absent: ca cb ck ck2 svc web, cp native
	K2Kid      string            `json:"k2_kid,omitempty"`      // key id under which the second private_key_jwt client (ck2) registered its key; "" = "kk", the same kid the first one (ck) uses for a different key
	Ops        []Op              `json:"ops"`
	Sweep      bool              `json:"sweep,omitempty"` // after the history: present every token once more at userinfo, introspection and exchange
}

var (
	clientIDs  = []string{"ca", "cb", "cp", "ck", "svc", "ck2"}
	forgeKinds = []string{
		"raw", "raw",
		"o-flip", "o-flip", "o-flip-iv", "o-sibling", "o-sibling", "o-unknown-id", "o-wrong-sub", "o-reseal-samekey", "o-reseal-otherkey", "o-trunc", "o-extend",
		"j-clone", "j-untrusted", "j-nokid-untrusted", "j-expired", "j-otheriss", "j-otheriss-untrusted", "j-none", "j-hs-pub", "j-sigflip", "j-payload-swap",
		"r-mangle",
	}
	garbage = []string{
		"garbage", "x", "a.b.c", "e30.e30.e30", "AAAAAAAAAAAAAAAAAAAAAAAAAAAAAAAAAAAA", "at-1:u1", "rt-1-abc", "..", "eyJhbGciOiJub25lIn0.e30.",
		"tok%20en", "at-1", "YXQtMTp1MQ", "eyJhbGciOiJSUzI1NiJ9.eyJqdGkiOiJhdC0xIiwic3ViIjoidTEifQ.AAAA", "-", "____", "0",
	}
	scopeVariants = []string{"openid", "openid profile", "openid email profile", "openid email phone"}
	// storage failures at the call that performs a revocation / termination (vkit fault kinds): plain error, deadline, ready-made
	// OAuth errors, sentinels of the library, and "partial" (the storage did the work and reports a failure all the same)
	callFaults = []string{"error", "error", "deadline", "deadline", "oidc", "oidc-wrapped", "partial", "canceled", "deadline-wrapped", "access-denied", "invalid-refresh", "invalid-refresh-wrapped", "key-none", "slow-down"}
	// failures of the refresh-token lookup that precedes a revocation. Not the sentinel ErrInvalidRefreshToken: with it the
	// storage SAYS that the string is no refresh token and the library is right to believe it
	lookupFaults = []string{"error", "deadline", "oidc", "oidc-wrapped", "canceled", "access-denied"}
	// refresh token strings are the storage's choice; opaque access tokens are unauthenticated AES-CFB, so a refresh token
	// string may happen to unseal to text with a colon, i.e. look like an opaque access token "id:subject"
	rtNames = []string{"pair-unknown", "pair-unknown", "pair-short", "pair-empty", "pair-binary", "pair-binary", "pair-colons"}
)

// idForges: how an ID token reference is presented ("" = as issued).
var idForges = []string{"", "", "", "i-expired", "i-expired", "i-untrusted", "i-otheriss"}

func genRef(t *rapid.T, label string, forgedOutOf10 int) Ref {
	r := Ref{Grant: rapid.IntRange(0, 5).Draw(t, label+"g")}
	r.Which = rapid.SampledFrom([]string{"", "", "", "refresh"}).Draw(t, label+"w")
	if rapid.IntRange(0, 9).Draw(t, label+"forged") < forgedOutOf10 {
		r.Forge = rapid.SampledFrom(forgeKinds).Draw(t, label+"forge")
		r.Arg = rapid.IntRange(0, 400).Draw(t, label+"arg")
		if r.Forge == "raw" && rapid.Bool().Draw(t, label+"rawgen") {
			r.Raw = rapid.StringMatching(`[A-Za-z0-9_-]{1,70}`).Draw(t, label+"raw")
		}
	}
	return r
}

func genIssue(t *rapid.T, label string, hosts bool) Op {
	o := Op{Kind: "issue"}
	o.Client = rapid.SampledFrom([]string{"ca", "ca", "cb", "cb", "cp", "ck", "svc", "ck2"}).Draw(t, label+"client")
	o.User = rapid.SampledFrom(vkit.AllUserIDs).Draw(t, label+"user")
	o.Scope = rapid.IntRange(0, len(scopeVariants)-1).Draw(t, label+"scope")
	o.Offline = rapid.Bool().Draw(t, label+"offline")
	if hosts {
		o.Other = rapid.IntRange(0, 2).Draw(t, label+"other") == 0
	}
	if o.Offline && rapid.IntRange(0, 2).Draw(t, label+"rtnamed") == 0 {
		o.RTName = rapid.SampledFrom(rtNames).Draw(t, label+"rtname")
		o.Tok.Arg = rapid.IntRange(0, 400).Draw(t, label+"rtarg")
	}
	return o
}

func genOp(t *rapid.T, i int, hosts bool) Op {
	label := fmt.Sprintf("op%d-", i)
	kind := rapid.SampledFrom([]string{
		"issue", "issue",
		"userinfo", "userinfo", "userinfo", "userinfo",
		"introspect", "introspect", "introspect", "introspect",
		"revoke", "revoke", "revoke", "revoke", "revoke",
		"end_session", "end_session", "expire", "expire",
		"exchange", "exchange", "exchange",
		"par", "par",
	}).Draw(t, label+"kind")
	if kind == "issue" {
		return genIssue(t, label, hosts)
	}
	if kind == "par" {
		return genPar(t, label, hosts)
	}
	forged := 4
	if kind == "revoke" {
		forged = 2
	}
	o := Op{Kind: kind, Tok: genRef(t, label+"tok", forged)}
	if kind == "revoke" && o.Tok.Which == "" && rapid.IntRange(0, 3).Draw(t, label+"morerefresh") == 0 {
		o.Tok.Which = "refresh"
	}
	if hosts && oneOf(kind, "userinfo", "introspect", "exchange") {
		o.Other = rapid.IntRange(0, 2).Draw(t, label+"other") == 0
	}
	switch kind {
	case "userinfo":
		o.Form = rapid.IntRange(0, 3).Draw(t, label+"form") == 0
		o.Fault = rapid.SampledFrom([]string{"", "", "", "", "", "", "", "error", "partial"}).Draw(t, label+"fault")
	case "introspect":
		o.Caller = rapid.SampledFrom([]string{"owner", "owner", "owner", "ca", "cb", "cp", "ck", "svc", "ck2"}).Draw(t, label+"caller")
		o.Cred = rapid.SampledFrom([]string{"right", "right", "right", "right", "right", "right", "right", "wrong", "idonly", "empty-basic", "madeup-basic", "madeup-post", "imp", "imp"}).Draw(t, label+"cred")
		o.Fault = rapid.SampledFrom([]string{"", "", "", "", "", "", "", "error", "partial"}).Draw(t, label+"fault")
		genImp(t, label, &o)
		o.Spoof = rapid.IntRange(0, 3).Draw(t, label+"spoof") == 0
	case "revoke":
		o.Caller = rapid.SampledFrom([]string{"owner", "owner", "owner", "owner", "ca", "cb", "cp", "ck", "svc", "ck2"}).Draw(t, label+"caller")
		o.Cred = rapid.SampledFrom([]string{"right", "right", "right", "right", "right", "right", "wrong", "idonly", "idonly", "empty-basic", "madeup-basic", "madeup-post", "imp"}).Draw(t, label+"cred")
		o.Hint = rapid.SampledFrom([]string{"", "", "access_token", "refresh_token", "junk"}).Draw(t, label+"hint")
		genImp(t, label, &o)
		o.Spoof = rapid.IntRange(0, 2).Draw(t, label+"spoof") == 0
		if rapid.IntRange(0, 5).Draw(t, label+"faulted") == 0 {
			o.Fault = rapid.SampledFrom(callFaults).Draw(t, label+"fault")
			if rapid.IntRange(0, 3).Draw(t, label+"faultat") == 0 {
				o.FaultAt, o.Fault = "lookup", rapid.SampledFrom(lookupFaults).Draw(t, label+"lfault")
			}
		}
	case "end_session":
		o.ES = rapid.SampledFrom([]string{"hint", "hint", "hint+client", "clientonly", "exphint", "exphint", "exphint+client"}).Draw(t, label+"es")
		if rapid.IntRange(0, 3).Draw(t, label+"faulted") == 0 {
			o.Fault = rapid.SampledFrom(callFaults).Draw(t, label+"fault")
		}
	case "exchange":
		o.Caller = rapid.SampledFrom([]string{"ca", "ca", "ca", "cb", "cb", "ck", "owner", "ck2"}).Draw(t, label+"caller")
		o.Cred = rapid.SampledFrom([]string{"right", "right", "right", "right", "right", "right", "wrong", "idonly", "empty-basic", "madeup-basic", "madeup-post", "imp"}).Draw(t, label+"cred")
		o.Req = rapid.SampledFrom([]string{"", "", "access", "refresh"}).Draw(t, label+"req")
		genImp(t, label, &o)
		if rapid.IntRange(0, 2).Draw(t, label+"hasactor") == 0 {
			a := genRef(t, label+"actor", 4)
			o.Actor = &a
			if rapid.IntRange(0, 4).Draw(t, label+"actorid") == 0 {
				o.Actor.Which, o.Actor.Forge = "id", rapid.SampledFrom(idForges).Draw(t, label+"actoridforge")
			}
		}
		if rapid.IntRange(0, 3).Draw(t, label+"subjid") == 0 {
			// the grant's ID token as subject (declared as id_token): genuine, or re-signed expired / untrusted / foreign issuer
			o.Tok.Which, o.Tok.Forge = "id", rapid.SampledFrom(idForges).Draw(t, label+"subjidforge")
		}
	}
	return o
}

// genImp draws the parameters of an impersonation attempt (cred "imp"): who really sends it and whether that sender
// authenticates legitimately right before.
func genImp(t *rapid.T, label string, o *Op) {
	if o.Cred != "imp" {
		return
	}
	o.By = rapid.SampledFrom([]string{"ck2", "ck2", "ck"}).Draw(t, label+"by")
	o.Warm = rapid.IntRange(0, 3).Draw(t, label+"warm") != 0
}

func genCase(t *rapid.T) Case {
	c := genCase0(t)
	if rapid.IntRange(0, 3).Draw(t, "k2kid") == 0 {
		c.K2Kid = "k2"
	}
	if rapid.Bool().Draw(t, "errstyled") {
		c.ErrStyle = rapid.SampledFrom(vkit.ErrStyles).Draw(t, "errstyle")
	}
	// application type and registered auth method are independent registration data: every client kind as web / native / user-agent
	if rapid.IntRange(0, 2).Draw(t, "apptyped") != 0 {
		c.AppTypes = map[string]string{}
		for _, id := range clientIDs {
			if at := rapid.SampledFrom([]string{"", "web", "native", "native", "user_agent"}).Draw(t, "apptype-"+id); at != "" {
				c.AppTypes[id] = at
			}
		}
	}
	return c
}

func genCase0(t *rapid.T) Case {
	var c Case
	c.Router = rapid.SampledFrom([]string{"provider", "legacy"}).Draw(t, "router")
	c.Hosts = rapid.IntRange(0, 3).Draw(t, "hosts") == 0
	c.Alg = rapid.SampledFrom([]string{"RS256", "RS256", "ES256"}).Draw(t, "alg")
	c.CryptoKey = byte(rapid.IntRange(0, 255).Draw(t, "cryptokey"))
	for _, id := range clientIDs {
		if rapid.Bool().Draw(t, "jwt-"+id) {
			c.JWT = append(c.JWT, id)
		}
	}
	c.CBPost = rapid.IntRange(0, 3).Draw(t, "cbpost") == 0
	c.ExtraAud = rapid.SampledFrom([]string{"", "", "cb", "ck", "ca", "cp", "ck2"}).Draw(t, "extraaud")
	c.Extras = rapid.IntRange(0, 2).Draw(t, "extras") == 0
	c.TELax = rapid.IntRange(0, 9).Draw(t, "telax") == 0
	c.RefreshIDs = rapid.IntRange(0, 2).Draw(t, "refreshids") == 0
	nIssue := rapid.IntRange(1, 3).Draw(t, "nissue")
	for i := 0; i < nIssue; i++ {
		c.Ops = append(c.Ops, genIssue(t, fmt.Sprintf("init%d-", i), c.Hosts))
	}
	n := rapid.IntRange(3, vkit.Scale(14, 28)).Draw(t, "nops")
	for i := 0; i < n; i++ {
		c.Ops = append(c.Ops, genOp(t, i, c.Hosts))
	}
	c.Sweep = rapid.IntRange(0, 3).Draw(t, "sweep") != 0
	return c
}

// ---- reference model ----------------------------------------------------------------

type mtok struct {
	id, kind, str         string // kind: opaque | jwt | refresh ; id: storage id (refresh: the token string)
	client, subject, host string
	aud, scopes           []string
	revoked, expired      bool
	ended                 bool
	link                  *mtok // refresh <-> access of the same grant
}

func (t *mtok) live() bool { return !t.revoked && !t.expired && !t.ended }

func (t *mtok) death() string {
	switch {
	case t.revoked:
		return "revoked"
	case t.ended:
		return "ended"
	case t.expired:
		return "expired"
	}
	return "live"
}

type grant struct {
	client, subject, host, idToken, flow string
	access, refresh                      *mtok
}

// presented is a concrete token string plus what it denotes according to the model.
type presented struct {
	str   string
	tok   *mtok  // denotation: the token record this string names (nil: none)
	class string // genuine | alias | none | other-issuer
	base  *mtok  // the token the string was derived from (nil for raw garbage)
	forge string
	// ID token presented as exchange input: verdict decided at resolve time (the model has no record per ID token)
	id    bool
	idv   int
	idwhy string
}

func (p presented) ttype() string {
	if p.id {
		return "urn:ietf:params:oauth:token-type:id_token"
	}
	if (p.tok != nil && p.tok.kind == "refresh") || (p.tok == nil && p.base != nil && p.base.kind == "refresh") {
		return "urn:ietf:params:oauth:token-type:refresh_token"
	}
	return "urn:ietf:params:oauth:token-type:access_token"
}

func (p presented) kind() string {
	if p.id {
		return "idtoken"
	}
	if p.base != nil {
		return p.base.kind
	}
	if p.tok != nil {
		return p.tok.kind
	}
	return "raw"
}

type env struct {
	c       Case
	res     *vkit.Result
	st      *vkit.Store
	sut     *vkit.SUT
	ags     [2]*vkit.Agent
	clients map[string]*vkit.ClientSpec
	key     [32]byte
	grants  []*grant
	toks    []*mtok
	byID    map[string]*mtok
	deaths  int
	keys    map[string]bool
	trace   []string
	signKey string
	badKey  string
	// concurrent steps
	lastFaulted bool   // the last revocation / logout ran into its injected storage failure
	fpSuffix    string // appended to every fingerprint raised inside a concurrent step
	gateJ0      int    // journal length when the first gate was registered (-1: none yet): the store counts calls per method from there
}

const redirectURI = "https://rp.example.com/cb"

func (e *env) host(other bool) int {
	if other && e.c.Hosts {
		return 1
	}
	return 0
}

func (e *env) issuer(h int) string { return e.sut.IssuerFor(e.ags[h].Host) }

func contains(l []string, s string) bool { return slices.Contains(l, s) }

// denote: which token record does string s name at issuer host h? Independent of the library: equality with issued
// strings, own AES-CFB unsealing, nothing else.
func (e *env) denote(s string, h int) (*mtok, string) {
	for _, t := range e.toks {
		if t.str == s {
			if t.kind == "jwt" && t.host != e.ags[h].Host {
				return nil, "other-issuer"
			}
			return t, "genuine"
		}
	}
	if pt, ok := unseal(s, e.key); ok {
		parts := strings.SplitN(pt, ":", 2)
		if len(parts) == 2 {
			if t := e.byID[parts[0]]; t != nil && t.kind != "refresh" && t.subject == parts[1] {
				return t, "alias"
			}
			if e.untracked(parts[0]) {
				return nil, "untracked"
			}
		}
	}
	if e.untracked(s) {
		return nil, "untracked"
	}
	return nil, "none"
}

func (e *env) accessToks() []*mtok {
	var out []*mtok
	for _, t := range e.toks {
		if t.kind != "refresh" {
			out = append(out, t)
		}
	}
	return out
}

func flipBit(b []byte, pos int) {
	if len(b) == 0 {
		return
	}
	pos %= len(b) * 8
	b[pos/8] ^= 1 << uint(pos%8)
}

func (e *env) jwtFor(t *mtok, iss string, exp time.Time) []byte {
	now := time.Now()
	m := map[string]any{"iss": iss, "sub": t.subject, "aud": t.aud, "exp": exp.Unix(), "iat": now.Add(-time.Second).Unix(), "nbf": now.Add(-time.Second).Unix(),
		"jti": t.id, "client_id": t.client, "scope": strings.Join(t.scopes, " ")}
	b, _ := json.Marshal(m)
	return b
}

// resolve turns a symbolic reference into a concrete string and its denotation.
func (e *env) resolve(r Ref, h int) presented {
	raw := func() presented {
		s := r.Raw
		if s == "" {
			s = garbage[r.Arg%len(garbage)]
		}
		t, cl := e.denote(s, h)
		return presented{str: s, tok: t, class: cl, forge: "raw"}
	}
	if r.Forge == "raw" || len(e.grants) == 0 {
		return raw()
	}
	g := e.grants[r.Grant%len(e.grants)]
	if r.Which == "id" {
		return e.resolveID(r, g, h, raw)
	}
	if r.Which == "refresh" && g.refresh != nil && (r.Forge == "" || r.Forge == "r-mangle") {
		rt := g.refresh
		if r.Forge == "r-mangle" {
			b := []byte(rt.str)
			i := r.Arg % len(b)
			if b[i] == 'A' {
				b[i] = 'B'
			} else {
				b[i] = 'A'
			}
			t, cl := e.denote(string(b), h)
			return presented{str: string(b), tok: t, class: cl, base: rt, forge: r.Forge}
		}
		return presented{str: rt.str, tok: rt, class: "genuine", base: rt}
	}
	at := g.access
	if at == nil {
		return raw()
	}
	forge := r.Forge
	if forge == "r-mangle" {
		forge = "o-flip"
	}
	if forge == "" {
		t, cl := e.denote(at.str, h)
		return presented{str: at.str, tok: t, class: cl, base: at}
	}
	salt := fmt.Sprintf("%s|%d|%s", forge, r.Arg, at.id)
	if strings.HasPrefix(forge, "o-") {
		// recipes whose plaintext would depend on the random IV of the issued string start from an own, deterministic
		// sealing of the same id:subject (what an attacker who knows one plaintext can compute for any IV)
		base := at.str
		if at.kind != "opaque" || forge == "o-extend" || forge == "o-flip-iv" {
			base = seal(at.id+":"+at.subject, e.key, "base|"+salt)
		}
		rawb, _ := vkit.UnB64(base)
		rawb = slices.Clone(rawb)
		var s string
		switch forge {
		case "o-flip": // a ciphertext bit: flips the same plaintext bit
			flipBit(rawb[16:], r.Arg)
			s = vkit.B64(rawb)
		case "o-flip-iv": // an IV bit: garbles the whole first plaintext block
			flipBit(rawb[:16], r.Arg)
			s = vkit.B64(rawb)
		case "o-sibling":
			sibs := e.accessToks()
			sib := sibs[r.Arg%len(sibs)]
			oldp, newp := at.id+":"+at.subject, sib.id+":"+sib.subject
			if len(oldp) == len(newp) && len(rawb) == 16+len(oldp) {
				for i := range oldp { // CFB malleability: no key needed
					rawb[16+i] ^= oldp[i] ^ newp[i]
				}
				s = vkit.B64(rawb)
			} else {
				s = seal(newp, e.key, salt)
			}
		case "o-unknown-id":
			s = seal(fmt.Sprintf("at-%d:%s", 9000+r.Arg, at.subject), e.key, salt)
		case "o-wrong-sub":
			sub := vkit.AllUserIDs[r.Arg%len(vkit.AllUserIDs)]
			if sub == at.subject {
				sub = "nobody"
			}
			s = seal(at.id+":"+sub, e.key, salt)
		case "o-reseal-samekey":
			s = seal(at.id+":"+at.subject, e.key, salt)
		case "o-reseal-otherkey":
			s = seal(at.id+":"+at.subject, aesKey(e.c.CryptoKey^0x5a), salt)
		case "o-trunc":
			k := 1 + r.Arg%6
			if k >= len(base) {
				k = 1
			}
			s = base[:len(base)-k]
		default: // o-extend
			s = base + []string{"A", "AA", "AAAA", "OnUx", "_-_-"}[r.Arg%5]
		}
		t, cl := e.denote(s, h)
		return presented{str: s, tok: t, class: cl, base: at, forge: forge}
	}
	// JWT family: classification by construction
	iss := e.issuer(h)
	exp := time.Now().Add(time.Hour)
	alg, kid := e.c.Alg, "sig1"
	trusted, untrusted := vkit.Key(e.signKey), vkit.Key(e.badKey)
	p := presented{base: at, forge: forge, class: "none"}
	genuineOrClone := func() string {
		if at.kind == "jwt" {
			return at.str
		}
		return vkit.MustSignJWT(alg, kid, trusted, e.jwtFor(at, iss, exp))
	}
	switch forge {
	case "j-clone":
		p.str = vkit.MustSignJWT(alg, kid, trusted, e.jwtFor(at, iss, exp))
		p.tok, p.class = at, "alias"
	case "j-expired":
		p.str = vkit.MustSignJWT(alg, kid, trusted, e.jwtFor(at, iss, time.Now().Add(-time.Hour)))
	case "j-otheriss":
		p.str = vkit.MustSignJWT(alg, kid, trusted, e.jwtFor(at, "https://evil.example.net", exp))
	case "j-otheriss-untrusted":
		p.str = vkit.MustSignJWT(alg, kid, untrusted, e.jwtFor(at, "https://evil.example.net", exp))
	case "j-untrusted":
		p.str = vkit.MustSignJWT(alg, kid, untrusted, e.jwtFor(at, iss, exp))
	case "j-nokid-untrusted":
		p.str = vkit.MustSignJWT(alg, "", untrusted, e.jwtFor(at, iss, exp))
	case "j-none":
		t, _ := vkit.MakeToken(map[string]any{"alg": "none", "typ": "JWT"}, e.jwtFor(at, iss, exp), nil)
		p.str = t.Compact()
	case "j-hs-pub":
		hb, _ := json.Marshal(map[string]any{"alg": "HS256", "typ": "JWT", "kid": kid})
		t := vkit.Token{Header: vkit.B64(hb), Payload: vkit.B64(e.jwtFor(at, iss, exp))}
		forms := vkit.PublicKeyBytes(trusted)
		names := []string{"pem", "der", "jwk"}
		t.Sig = vkit.B64(vkit.HMACSig("HS256", forms[names[r.Arg%len(names)]], t.SigningInput()))
		p.str = t.Compact()
	case "j-sigflip":
		t, _ := vkit.SplitCompact(genuineOrClone())
		sig, _ := vkit.UnB64(t.Sig)
		flipBit(sig, r.Arg)
		t.Sig = vkit.B64(sig)
		p.str = t.Compact()
	default: // j-payload-swap: keep header and signature of a valid token, name another token in the payload
		t, _ := vkit.SplitCompact(genuineOrClone())
		sibs := e.accessToks()
		sib := sibs[r.Arg%len(sibs)]
		if sib == at {
			sib = &mtok{id: "at-9999", subject: at.subject, client: at.client, aud: at.aud, scopes: at.scopes}
		}
		t.Payload = vkit.B64(e.jwtFor(sib, iss, exp))
		p.str = t.Compact()
	}
	return p
}

// resolveID presents the ID token of grant g at host h. As issued: must be honoured while the grant it came from is
// untouched (nothing revoked, session not ended, not expired) - once any of that happened the statement does not say
// what becomes of the ID token (grey). Re-signed variants (harness holds the provider's key): expired an hour ago,
// signed by an untrusted key, naming a foreign issuer => must be refused.
func (e *env) resolveID(r Ref, g *grant, h int, raw func() presented) presented {
	m, ok := jwtPayload(g.idToken)
	if g.idToken == "" || !ok || g.access == nil {
		return raw()
	}
	p := presented{id: true, base: g.access, forge: r.Forge, class: "none"}
	now := time.Now()
	resign := func(key *vkit.KeyInfo, mut func(map[string]any)) string {
		c := map[string]any{}
		for k, v := range m {
			c[k] = v
		}
		mut(c)
		b, _ := json.Marshal(c)
		return vkit.MustSignJWT(e.c.Alg, "sig1", key, b)
	}
	switch r.Forge {
	case "i-expired":
		p.str = resign(vkit.Key(e.signKey), func(c map[string]any) {
			c["exp"], c["iat"] = now.Add(-time.Hour).Unix(), now.Add(-2*time.Hour).Unix()
		})
		p.idv, p.idwhy = -1, "id-token-expired"
	case "i-untrusted":
		p.str = resign(vkit.Key(e.badKey), func(c map[string]any) {})
		p.idv, p.idwhy = -1, "id-token-untrusted-key"
	case "i-otheriss":
		p.str = resign(vkit.Key(e.signKey), func(c map[string]any) { c["iss"] = "https://evil.example.net" })
		p.idv, p.idwhy = -1, "id-token-other-issuer"
	default:
		p.str, p.forge = g.idToken, ""
		switch {
		case g.host != e.ags[h].Host:
			p.idv, p.idwhy = -1, "id-token-other-issuer"
		case !g.access.live() || (g.refresh != nil && !g.refresh.live()):
			p.idv, p.idwhy = 0, "id-token-of-touched-grant"
		default:
			p.idv, p.idwhy = 1, "live"
		}
	}
	return p
}

// untracked: id names a record of the storage that the model does not track (a token issued by a success the model did not
// demand, e.g. by the lax storage variant for a forged exchange subject). The model knows that it does not know: every
// use of a string that names such a record is grey.
func (e *env) untracked(id string) bool {
	if e.byID[id] != nil {
		return false
	}
	if _, ok := e.st.TokenSnapshot(id); ok {
		return true
	}
	_, ok := e.st.RefreshSnapshot(id)
	return ok
}

// untrackedPlain: s unseals to "<id>:<anything>" with an untracked id (revocation identifies records by id alone).
func (e *env) untrackedPlain(s string) bool {
	if pt, ok := unseal(s, e.key); ok {
		if parts := strings.SplitN(pt, ":", 2); len(parts) == 2 {
			return e.untracked(parts[0])
		}
	}
	return e.untracked(s)
}

// readVerdict: must this string be honoured at a read endpoint (userinfo / introspection / exchange input) of host h?
// +1 must-accept, -1 must-reject, 0 grey.
func (e *env) readVerdict(p presented, h int, accessOnly bool) (int, string) {
	if p.id {
		return p.idv, p.idwhy
	}
	if p.tok == nil {
		if p.class == "untracked" {
			return 0, "names-untracked-storage-record"
		}
		if p.forge != "" {
			return -1, "forged:" + p.forge
		}
		return -1, p.class
	}
	t := p.tok
	if !t.live() {
		return -1, t.death()
	}
	if t.kind == "refresh" && accessOnly {
		return 0, "refresh-token-at-access-endpoint"
	}
	if p.class == "alias" {
		return 0, "alias-of-live"
	}
	if t.host != e.ags[h].Host {
		return 0, "unbound-token-at-other-issuer"
	}
	return 1, "live"
}

// ---- credentials ------------------------------------------------------------------

// spoofed adds client_id=<owner of the token> to the body of a request authenticated (Basic / assertion) as somebody else.
func spoofed(c vkit.Cred, spoof bool, caller *vkit.ClientSpec, p presented) vkit.Cred {
	owner := ""
	if p.tok != nil {
		owner = p.tok.client
	} else if p.base != nil {
		owner = p.base.client
	}
	if spoof && owner != "" && owner != caller.ID && (c.Kind == "basic" || c.Kind == "assertion") {
		c.BodyID = owner
	}
	return c
}

// madeUpSecret is nobody's secret. Presented for a client that has a secret it is a wrong secret; presented for a client
// that has none (public, private_key_jwt) it proves nothing either: there is nothing it could be compared with.
const madeUpSecret = "made-up-secret"

func (e *env) cred(cl *vkit.ClientSpec, kind string, h int) vkit.Cred {
	iss := e.issuer(h)
	switch kind {
	case "idonly":
		return vkit.Cred{Kind: "none", ClientID: cl.ID}
	case "empty-basic":
		return vkit.Cred{Kind: "basic", ClientID: cl.ID}
	case "madeup-basic":
		return vkit.Cred{Kind: "basic", ClientID: cl.ID, Secret: madeUpSecret}
	case "madeup-post":
		return vkit.Cred{Kind: "post", ClientID: cl.ID, Secret: madeUpSecret}
	case "wrong":
		switch cl.AuthMethod {
		case "none":
			return vkit.RightCred(cl, iss)
		case "private_key_jwt":
			now := time.Now()
			return vkit.Cred{Kind: "assertion", Assertion: vkit.AssertionWith(cl.ID, cl.ID, []string{iss}, "kk", "rsa4", now.Add(-5*time.Second), now.Add(5*time.Minute), nil)}
		case "client_secret_post":
			return vkit.Cred{Kind: "post", ClientID: cl.ID, Secret: cl.Secret + "-wrong"}
		}
		return vkit.Cred{Kind: "basic", ClientID: cl.ID, Secret: cl.Secret + "-wrong"}
	}
	return vkit.RightCred(cl, iss)
}

// impSender: the private_key_jwt client that really sends an impersonation attempt naming cl (never cl itself).
func (e *env) impSender(cl *vkit.ClientSpec, by string) *vkit.ClientSpec {
	s := e.clients[by]
	if s == nil || s.AuthMethod != "private_key_jwt" {
		s = e.clients["ck2"]
	}
	if s.ID == cl.ID {
		if s.ID == "ck2" {
			return e.clients["ck"]
		}
		return e.clients["ck2"]
	}
	return s
}

func firstKid(cl *vkit.ClientSpec) string {
	kid := ""
	for k := range cl.Keys {
		if kid == "" || k < kid {
			kid = k
		}
	}
	return kid
}

// credOp is the credential presentation of request o made in the name of cl. Cred "imp": a client assertion that names cl
// as issuer and subject but is signed by another registered private_key_jwt client with that client's own key and kid -
// well-formed in every other respect (audience, times). It proves who the sender is not.
func (e *env) credOp(cl *vkit.ClientSpec, o Op, h int) vkit.Cred {
	if o.Cred != "imp" {
		return e.cred(cl, o.Cred, h)
	}
	s := e.impSender(cl, o.By)
	kid := firstKid(s)
	now := time.Now()
	return vkit.Cred{Kind: "assertion", Assertion: vkit.AssertionWith(cl.ID, cl.ID, []string{e.issuer(h)}, kid, s.Keys[kid], now.Add(-5*time.Second), now.Add(5*time.Minute), nil)}
}

// warmUp: before an impersonation attempt the real sender authenticates legitimately as itself (an introspection of the
// same token string, judged like any other introspection).
func (e *env) warmUp(cl *vkit.ClientSpec, o Op, p presented, h int) {
	s := e.impSender(cl, o.By)
	e.res.Label("imp:"+s.ID+"-as-"+cl.AuthMethod, fmt.Sprintf("imp-warm:%v", o.Warm))
	if p.tok != nil && p.tok.client == cl.ID {
		e.res.Label("imp-names-owner")
	}
	if !o.Warm {
		return
	}
	e.trace = append(e.trace, "warm-up:introspect(as="+s.ID+"/right)")
	e.introspectP(Op{Kind: "introspect", Caller: s.ID, Cred: "right"}, p, h)
}

// authVerdict: is the caller authenticated as cl at this endpoint? +1 yes, -1 no, 0 grey (method support differs per
// router and is another property's subject).
func (e *env) authVerdict(endpoint string, cl *vkit.ClientSpec, kind string) int {
	if kind == "imp" {
		// somebody else's signature: the sender is another client, whatever method the named client is registered with
		return -1
	}
	public := cl.AuthMethod == "none"
	if public {
		if endpoint == "revocation" {
			if strings.HasPrefix(kind, "madeup-") || kind == "empty-basic" {
				// identification is all a public client can offer; a secret (or an empty Basic password) next to it is neither
				// required nor verifiable. Whether such a request is served is not the statement's subject (the two routers differ): grey
				return 0
			}
			return 1 // public clients may revoke their own tokens by client_id
		}
		return -1 // a public client cannot prove to be itself, whatever it sends along
	}
	if kind != "right" {
		return -1
	}
	switch cl.AuthMethod {
	case "client_secret_basic":
		return 1
	case "client_secret_post":
		if endpoint == "revocation" {
			return 1
		}
		return 0
	case "private_key_jwt":
		if endpoint == "introspection" {
			return 1
		}
		return 0
	}
	return 0
}

// ---- running ----------------------------------------------------------------------

// scrub removes what differs between two executions of the same case (timestamps, token strings with random IVs /
// signatures) so that rapid recognises a reproduced failure as the same failure and can shrink it.
var scrubRE = regexp.MustCompile(`[0-9]{9,}|[A-Za-z0-9_.-]{28,}`)

func (e *env) fail(fp, format string, a ...any) {
	msg := fmt.Sprintf(format, a...)
	fp += e.fpSuffix
	e.res.Fail(fp, "%s  [history: %s]", scrubRE.ReplaceAllString(msg, "<..>"), strings.Join(e.trace, " ; "))
}

func (e *env) panicked(where string, r *vkit.Resp) bool {
	if r.Panic == nil {
		return false
	}
	e.fail("C08:panic@"+r.PanicFrame(), "%s panicked: %v", where, r.Panic)
	e.res.Label("panic:" + where)
	return true
}

func (e *env) addTok(t *mtok) {
	e.toks = append(e.toks, t)
	e.byID[t.id] = t
}

// adopt records the tokens of a token response in the model. The token id is recovered independently (own unsealing /
// payload decoding) and cross-checked with the storage snapshot.
func (e *env) adopt(resp *vkit.Resp, client, subject, flow string, h int) *grant {
	at := resp.Str("access_token")
	g := &grant{client: client, host: e.ags[h].Host, idToken: resp.Str("id_token"), flow: flow}
	t := &mtok{str: at, host: g.host}
	if pt, ok := unseal(at, e.key); ok {
		parts := strings.SplitN(pt, ":", 2)
		if len(parts) != 2 {
			return nil
		}
		t.kind, t.id = "opaque", parts[0]
	} else if m, ok := jwtPayload(at); ok {
		t.kind = "jwt"
		t.id, _ = m["jti"].(string)
	} else {
		return nil
	}
	snap, ok := e.st.TokenSnapshot(t.id)
	if !ok {
		return nil
	}
	// owner and subject are what the request asked for (authenticated client; logged-in user / service account /
	// subject of the exchanged token); a storage record that says otherwise is another property's finding
	if snap.ClientID != client || snap.Subject != subject {
		e.res.Label("issue-mismatch:" + flow)
		return nil
	}
	t.client, t.subject, t.aud, t.scopes = client, subject, snap.Audience, snap.Scopes
	g.subject = t.subject
	g.access = t
	if snap.Revoked {
		// issued by a request that was in flight while the session of its (user, client) was terminated: born dead
		t.ended = true
		e.res.Label("adopted-dead")
	}
	e.addTok(t)
	if rs := resp.Str("refresh_token"); rs != "" {
		if rsnap, ok := e.st.RefreshSnapshot(rs); ok {
			rt := &mtok{id: rs, kind: "refresh", str: rs, client: client, subject: subject, host: g.host, aud: rsnap.Audience, scopes: rsnap.Scopes, link: t, ended: rsnap.Dead}
			t.link = rt
			g.refresh = rt
			e.addTok(rt)
			if rsnap.ID != "" {
				e.byID[rsnap.ID] = rt // the bare record id is an alias at the revocation endpoint
			}
		}
	}
	e.grants = append(e.grants, g)
	return g
}

func (e *env) issue(o Op) {
	h := e.host(o.Other)
	ag := e.ags[h]
	cl := e.clients[o.Client]
	if cl == nil {
		cl = e.clients["ca"]
	}
	var resp *vkit.Resp
	subject := cl.ID
	if cl.Service {
		resp = ag.Token(url.Values{"grant_type": {vkit.GCC}, "scope": {"openid"}}, vkit.RightCred(cl, e.issuer(h)))
	} else {
		scope := scopeVariants[o.Scope%len(scopeVariants)]
		if o.Offline {
			scope += " offline_access"
		}
		q := vkit.AuthParams(cl, redirectURI, "code", scope, "st", "n1")
		verifier := ""
		if cl.AuthMethod == "none" {
			verifier = "verifier-verifier-verifier-verifier-verifier-0123456789"
			q.Set("code_challenge", vkit.S256(verifier))
			q.Set("code_challenge_method", "S256")
		}
		user := o.User
		if vkit.Users[user] == nil {
			user = "u1"
		}
		subject = user
		fl := ag.RunAuth(q, user)
		if fl.Code == "" {
			e.res.Label("issue-failed:authorize")
			return
		}
		resp = ag.Token(vkit.CodeExchangeForm(fl.Code, redirectURI, verifier), vkit.RightCred(cl, e.issuer(h)))
	}
	if resp.Panic != nil || !resp.Success() || resp.Str("access_token") == "" {
		e.res.Label("issue-failed:token")
		return
	}
	g := e.adopt(resp, cl.ID, subject, "issue", h)
	if g == nil {
		e.res.Label("issue-failed:undecodable")
		return
	}
	e.res.Label("issued:"+g.access.kind, "issued-by:"+cl.ID, "issued-to:"+cl.AuthMethod+"/"+cl.AppType)
	if g.refresh != nil {
		e.res.Label("issued:refresh")
		if o.RTName != "" {
			e.nameRefresh(g.refresh, o.RTName, o.Tok.Arg)
		}
	}
}

// nameRefresh: the storage of this case names the refresh token just issued differently. Refresh token strings are the
// storage's choice; the name is crafted (the harness knows the provider's AES key) so that it "unseals" to text with a
// colon - what about one in 25 random base64url names of sufficient length does by accident. The plaintexts name no
// token record. Done on the quiescent store, like Store.ExpireToken: record, index and back reference are renamed.
func (e *env) nameRefresh(rt *mtok, kind string, arg int) {
	var plain string
	switch kind {
	case "pair-unknown": // exactly the shape of an opaque access token, id unknown
		plain = fmt.Sprintf("at-%d:%s", 9500+arg, rt.subject)
	case "pair-short":
		plain = "x:y"
	case "pair-empty":
		plain = ":"
	case "pair-colons":
		plain = fmt.Sprintf("zz%d::%s:", arg, rt.subject)
	default: // pair-binary: arbitrary bytes, one of them a colon
		h := sha256.Sum256([]byte(fmt.Sprintf("c08-rt|%d|%s", arg, rt.str)))
		b := h[:8+arg%20]
		for i := range b {
			if b[i] == ':' {
				b[i] = ';'
			}
		}
		b[1+arg%(len(b)-1)] = ':'
		plain = string(b)
	}
	name := seal(plain, e.key, "rt|"+rt.str)
	rec, ok := e.st.Refresh[rt.str]
	if !ok || e.st.Refresh[name] != nil || e.byID[name] != nil {
		return
	}
	delete(e.st.Refresh, rt.str)
	rec.Token = name
	e.st.Refresh[name] = rec
	if at, ok := e.st.Tokens[rec.AccessID]; ok {
		at.RefreshID = name
	}
	delete(e.byID, rt.str)
	rt.str, rt.id = name, name
	e.byID[name] = rt
	e.res.Label("refresh-name:unseals-to:" + kind)
}

func (e *env) caller(name string, p presented) *vkit.ClientSpec {
	if name == "owner" || e.clients[name] == nil {
		switch {
		case p.tok != nil:
			name = p.tok.client
		case p.base != nil:
			name = p.base.client
		default:
			name = "ca"
		}
	}
	if cl := e.clients[name]; cl != nil {
		return cl
	}
	return e.clients["ca"]
}

// useClass records the class of a use for labels, non-triviality and distinctness.
func (e *env) useClass(endpoint string, p presented, v int, why string) {
	verdict := map[int]string{1: "must-accept", -1: "must-reject", 0: "grey"}[v]
	e.res.Label(endpoint+":"+verdict, endpoint+":"+verdict+":"+why, "tok:"+p.kind())
	if p.forge != "" {
		e.res.Label("forge:" + p.forge)
	}
	nt := false
	if p.tok != nil && !p.tok.live() {
		nt = true
		e.res.Label("use-after:" + p.tok.death())
	}
	if p.forge != "" && p.forge != "raw" && p.base != nil && p.base.live() {
		nt = true
		e.res.Label("forged-from-live")
	}
	if nt {
		e.res.NonTrivial = true
		e.keys[fmt.Sprintf("%s|%s|%s|%s|%s", endpoint, p.kind(), p.forge, verdict, why)] = true
	}
	if v == 0 {
		e.res.Label("grey-use")
	}
}

// faultFired: did a storage call since journal position j0 run into the injected fault?
func (e *env) faultFired(j0 int) bool {
	for _, j := range e.st.Journal[j0:] {
		if j.Fault {
			return true
		}
	}
	return false
}

func (e *env) setFault(method, kind string) {
	if kind != "" {
		e.st.SetFaults(vkit.Fault{Method: method, Kind: kind})
	}
}

func (e *env) userinfo(o Op) {
	h := e.host(o.Other)
	e.userinfoP(o, e.resolve(o.Tok, h), h)
}

// pending is a read request (userinfo / introspection / token exchange) split into its phases - expectation, sending,
// judging - so that the harness decides when it is in flight: sequentially (judge(send())) or overlapping other requests.
type pending struct {
	endpoint string
	p        presented
	v        int // +1 must be honoured, -1 must be refused, 0 grey
	why      string
	send     func() *vkit.Resp // touches nothing of the model (may run on its own goroutine)
	judge    func(pd *pending, resp *vkit.Resp)
}

func (e *env) userinfoP(o Op, p presented, h int) {
	pd := e.userinfoPrep(o, p, h)
	e.setFault("SetUserinfoFromToken", o.Fault)
	resp := pd.send()
	e.st.SetFaults()
	pd.judge(pd, resp)
}

func (e *env) userinfoPrep(o Op, p presented, h int) *pending {
	v, why := e.readVerdict(p, h, true)
	if o.Fault != "" && v > 0 {
		v, why = 0, "storage-fault"
	}
	pd := &pending{endpoint: "userinfo", p: p, v: v, why: why}
	ag, path := e.ags[h], e.sut.Paths["userinfo"]
	pd.send = func() *vkit.Resp {
		if o.Form {
			return ag.Post(path, url.Values{"access_token": {p.str}}, nil)
		}
		return ag.UserInfo(p.str)
	}
	pd.judge = func(pd *pending, resp *vkit.Resp) {
		v, why := pd.v, pd.why
		e.useClass("userinfo", p, v, why)
		if e.panicked("userinfo", resp) {
			return
		}
		ok := resp.Success()
		sub := resp.Str("sub")
		switch {
		case v > 0 && !ok:
			e.fail("C08:complete:userinfo", "userinfo refused a live %s access token of %s/%s: %s", p.kind(), p.tok.client, p.tok.subject, resp.Describe())
		case v < 0 && ok:
			e.fail("C08:userinfo-honours:"+why, "userinfo answered %d with claims for a token string that must not be honoured (%s; forge=%q): %s", resp.Status, why, p.forge, resp.Describe())
		}
		if ok && p.tok != nil && sub != p.tok.subject {
			e.fail("C08:userinfo-wrong-subject", "userinfo for the token of %s returned sub=%q: %s", p.tok.subject, sub, resp.Describe())
		}
		if !ok {
			if l := hasLeak(resp.Body); l != "" {
				e.fail("C08:userinfo-refusal-leaks", "userinfo refusal (%d) carries user data %q: %s", resp.Status, l, resp.Describe())
			}
		}
		e.res.Label(fmt.Sprintf("userinfo->%v", ok))
	}
	return pd
}

func exactlyInactive(body []byte) bool {
	var m map[string]any
	if json.Unmarshal(body, &m) != nil {
		return false
	}
	a, ok := m["active"].(bool)
	return len(m) == 1 && ok && !a
}

func (e *env) introspect(o Op) {
	h := e.host(o.Other)
	e.introspectP(o, e.resolve(o.Tok, h), h)
}

func (e *env) introspectP(o Op, p presented, h int) {
	pd := e.introspectPrep(o, p, h)
	e.setFault("SetIntrospectionFromToken", o.Fault)
	resp := pd.send()
	e.st.SetFaults()
	pd.judge(pd, resp)
}

func (e *env) introspectPrep(o Op, p presented, h int) *pending {
	cl := e.caller(o.Caller, p)
	if o.Cred == "imp" {
		e.warmUp(cl, o, p, h)
	}
	auth := e.authVerdict("introspection", cl, o.Cred)
	tv, why := e.readVerdict(p, h, true)
	inAud := p.tok != nil && contains(p.tok.aud, cl.ID)
	v := 0
	switch {
	case auth < 0:
		v, why = -1, "unauthenticated"
	case tv < 0:
		v = -1
	case p.tok != nil && !inAud:
		v, why = -1, "not-in-audience"
	case auth > 0 && tv > 0 && inAud && o.Fault == "":
		v = 1
	case o.Fault != "":
		why = "storage-fault"
	case auth == 0:
		why = "auth-method-grey"
	}
	pd := &pending{endpoint: "introspect", p: p, v: v, why: why}
	e.res.Label("introspect-as:"+cl.AuthMethod+":"+o.Cred, "introspect-by:"+cl.AuthMethod+"/"+cl.AppType)
	cred := spoofed(e.credOp(cl, o, h), o.Spoof, cl, p)
	if cred.BodyID != "" {
		e.res.Label("introspect-spoofed-client_id")
	}
	ag := e.ags[h]
	pd.send = func() *vkit.Resp { return ag.Introspect(p.str, cred) }
	pd.judge = func(pd *pending, resp *vkit.Resp) {
		v, why := pd.v, pd.why
		e.useClass("introspect", p, v, why)
		if e.panicked("introspect", resp) {
			return
		}
		m := resp.JSON()
		active := resp.Success() && m != nil && m["active"] == true
		if resp.Success() && !active && !exactlyInactive(resp.Body) {
			fp := "C08:introspect-inactive-discloses"
			if o.Fault != "" {
				fp += ":storage-" + o.Fault
			}
			e.fail(fp, "inactive introspection answer is not exactly {\"active\":false} (%s, caller %s): %s", why, cl.ID, resp.Describe())
		}
		if !resp.Success() {
			if l := hasLeak(resp.Body); l != "" {
				e.fail("C08:introspect-refusal-leaks", "introspection refusal (%d) carries user data %q: %s", resp.Status, l, resp.Describe())
			}
		}
		switch {
		case v > 0 && !active:
			e.fail("C08:complete:introspect", "introspection by authenticated audience member %s of a live %s token reported inactive: %s", cl.ID, p.kind(), resp.Describe())
		case v < 0 && active:
			e.fail("C08:introspect-active:"+why, "introspection reported active:true although it must not (%s; caller %s cred %s; forge=%q): %s", why, cl.ID, o.Cred, p.forge, resp.Describe())
		}
		if active && p.tok != nil {
			if s, _ := m["sub"].(string); s != p.tok.subject {
				e.fail("C08:introspect-wrong-claims", "active answer for the token of %s carries sub=%q", p.tok.subject, s)
			}
			if s, _ := m["client_id"].(string); s != p.tok.client {
				e.fail("C08:introspect-wrong-claims", "active answer for the token of client %s carries client_id=%q", p.tok.client, s)
			}
		}
		e.res.Label(fmt.Sprintf("introspect->%d/%v", resp.Status/100, active))
	}
	return pd
}

func (e *env) kill(t *mtok, how string) {
	switch how {
	case "revoked":
		t.revoked = true
	case "ended":
		t.ended = true
	case "expired":
		t.expired = true
	}
	e.deaths++
}

func (e *env) revoke(o Op) { e.revokeP(o, e.resolve(o.Tok, 0)) }

func (e *env) revokeP(o Op, p presented) {
	if p.tok == nil {
		// A string that unseals to the id of a token record with another subject: the revocation interface identifies
		// the record by id, so for revocation this is an alias of that record (grey answer; effect only for its owner).
		// The same holds for the bare record id: an undecodable string is handed to Storage.RevokeToken as "token or id".
		if pt, ok := unseal(p.str, e.key); ok {
			if parts := strings.SplitN(pt, ":", 2); len(parts) == 2 {
				if t := e.byID[parts[0]]; t != nil && t.kind != "refresh" {
					p.tok, p.class = t, "alias"
				}
			}
		}
		if t := e.byID[p.str]; t != nil && p.tok == nil {
			p.tok, p.class = t, "alias"
		}
	}
	cl := e.caller(o.Caller, p)
	if o.Cred == "imp" {
		e.warmUp(cl, o, p, 0)
	}
	auth := e.authVerdict("revocation", cl, o.Cred)
	if cl.AuthMethod == "private_key_jwt" && o.Cred == "right" {
		auth = 1 // both routers implement private_key_jwt at the revocation endpoint
	}
	relation := "unknown"
	if p.tok != nil {
		relation = "foreign"
		if p.tok.client == cl.ID {
			relation = "owner"
		}
	}
	// expectation on the response: +1 must be 200, -1 must be refused, 0 grey
	v, why := 0, ""
	switch {
	case auth < 0:
		v, why = -1, "unauthenticated"
	case auth == 0:
		why = "auth-method-grey"
	case relation == "unknown" && (p.class == "untracked" || e.untrackedPlain(p.str)):
		why = "names-untracked-storage-record"
	case relation == "unknown":
		v, why = 1, "unknown-token"
	case p.class == "alias":
		why = "alias-" + relation
	case e.c.RefreshIDs && p.tok.kind == "refresh" && o.Hint == "access_token":
		// With this hint the library hands the raw refresh token to Storage.RevokeToken (documented: "tokenOrTokenID will be
		// the refresh token, not its ID"); the id-only storage variant does not resolve it: storage's doing, grey.
		why = "refresh-token-with-access_token-hint:id-only-storage:" + relation
	case relation == "owner":
		v, why = 1, "owner"
	default:
		v, why = -1, "foreign"
	}
	// v0: the expectation without storage trouble. A storage failure at the revocation call (or at the refresh-token lookup
	// before it) makes the answer to a request that would have to be served grey - but a 200 still says "revoked"
	v0 := v
	faultMethod := ""
	if o.Fault != "" {
		faultMethod = "RevokeToken"
		if o.FaultAt == "lookup" {
			faultMethod = "GetRefreshTokenInfo"
		}
	}
	e.res.Label("revoke-hint:"+o.Hint, "revoke-as:"+cl.AuthMethod+":"+o.Cred, "revoke-by:"+cl.AuthMethod+"/"+cl.AppType+":"+o.Cred, "tok:"+p.kind())
	// the refresh token's string (the storage's choice) unseals to text with a colon, i.e. looks like an opaque access token:
	// its own root-cause class in the fingerprints
	fpPair := ""
	if p.tok != nil && p.tok.kind == "refresh" && p.class == "genuine" {
		if pt, ok := unseal(p.str, e.key); ok && strings.Contains(pt, ":") {
			fpPair = ":string-unseals-to-pair"
			e.res.Label("revoke-of-refresh-token-that-unseals-to-a-pair:" + relation + ":hint-" + o.Hint)
		}
	}
	if p.forge != "" {
		e.res.Label("forge:" + p.forge)
	}
	if p.tok != nil && !p.tok.live() {
		e.res.Label("revoke-of-dead")
	}
	cred := spoofed(e.credOp(cl, o, 0), o.Spoof, cl, p)
	if cred.BodyID != "" {
		e.res.Label("revoke-spoofed-client_id")
	}
	j0 := len(e.st.Journal)
	e.setFault(faultMethod, o.Fault)
	resp := e.ags[0].Revoke(p.str, o.Hint, cred)
	e.st.SetFaults()
	// the failure is part of the request's story only if the request reached the failing call
	faulted := o.Fault != "" && e.faultFired(j0)
	e.lastFaulted = faulted
	if faulted {
		if v > 0 {
			v, why = 0, "storage-fault:"+why
		}
		e.res.Label("revoke-fault:" + faultMethod + ":" + o.Fault)
	}
	verdict := map[int]string{1: "must-200", -1: "must-refuse", 0: "grey"}[v]
	e.res.Label("revoke:" + verdict + ":" + why)
	if e.panicked("revoke", resp) {
		return
	}
	ok := resp.Success()
	switch {
	case v > 0 && !ok && relation == "unknown":
		e.fail("C08:revoke-unknown-not-200", "revocation of an unknown / garbage token (%q, forge=%q, hint=%q) by authenticated client %s answered %d: %s", short(p.str), p.forge, o.Hint, cl.ID, resp.Status, resp.Describe())
	case v > 0 && !ok:
		e.fail("C08:revoke-owner-refused", "revocation by the owning client %s (hint=%q, %s token) was refused: %s", cl.ID, o.Hint, p.kind(), resp.Describe())
	case v < 0 && ok:
		fp := "C08:revoke-accepted:" + why
		if fpPair != "" {
			fp += ":hint-" + o.Hint + fpPair
		}
		e.fail(fp, "revocation attempt that must be refused (%s: caller %s cred %s, token of %v) answered %d", why, cl.ID, o.Cred, ownerOf(p), resp.Status)
	}
	// effect on the model: only an authenticated owner kills; everything else changes nothing
	if p.tok != nil && relation == "owner" && auth >= 0 {
		effective := e.storeDead(p.tok)
		switch {
		case v0 > 0 && ok && !effective:
			fp := "C08:revoke-200-without-effect:" + p.tok.kind + ":hint-" + o.Hint + fpPair
			if faulted {
				fp += ":storage-fault"
			}
			e.fail(fp, "revocation of a %s token by its owner %s with token_type_hint=%q (storage fault: %q at %s) answered %d but the token was not revoked", p.tok.kind, cl.ID, o.Hint, o.Fault, faultMethod, resp.Status)
		case v == 0 || !ok:
			// grey (alias string / auth method / id-only storage): follow what storage did; later uses are judged either way
			e.res.Label("revoke-grey-synced")
		}
		if effective && !p.tok.revoked {
			e.kill(p.tok, "revoked")
			if p.tok.kind == "refresh" && p.tok.link != nil && !p.tok.link.revoked {
				e.kill(p.tok.link, "revoked") // this storage revokes the access token of a revoked refresh token
			}
		}
	}
	e.res.Label(fmt.Sprintf("revoke->%d", resp.Status))
}

func ownerOf(p presented) string {
	if p.tok != nil {
		return p.tok.client
	}
	return "nobody"
}

func (e *env) storeDead(t *mtok) bool {
	if t.kind == "refresh" {
		s, ok := e.st.RefreshSnapshot(t.id)
		return ok && s.Dead
	}
	s, ok := e.st.TokenSnapshot(t.id)
	return ok && s.Revoked
}

func (e *env) endSession(o Op) {
	if len(e.grants) == 0 {
		return
	}
	g := e.grants[o.Tok.Grant%len(e.grants)]
	h := 0
	if g.host != e.ags[0].Host {
		h = 1
	}
	q := url.Values{}
	kind := o.ES
	if g.idToken == "" || kind == "" {
		kind = "clientonly"
	}
	switch kind {
	case "hint":
		q.Set("id_token_hint", g.idToken)
	case "hint+client":
		q.Set("id_token_hint", g.idToken)
		q.Set("client_id", g.client)
	case "exphint", "exphint+client":
		// the session's id token as it looks an hour after its expiry: same claims, iat / exp / auth_time in the past,
		// validly signed with the provider's key (the library accepts expired hints for logout)
		hint, ok := e.expiredHint(g.idToken)
		if !ok {
			return
		}
		q.Set("id_token_hint", hint)
		if kind == "exphint+client" {
			q.Set("client_id", g.client)
		}
	default:
		q.Set("client_id", g.client)
	}
	// a storage failure at the call that terminates the session: TerminateSessionFromRequest where the storage offers it
	// (op.CanTerminateSessionFromRequest), else TerminateSession
	faultMethod := ""
	if o.Fault != "" {
		faultMethod = "TerminateSession"
		if e.c.Extras {
			faultMethod = "TerminateSessionFromRequest"
		}
	}
	j0 := len(e.st.Journal)
	e.setFault(faultMethod, o.Fault)
	resp := e.ags[h].EndSession(q)
	e.st.SetFaults()
	faulted := o.Fault != "" && e.faultFired(j0)
	e.lastFaulted = faulted
	if e.panicked("end_session", resp) {
		return
	}
	// answered as a success (redirect to the post-logout URI / 2xx) = the caller is told that the logout took effect
	done := resp.IsRedirect() || resp.Success()
	e.res.Label("end_session:"+kind, fmt.Sprintf("end_session->%d", resp.Status), fmt.Sprintf("end_session-via-request-interface:%v", e.c.Extras))
	if faulted {
		e.res.Label("end_session-fault:"+faultMethod+":"+o.Fault, fmt.Sprintf("end_session-fault->success:%v", done))
	}
	if kind == "clientonly" {
		return
	}
	for _, t := range e.toks {
		if t.client != g.client || t.subject != g.subject || t.ended {
			continue
		}
		switch {
		case done:
			// the session (user, client) of the id token was terminated: every token of that pair is dead from now on
			e.kill(t, "ended")
		case faulted && e.storeDead(t):
			// the storage reported a failure and the caller was told so; what the storage did before failing is its own
			// business (fault kind "partial"): the model follows it, later uses are judged either way
			e.kill(t, "ended")
			e.res.Label("end_session-failed-grey-synced")
		}
	}
}

func (e *env) expiredHint(idToken string) (string, bool) {
	m, ok := jwtPayload(idToken)
	if !ok {
		return "", false
	}
	now := time.Now()
	m["iat"] = now.Add(-2 * time.Hour).Unix()
	m["auth_time"] = now.Add(-2 * time.Hour).Unix()
	m["exp"] = now.Add(-time.Hour).Unix()
	if _, has := m["nbf"]; has {
		m["nbf"] = now.Add(-2 * time.Hour).Unix()
	}
	b, _ := json.Marshal(m)
	return vkit.MustSignJWT(e.c.Alg, "sig1", vkit.Key(e.signKey), b), true
}

func (e *env) expire(o Op) {
	if len(e.grants) == 0 {
		return
	}
	g := e.grants[o.Tok.Grant%len(e.grants)]
	t := g.access
	if o.Tok.Which == "refresh" && g.refresh != nil {
		t = g.refresh
		e.st.ExpireRefresh(t.id)
	} else {
		e.st.ExpireToken(t.id)
	}
	if !t.expired {
		e.kill(t, "expired")
	}
	e.res.Label("expire:" + t.kind)
}

func (e *env) exchange(o Op) {
	h := e.host(o.Other)
	subj := e.resolve(o.Tok, h)
	var actor *presented
	if o.Actor != nil {
		a := e.resolve(*o.Actor, h)
		actor = &a
	}
	e.exchangeP(o, subj, actor, h)
}

func (e *env) exchangeP(o Op, subj presented, actor *presented, h int) {
	pd := e.exchangePrep(o, subj, actor, h)
	pd.judge(pd, pd.send())
}

func (e *env) exchangePrep(o Op, subj presented, actor *presented, h int) *pending {
	cl := e.caller(o.Caller, subj)
	if !cl.HasGrant(vkit.GTE) {
		cl = e.clients["ca"]
	}
	if o.Cred == "imp" {
		e.warmUp(cl, o, subj, h)
	}
	auth := e.authVerdict("token", cl, o.Cred)
	sv, swhy := e.readVerdict(subj, h, false)
	av, awhy := 1, ""
	if actor != nil {
		av, awhy = e.readVerdict(*actor, h, false)
	}
	v, why, role := 0, "", ""
	switch {
	case auth < 0:
		v, why = -1, "unauthenticated"
	case sv < 0:
		v, why, role = -1, swhy, "subject"
	case av < 0:
		v, why, role = -1, awhy, "actor"
	case auth > 0 && sv > 0 && av > 0:
		v, why = 1, "live"
	case auth == 0:
		why = "auth-method-grey"
	case sv == 0:
		why = swhy
	default:
		why = awhy
	}
	pd := &pending{endpoint: "exchange", p: subj, v: v, why: why}
	form := url.Values{"grant_type": {vkit.GTE}, "subject_token": {subj.str}, "subject_token_type": {subj.ttype()}, "scope": {"openid"}, "audience": {cl.ID}}
	if actor != nil {
		form.Set("actor_token", actor.str)
		form.Set("actor_token_type", actor.ttype())
	}
	switch o.Req {
	case "access":
		form.Set("requested_token_type", "urn:ietf:params:oauth:token-type:access_token")
	case "refresh":
		form.Set("requested_token_type", "urn:ietf:params:oauth:token-type:refresh_token")
	}
	ag, cred := e.ags[h], e.credOp(cl, o, h)
	pd.send = func() *vkit.Resp { return ag.Token(form, cred) }
	pd.judge = func(pd *pending, resp *vkit.Resp) {
		v, why := pd.v, pd.why
		e.useClass("exchange-subject", subj, sv, swhy)
		if actor != nil {
			e.useClass("exchange-actor", *actor, av, awhy)
		}
		verdict := map[int]string{1: "must-accept", -1: "must-reject", 0: "grey"}[v]
		e.res.Label("exchange:"+verdict, "exchange:"+verdict+":"+role+":"+why, "exchange-as:"+cl.AuthMethod+":"+o.Cred, "exchange-req:"+o.Req)
		if e.panicked("exchange", resp) {
			return
		}
		ok := resp.Success()
		switch {
		case v > 0 && !ok:
			e.fail("C08:complete:exchange", "token exchange by %s with a live subject (%s)%s was refused: %s", cl.ID, subj.kind(), actorNote(actor), resp.Describe())
		case v < 0 && ok:
			dead := subj
			if role == "actor" {
				dead = *actor
			}
			sealedPair := false // unseals to "x:y": all the library itself checks of an opaque access token in an exchange
			if pt, ok := unseal(dead.str, e.key); ok && len(strings.SplitN(pt, ":", 2)) == 2 {
				sealedPair = true
			}
			if role != "" && e.c.TELax && ((dead.tok != nil && dead.tok.kind != "refresh") || sealedPair) {
				// The library never asks storage about access tokens used as exchange input (it only unseals / verifies the
				// JWT); liveness is left to ValidateTokenExchangeRequest, and this storage variant skips it: not attributable
				// to the library, counted only.
				e.res.Label("grey:exchange-honours-dead-access-token:lax-storage")
				e.res.Grey = true
			} else {
				e.fail("C08:exchange-accepts:"+role+":"+why, "token exchange by %s (cred %s) answered %d although it must be refused (%s %s; forge=%q): %s", cl.ID, o.Cred, resp.Status, role, why, dead.forge, short(string(resp.Body)))
			}
		}
		e.res.Label(fmt.Sprintf("exchange->%v", ok))
		adoptSub := ""
		switch {
		case subj.tok != nil:
			adoptSub = subj.tok.subject
		case subj.id && subj.base != nil: // ID token subject: the token issued for it names the ID token's subject
			adoptSub = subj.base.subject
		}
		if ok && resp.Str("access_token") != "" && adoptSub != "" {
			if g := e.adopt(resp, cl.ID, adoptSub, "exchange", h); g != nil {
				e.res.Label("issued-by-exchange:" + g.access.kind)
			}
		}
	}
	return pd
}

func actorNote(a *presented) string {
	if a == nil {
		return ""
	}
	return " and a live actor (" + a.kind() + ")"
}

// checkState compares the model with the storage tables after every step (root cause close to the step that caused it).
func (e *env) checkState(o Op) {
	for _, t := range e.toks {
		var dead, expired bool
		if t.kind == "refresh" {
			s, ok := e.st.RefreshSnapshot(t.id)
			if !ok {
				continue
			}
			dead, expired = s.Dead, time.Now().After(s.Exp)
		} else {
			s, ok := e.st.TokenSnapshot(t.id)
			if !ok {
				continue
			}
			dead, expired = s.Revoked, time.Now().After(s.Exp)
		}
		want := t.revoked || t.ended
		if dead != want {
			state := "unexpectedly-live"
			if dead {
				state = "unexpectedly-dead"
			}
			kind := o.Kind
			if kind == "end_session" {
				kind += ":" + o.ES
			}
			if e.lastFaulted {
				kind += ":storage-fault"
			}
			e.fail("C08:state:"+kind+":"+state, "after %s the %s token %s of %s/%s is %s in storage (model: revoked=%v ended=%v)", o.Kind, t.kind, t.id, t.client, t.subject, state, t.revoked, t.ended)
			// continue from what storage says so that one cause is reported once
			if dead {
				t.revoked = true
			} else {
				t.revoked, t.ended = false, false
			}
		}
		if expired != t.expired {
			t.expired = expired
		}
	}
}

func run(c Case) (res *vkit.Result) {
	res = &vkit.Result{}
	defer func() {
		if p := recover(); p != nil {
			res.Fail("C08:panic@"+vkit.FirstLibFrame(string(debug.Stack())), "panic outside a request: %v\n%s", p, debug.Stack())
		}
	}()
	t0 := time.Now()
	jwt := func(id string) bool { return contains(c.JWT, id) }
	cbMethod := "client_secret_basic"
	if c.CBPost {
		cbMethod = "client_secret_post"
	}
	codeGrants := []string{vkit.GCode, vkit.GRefr, vkit.GTE}
	k2kid := "kk"
	if c.K2Kid != "" {
		k2kid = c.K2Kid
	}
	clients := []*vkit.ClientSpec{
		{ID: "ca", Secret: "secret-a", AppType: "web", AuthMethod: "client_secret_basic", GrantTypes: codeGrants, ResponseTypes: []string{"code"}, RedirectURIs: []string{redirectURI}, JWTAccessToken: jwt("ca")},
		{ID: "cb", Secret: "secret-b", AppType: "web", AuthMethod: cbMethod, GrantTypes: codeGrants, ResponseTypes: []string{"code"}, RedirectURIs: []string{redirectURI}, JWTAccessToken: jwt("cb")},
		{ID: "cp", AppType: "native", AuthMethod: "none", GrantTypes: []string{vkit.GCode, vkit.GRefr}, ResponseTypes: []string{"code"}, RedirectURIs: []string{redirectURI}, JWTAccessToken: jwt("cp")},
		{ID: "ck", AppType: "web", AuthMethod: "private_key_jwt", GrantTypes: codeGrants, ResponseTypes: []string{"code"}, RedirectURIs: []string{redirectURI}, JWTAccessToken: jwt("ck"), Keys: map[string]string{"kk": "rsa3"}},
		{ID: "svc", Secret: "secret-s", AppType: "web", AuthMethod: "client_secret_basic", GrantTypes: []string{vkit.GCC}, Service: true, JWTAccessToken: jwt("svc")},
		// a second private_key_jwt client: another key, registered under the same kid as ck's (or under a kid of its own)
		{ID: "ck2", AppType: "web", AuthMethod: "private_key_jwt", GrantTypes: codeGrants, ResponseTypes: []string{"code"}, RedirectURIs: []string{redirectURI}, JWTAccessToken: jwt("ck2"), Keys: map[string]string{k2kid: "rsa2"}},
	}
	for _, cl := range clients {
		if at := c.AppTypes[cl.ID]; oneOf(at, "web", "native", "user_agent") {
			cl.AppType = at
		}
	}
	pol := vkit.StorePolicy{ErrStyle: c.ErrStyle}
	pol.TE.NoLivenessCheck = c.TELax
	pol.RefreshIDs = c.RefreshIDs
	if c.ExtraAud != "" {
		pol.ExtraAudience = []string{c.ExtraAud}
	}
	signKey, badKey := "rsa1", "rsa2"
	alg := c.Alg
	if alg == "ES256" {
		signKey, badKey = "p256a", "p256b"
	} else {
		alg = "RS256"
	}
	c.Alg = alg
	st := vkit.NewStore(clients, vkit.SignKeySpec{KeyName: signKey, Alg: alg, KID: "sig1"}, pol)
	spec := vkit.DefaultProviderSpec(c.Router)
	spec.CryptoKey = c.CryptoKey
	if c.Hosts {
		spec.IssuerMode, spec.Issuer = "host", ""
	}
	if c.Extras {
		spec.Caps.Extras = true
	}
	sut := vkit.MustBuild(spec, st)
	e := &env{c: c, res: res, st: st, sut: sut, clients: st.Clients, key: aesKey(c.CryptoKey), byID: map[string]*mtok{}, keys: map[string]bool{}, signKey: signKey, badKey: badKey, gateJ0: -1}
	e.ags[0] = vkit.NewAgent(sut)
	e.ags[1] = vkit.NewAgent(sut)
	e.ags[1].Host = "other.example.com"

	for i, o := range c.Ops {
		e.trace = append(e.trace, fmt.Sprintf("%d:%s", i, describe(o)))
		e.lastFaulted = false
		switch o.Kind {
		case "issue":
			e.issue(o)
		case "userinfo":
			e.userinfo(o)
		case "introspect":
			e.introspect(o)
		case "revoke":
			e.revoke(o)
		case "end_session":
			e.endSession(o)
		case "expire":
			e.expire(o)
		case "exchange":
			e.exchange(o)
		case "par":
			e.par(o)
		}
		e.checkState(o)
	}

	if c.Sweep {
		e.sweep()
	}

	res.Label("ck2-kid:"+k2kid, "router:"+c.Router, fmt.Sprintf("hosts:%v", c.Hosts), fmt.Sprintf("te-lax-storage:%v", c.TELax), "alg:"+alg)
	if len(e.grants) == 0 {
		res.Label("no-grants")
	}
	ks := make([]string, 0, len(e.keys))
	for k := range e.keys {
		ks = append(ks, k)
	}
	sort.Strings(ks)
	res.Key = c.Router + "|" + strings.Join(ks, ",")
	res.Info = map[string]any{"grants": len(e.grants), "tokens": len(e.toks), "deaths": e.deaths, "nontrivial_uses": ks}
	if time.Since(t0) > 100*time.Second {
		// token lifetimes (300 s) and assertion validity are no longer far away: assert nothing
		res.Viol, res.Grey = nil, true
		res.Label("grey:slow-case")
	}
	return res
}

// sweep: "everywhere, from then on" - after the history every token is presented once more, genuinely, at userinfo,
// at introspection (by an authenticated member of its audience) and as exchange subject (by ca).
func (e *env) sweep() {
	toks := slices.Clone(e.toks)
	for i, t := range toks {
		h := 0
		if t.host != e.ags[0].Host {
			h = 1
		}
		p := presented{str: t.str, tok: t, class: "genuine", base: t}
		e.trace = append(e.trace, fmt.Sprintf("sweep:%s(%s)", t.id, t.death()))
		if cl := e.clients[t.client]; cl != nil && cl.AuthMethod != "none" {
			// a caller that merely NAMES the token's client (client_id in the form / Basic with an empty password) is not the
			// owner, whatever application type the client was registered with: refused, and the token stays what it was
			e.revokeP(Op{Kind: "revoke", Caller: t.client, Cred: []string{"idonly", "empty-basic"}[i%2], Hint: []string{"", "access_token", "refresh_token"}[i%3]}, p)
			e.checkState(Op{Kind: "sweep-revoke-by-name"})
		}
		if t.kind != "refresh" {
			e.userinfoP(Op{Kind: "userinfo", Form: i%2 == 1}, p, h)
			for _, a := range append([]string{t.client}, t.aud...) {
				if cl := e.clients[a]; cl != nil && e.authVerdict("introspection", cl, "right") > 0 {
					e.introspectP(Op{Kind: "introspect", Caller: a, Cred: "right"}, p, h)
					break
				}
			}
			// ... and by a caller that names the token's client but cannot prove to be it (made-up secret, Basic / form)
			e.introspectP(Op{Kind: "introspect", Caller: t.client, Cred: []string{"madeup-basic", "madeup-post"}[i%2]}, p, h)
			// ... and by another registered private_key_jwt client that names the token's client in an assertion signed with its
			// own key (after having authenticated as itself / without that)
			e.introspectP(Op{Kind: "introspect", Caller: t.client, Cred: "imp", By: []string{"ck2", "ck"}[i%2], Warm: i%3 != 2}, p, h)
		}
		e.exchangeP(Op{Kind: "exchange", Caller: "ca", Cred: "right"}, p, nil, h)
		e.checkState(Op{Kind: "sweep"})
	}
	e.res.Label("swept")
}

func imp(o Op) string {
	if o.Cred != "imp" {
		return ""
	}
	return fmt.Sprintf("[by=%s,warm=%v]", o.By, o.Warm)
}

func describe(o Op) string {
	ref := func(r Ref) string {
		s := fmt.Sprintf("g%d", r.Grant)
		if r.Which != "" {
			s += "." + r.Which
		}
		if r.Forge != "" {
			s += fmt.Sprintf("~%s(%d)", r.Forge, r.Arg)
		}
		return s
	}
	fault := func() string {
		if o.Fault == "" {
			return ""
		}
		return ",fault=" + o.Fault + "@" + o.FaultAt
	}
	switch o.Kind {
	case "par":
		if o.Par == nil {
			return "par()"
		}
		g := o.Par.Gate.Method
		if g == "" {
			g = "lookup"
		}
		if o.Par.Gate.AtExit {
			g += "@exit"
		} else {
			g += "@entry"
		}
		return fmt.Sprintf("par(A=%s held at %s)", describe(o.Par.A), g)
	case "issue":
		if o.RTName != "" {
			return fmt.Sprintf("issue(%s,%s,offline=%v,other=%v,rt-name=%s/%d)", o.Client, o.User, o.Offline, o.Other, o.RTName, o.Tok.Arg)
		}
		return fmt.Sprintf("issue(%s,%s,offline=%v,other=%v)", o.Client, o.User, o.Offline, o.Other)
	case "userinfo":
		return fmt.Sprintf("userinfo(%s,fault=%s,other=%v)", ref(o.Tok), o.Fault, o.Other)
	case "introspect":
		return fmt.Sprintf("introspect(%s,as=%s/%s%s,fault=%s,other=%v)", ref(o.Tok), o.Caller, o.Cred, imp(o), o.Fault, o.Other)
	case "revoke":
		return fmt.Sprintf("revoke(%s,hint=%s,as=%s/%s%s%s)", ref(o.Tok), o.Hint, o.Caller, o.Cred, imp(o), fault())
	case "end_session":
		return fmt.Sprintf("end_session(g%d,%s%s)", o.Tok.Grant, o.ES, fault())
	case "expire":
		return fmt.Sprintf("expire(%s)", ref(o.Tok))
	case "exchange":
		a := ""
		if o.Actor != nil {
			a = ",actor=" + ref(*o.Actor)
		}
		return fmt.Sprintf("exchange(subject=%s%s,as=%s/%s%s,req=%s,other=%v)", ref(o.Tok), a, o.Caller, o.Cred, imp(o), o.Req, o.Other)
	}
	return o.Kind
}

var prop = vkit.Prop[Case]{
	ID: "C08",
	Rule: "cases = provider (router x static/host-derived issuer x RS256/ES256 x AES key x per-client opaque/JWT access tokens x basic/post client x extra audience x extras capabilities (storage offers op.CanTerminateSessionFromRequest) x refresh-token ids equal to / different from the token string x (1/10) storage that skips the liveness check of exchange inputs = grey " +
		"x (2/3) application type web / native / user-agent drawn per client independently of its registered auth method (basic, post, none, private_key_jwt, client_credentials)) " +
		"x history of 4-31 symbolic ops (issue by 6 clients incl. public, two private_key_jwt clients (different keys registered under the same kid, 1/4: under different kids) and client_credentials, (1/3 of offline issuances) the storage names the refresh token with a string that unseals under the provider's AES-CFB key to text with a colon (unknown id:subject, x:y, ':', binary, several colons); userinfo header/form; introspect as owner/other/public client with right/wrong credentials, client_id only, Basic with an empty password, or a made-up secret (Basic / form, also for the public and the private_key_jwt clients, which have none) " +
		"or by impersonation (a client assertion naming the client as iss/sub but signed by the other private_key_jwt client with its own key and kid, 3/4 right after that sender authenticated legitimately as itself, 1/4 cold; also at revocation and exchange: never authenticated => never active:true, revocation and exchange refused); " +
		"revoke with hint none/access_token/refresh_token/junk as owner/foreign/public/unauthenticated (incl. client_id only, Basic with empty password, made-up secret), (1/6) with a storage failure (14 fault kinds incl. partial and library sentinels) at Storage.RevokeToken or at the refresh-token lookup: a 200 still means revoked; end_session by fresh or expired-but-validly-signed id_token_hint (with / without client_id) or client_id only, (1/4) with a storage failure at TerminateSession / TerminateSessionFromRequest: an answer that reports success (redirect / 2xx) means every token of the session is dead, a reported failure is grey (model follows the storage); expire; token exchange with subject and optional actor; " +
		"(2/24) concurrent step: a userinfo / introspection / exchange request A is parked by a vkit gate inside one of its storage calls (token lookup 3/5, caller authentication, key lookups, minting; on entry / on exit), a revocation / logout / expiry completes and is acknowledged, then 1-2 requests B (the same request again, the same endpoint, another endpoint) are started before A is released: B is judged by the sequential oracle against the model after the kill whatever is in flight, A is asserted only where its verdict cannot depend on the kill) over genuine access and refresh tokens and 23 forging recipes " +
		"(CFB bit flips, targeted malleation to a sibling token, re-sealing under the same / another key, unknown id, wrong subject, truncation, extension, JWT clone / untrusted key / no kid / expired / other issuer / alg none / HS256 with public key / signature flip / payload swap, raw garbage, storage faults error/partial); " +
		"after 3 of 4 histories every token is presented once more: a revocation attempt by a caller that merely names its (non-public) client - client_id only / Basic with empty password - must be refused and change nothing; userinfo, introspection (by an authenticated audience member, by its own client with a made-up secret, and by a private_key_jwt client impersonating its client) and exchange (sweep); oracle = per-token liveness (issued, not revoked, not expired, session not ended) + audience + authenticated caller, string denotation computed with crypto/aes, storage tables compared with the model after every step; " +
		"non-trivial = the history uses a token after its revocation / logout / expiry, or presents a forged string derived from a live token, or starts a request for a dead token while an earlier request for it is held in flight; distinct = router + set of (endpoint, token kind, forging recipe, verdict, reason) of those uses + (held endpoint, gate side, kill kind, later endpoint) of concurrent steps",
	Gen: genCase,
	Run: run,
}

func TestRapid(t *testing.T)  { prop.Check(t) }
func TestReplay(t *testing.T) { prop.Replay(t) }
