package c16

import (
	"encoding/base64"
	"fmt"

	"github.com/zitadel/oidc/v3/pkg/op"

	"verif/harness/vkit"
)

// runUserCode drives op.NewUserCode / op.NewDeviceCode directly over a generated configuration.
func runUserCode(c Case, res *vkit.Result) {
	d := c.Device
	if d.CharSet == "" || d.CharAmount < 1 || !alphabetSound(d.CharSet) || d.DashInterval < 0 || c.UC == nil {
		res.Grey = true
		res.Label("uc:outside-domain")
		return
	}
	n := (64+d.CharAmount-1)/d.CharAmount + 1
	symbols := map[rune]bool{}
	seen := map[string]int{}
	for k := 0; k < n; k++ {
		code, err := op.NewUserCode([]rune(d.CharSet), d.CharAmount, d.DashInterval)
		if err != nil {
			res.Fail("C16:usercode:error", "NewUserCode(%q, %d, %d) failed: %v", d.CharSet, d.CharAmount, d.DashInterval, err)
			return
		}
		if defect := userCodeDefect(code, d.CharSet, d.CharAmount, d.DashInterval); defect != "" {
			res.Fail("C16:authz:user-code-layout", "NewUserCode(%q, %d, %d) = %q: %s", d.CharSet, d.CharAmount, d.DashInterval, code, defect)
			return
		}
		for _, r := range code {
			if r != '-' {
				symbols[r] = true
			}
		}
		seen[code]++
	}
	bits := capacityBits(d.CharSet, d.CharAmount)
	alphabet := map[rune]bool{}
	for _, r := range d.CharSet {
		alphabet[r] = true
	}
	switch {
	case len(alphabet) >= 2 && len(symbols) < 2:
		// >= 64 independent draws from >= 2 symbols all gave the same symbol: chance <= 2^-63
		res.Fail("C16:usercode:constant", "%d calls of NewUserCode(%q, %d, %d) used the single symbol %v only", n, d.CharSet, d.CharAmount, d.DashInterval, keys(symbols))
	case bits >= 48 && len(seen) != n: // <= 65 draws from >= 2^48 codes: p(repeat) < 1e-11
		res.Fail("C16:usercode:repeated", "%d calls of NewUserCode(%q, %d, %d) produced only %d distinct codes in a %.0f bit space", n, d.CharSet, d.CharAmount, d.DashInterval, len(seen), bits)
	}
	if len(alphabet) < 2 {
		res.Label("uc:single-symbol")
	}

	// device codes: n bytes of base64url, never the same twice
	nb := c.UC.DeviceBytes
	if nb >= 16 && nb <= 1024 {
		devs := map[string]bool{}
		for k := 0; k < 4; k++ {
			dc, err := op.NewDeviceCode(nb)
			raw, derr := base64.RawURLEncoding.DecodeString(dc)
			if err != nil || derr != nil || len(raw) != nb {
				res.Fail("C16:authz:device-code-weak", "NewDeviceCode(%d) = %q: decodes to %d bytes (err %v / %v)", nb, dc, len(raw), err, derr)
				break
			}
			if devs[dc] {
				res.Fail("C16:authz:device-code-repeated", "NewDeviceCode(%d) returned %q twice", nb, dc)
				break
			}
			devs[dc] = true
		}
	}

	res.Label("kind:usercode", "uc:"+c.UCClass, "dash:"+dashClass(d))
	nonASCII := false
	for _, r := range d.CharSet {
		if r > 127 {
			nonASCII = true
		}
	}
	if nonASCII {
		res.Label("uc:non-ascii-alphabet")
	}
	res.NonTrivial = nonASCII || (d.DashInterval > 0 && d.DashInterval < d.CharAmount)
	res.Key = fmt.Sprintf("uc|%s|%d|%d", d.CharSet, d.CharAmount, d.DashInterval)
	res.Info = map[string]any{"calls": n, "distinct": len(seen), "bits": bits}
}

func keys(m map[rune]bool) string {
	s := ""
	for r := range m {
		s += string(r)
	}
	return s
}
