package c16

import (
	"bytes"
	"context"
	"encoding/json"
	"errors"
	"fmt"
	"io"
	"net/http"
	"net/http/httptest"
	"net/url"
	"strings"
	"time"

	"github.com/zitadel/oidc/v3/pkg/client"
	"github.com/zitadel/oidc/v3/pkg/client/rp"
	httphelper "github.com/zitadel/oidc/v3/pkg/http"
	"github.com/zitadel/oidc/v3/pkg/oidc"

	"verif/harness/vkit"
)

// ---- in-process transport between the library's client helpers and the provider under test ----------------------
//
// The transport plays the network and the reverse proxy in front of the provider: it strips the issuer's path prefix,
// sets the Host (and Forwarded) header of the op, and hands the request to the provider's handler in the same goroutine.
// Deadlines of the caller's context do not travel over HTTP, so the served request runs under its own context; the
// transport never fails a request because of elapsed time (no timing dependence in the case).
// Every device_authorization and token request is recorded; token requests are judged with the per-request poll oracle,
// and a harness-owned hook runs before each of them (that is where the user "decides" while the helper polls).

type rpTransport struct {
	w         *world
	i         int
	j         int
	pres      string
	host, fwd string
	prefix    string

	beforeToken func(n int) error

	authz            *vkit.Resp
	authzT0, authzT1 time.Time
	authzForm        url.Values
	polls            []*vkit.Resp
	pollForms        []url.Values
	otherPaths       []string
}

func (t *rpTransport) RoundTrip(req *http.Request) (*http.Response, error) {
	var body []byte
	if req.Body != nil {
		body, _ = io.ReadAll(req.Body)
		req.Body.Close()
	}
	w := t.w
	path := req.URL.Path
	if t.prefix != "" && strings.HasPrefix(path, t.prefix+"/") {
		path = strings.TrimPrefix(path, t.prefix)
	}
	kind := "other"
	switch path {
	case w.sut.Paths["token"]:
		kind = "token"
	case w.sut.Paths["device_authorization"]:
		kind = "authz"
	case "/.well-known/openid-configuration":
		kind = "discovery"
	default:
		t.otherPaths = append(t.otherPaths, path)
	}
	if kind == "token" && t.beforeToken != nil {
		if err := t.beforeToken(len(t.polls)); err != nil {
			return nil, err
		}
	}
	target := "http://" + t.host + path
	if req.URL.RawQuery != "" {
		target += "?" + req.URL.RawQuery
	}
	sreq := httptest.NewRequest(req.Method, target, bytes.NewReader(body))
	for k, v := range req.Header {
		sreq.Header[k] = append([]string(nil), v...)
	}
	sreq.Host = t.host
	if t.fwd != "" {
		sreq.Header.Set("Forwarded", "for=192.0.2.43;host="+t.fwd+";proto=https")
	}
	before := map[string]bool{}
	if kind == "token" {
		for id := range w.st.Tokens {
			before[id] = true
		}
	}
	t0 := time.Now()
	r := vkit.Serve(w.sut.Handler, w.st, sreq)
	t1 := time.Now()
	form, _ := url.ParseQuery(string(body))
	switch kind {
	case "authz":
		t.authz, t.authzT0, t.authzT1, t.authzForm = r, t0, t1, form
	case "token":
		t.polls = append(t.polls, r)
		t.pollForms = append(t.pollForms, form)
		code := form.Get("device_code")
		var m *codeM
		for _, x := range w.codes {
			if x.dev == code {
				m = x
			}
		}
		unknown := ""
		if m == nil {
			unknown = "rp-sent-unissued-code"
		}
		w.judgePoll(pollObs{i: t.i, m: m, code: code, unknown: unknown, j: t.j, ident: t.j, proven: true, pres: t.pres, before: before, r: r, t0: t0, t1: t1})
	}
	status, out, hdr := r.Status, r.Body, http.Header{}
	if r.Panic != nil {
		if kind != "authz" && kind != "token" { // those two are reported by their judges
			w.res.Fail("C16:panic@"+r.PanicFrame(), "op %d: %s %s requested by the relying party: %s", t.i, req.Method, path, r.Describe())
		}
		status, out = 500, []byte("panic")
	}
	for k, v := range r.Header {
		hdr[k] = append([]string(nil), v...)
	}
	return &http.Response{
		Status: fmt.Sprintf("%d %s", status, http.StatusText(status)), StatusCode: status,
		Proto: "HTTP/1.1", ProtoMajor: 1, ProtoMinor: 1, Header: hdr,
		Body: io.NopCloser(bytes.NewReader(out)), ContentLength: int64(len(out)), Request: req,
	}, nil
}

type tokenCaller struct {
	endpoint string
	hc       *http.Client
}

func (c tokenCaller) TokenEndpoint() string    { return c.endpoint }
func (c tokenCaller) HttpClient() *http.Client { return c.hc }

func urlSafe(s string) bool {
	u, err := url.QueryUnescape(s)
	return err == nil && u == s
}

// rpFlow drives one device flow end to end through the library's own client helpers: a relying party configured the way
// the client is registered starts the flow with the scopes of the op, the user decides while the helper polls (the decision
// is applied by the transport right before the After-th poll is served), and the helper's result is compared with what the
// provider answered. Every request the helpers send is judged with the same per-request oracles as the agent's requests.
func (w *world) rpFlow(i int, o Op) {
	res, c := w.res, w.c
	j := mod(o.Client, 3)
	cfg, cl := c.Clients[j], w.specs[j]
	issuer := w.issuerFor(o)
	iu, err := url.Parse(issuer)
	if err != nil {
		return
	}
	tr := &rpTransport{w: w, i: i, j: j, host: hosts[mod(o.Host, len(hosts))], fwd: fwdHosts[mod(o.Fwd, len(fwdHosts))], prefix: strings.TrimSuffix(iu.Path, "/")}
	hc := &http.Client{Transport: tr}
	ctx, cancel := context.WithTimeout(context.Background(), 10*time.Second)
	defer cancel()

	// --- the relying party, configured as the client is registered
	secret, auth, pres := "", "none", "rp"
	opts := []rp.Option{rp.WithHTTPClient(hc)}
	switch cl.AuthMethod {
	case "client_secret_basic", "client_secret_post":
		secret, auth = cl.Secret, "secret"
		if !urlSafe(secret) {
			// the helpers put id and secret into the Basic header as they are; what a provider that form-decodes them
			// (RFC 6749 section 2.3.1) makes of that is not this property's business
			auth, pres = "secret-not-urlsafe", "rp-rawsecret"
		}
	case "private_key_jwt":
		kid := ""
		for k := range cl.Keys {
			if kid == "" || k < kid {
				kid = k
			}
		}
		pem := vkit.Key(cl.Keys[kid]).PKCS1PEM()
		auth = "signer"
		switch o.RPAuth {
		case "keyfile":
			kf, _ := json.Marshal(map[string]string{"type": "application", "keyId": kid, "key": string(pem), "clientId": cl.ID})
			opts = append(opts, rp.WithJWTProfile(rp.SignerFromKeyFile(kf)))
			auth = "signer-keyfile"
		case "signer+secret":
			secret, auth, pres = "a-secret-nobody-registered", "signer+secret", "rp+secret"
			fallthrough
		default:
			opts = append(opts, rp.WithJWTProfile(rp.SignerFromKeyAndKeyID(pem, kid)))
		}
	}
	tr.pres = pres
	via := "rp"
	if o.Via == "client" {
		via = "client"
	}
	res.Label("rp:auth:"+auth, "rp:via:"+via, "rp:authfn:"+o.AuthFn, fmt.Sprintf("rp:decide:%s@%d", o.Decide, o.After))
	party, err := rp.NewRelyingPartyOIDC(ctx, issuer, cl.ID, secret, "https://rp.example.com/cb", o.Scopes, opts...)
	if err != nil {
		res.Label("rp:construct-failed")
		if ctx.Err() != nil {
			return
		}
		res.Fail("C16:rp:construct", "op %d: rp.NewRelyingPartyOIDC(%q, %s, auth %s) failed: %v", i, issuer, cl.ID, auth, err)
		return
	}
	var authFn any
	switch o.AuthFn {
	case "header":
		authFn = httphelper.RequestAuthorization(func(r *http.Request) { r.Header.Set("X-Device-Model", "vkit/1") })
	case "form":
		authFn = httphelper.FormAuthorization(func(f url.Values) { f.Set("device_model", "vkit-1") })
	}
	assertion := func() string {
		if party.Signer() == nil {
			return ""
		}
		a, err := client.SignedJWTProfileAssertion(cl.ID, []string{issuer}, time.Hour, party.Signer())
		if err != nil {
			res.Fail("C16:rp:assertion", "op %d: client.SignedJWTProfileAssertion failed: %v", i, err)
		}
		return a
	}
	credReq := func(scopes []string) *oidc.ClientCredentialsRequest {
		r := &oidc.ClientCredentialsRequest{Scope: scopes, ClientID: cl.ID, ClientSecret: secret}
		if a := assertion(); a != "" {
			r.ClientAssertion, r.ClientAssertionType = a, oidc.ClientAssertionTypeJWTAssertion
		}
		return r
	}

	// --- device authorization through the helper
	var da *oidc.DeviceAuthorizationResponse
	if via == "client" {
		da, err = client.CallDeviceAuthorizationEndpoint(ctx, credReq(o.Scopes), party, authFn)
	} else {
		da, err = rp.DeviceAuthorization(ctx, o.Scopes, party, authFn)
	}
	inDomain := cfg.Device && !odd(cfg.Kind) && pres == "rp"
	if ctx.Err() != nil { // the machine stalled for the whole 10 s budget of the flow
		res.Label("rp:outcome:grey-deadline")
		if tr.authz != nil {
			w.judgeAuthz(i, o, j, pres, true, issuer, tr.authz, tr.authzT0, tr.authzT1)
		}
		return
	}
	if tr.authz == nil {
		res.Label("rp:authz-not-sent")
		if inDomain {
			res.Fail("C16:rp:authz-not-sent", "op %d: %s device authorization helper of relying party %s (auth %s) returned (%v, %v) without a request reaching %s", i, via, cl.ID, auth, da, err, w.sut.Paths["device_authorization"])
		}
		return
	}
	m := w.judgeAuthz(i, o, j, pres, true, issuer, tr.authz, tr.authzT0, tr.authzT1)
	if m == nil {
		if err == nil && tr.authz.Panic == nil {
			res.Fail("C16:rp:authz-refusal-swallowed", "op %d: the provider did not issue a device code (%s) but the %s helper returned %+v without an error", i, tr.authz.Describe(), via, da)
		}
		return
	}
	body := tr.authz.JSON()
	num := func(k string) int { f, _ := body[k].(float64); return int(f) }
	str := func(k string) string { s, _ := body[k].(string); return s }
	if err != nil || da == nil {
		res.Fail("C16:rp:authz-response-lost", "op %d: the provider issued a device code but the %s helper returned (%v, %v)", i, via, da, err)
		return
	}
	if da.DeviceCode != str("device_code") || da.UserCode != str("user_code") || da.VerificationURI != str("verification_uri") ||
		da.VerificationURIComplete != str("verification_uri_complete") || da.ExpiresIn != num("expires_in") || da.Interval != num("interval") {
		res.Fail("C16:rp:authz-response-garbled", "op %d: the %s helper returned %+v, the provider answered %s", i, via, *da, tr.authz.Body)
	}

	// --- the user decides while the helper polls
	user := vkit.AllUserIDs[mod(o.User, len(vkit.AllUserIDs))]
	decided, runaway := false, false
	tr.beforeToken = func(n int) error {
		if n >= o.After && !decided {
			decided = true
			switch o.Decide {
			case "approve":
				w.st.ApproveDevice(m.dev, user)
				m.approved, m.approver = true, user
			case "deny":
				w.st.DenyDevice(m.dev)
				m.denied = true
			case "expire":
				w.st.ExpireDevice(m.dev)
				m.expired = true
			default: // the device gives up
				cancel()
				return context.Canceled
			}
		}
		if n > o.After+2 {
			runaway = true
			cancel()
			return context.Canceled
		}
		return nil
	}
	interval := time.Duration(o.PollUs) * time.Microsecond
	if interval <= 0 {
		interval = 100 * time.Microsecond
	}
	var tok *oidc.AccessTokenResponse
	if via == "client" {
		req := &client.DeviceAccessTokenRequest{ClientCredentialsRequest: credReq(nil),
			DeviceAccessTokenRequest: oidc.DeviceAccessTokenRequest{GrantType: oidc.GrantTypeDeviceCode, DeviceCode: da.DeviceCode}}
		tok, err = client.PollDeviceAccessTokenEndpoint(ctx, interval, req, tokenCaller{party.OAuthConfig().Endpoint.TokenURL, hc})
	} else {
		tok, err = rp.DeviceAccessToken(ctx, da.DeviceCode, interval, party)
	}

	// --- what the helper hands its caller is what the provider answered last
	var last *vkit.Resp
	if n := len(tr.polls); n > 0 {
		last = tr.polls[n-1]
	}
	gaveUp := o.Decide != "approve" && o.Decide != "deny" && o.Decide != "expire"
	switch {
	case runaway:
		// the harness stopped the helper at its (After+3)th poll: the decision was in force from the After-th poll on
		res.Label("rp:outcome:runaway-stopped")
		for k, r := range tr.polls {
			if e := r.OAuthError(); r.Panic == nil && (r.Success() || (e != "authorization_pending" && e != "slow_down")) {
				res.Fail("C16:rp:polling-past-final-answer", "op %d: the provider answered poll %d of the %s helper with %s, the helper kept polling (%d polls, stopped by the harness)", i, k, via, r.Describe(), len(tr.polls))
				break
			}
		}
		return
	case ctx.Err() != nil && !gaveUp:
		res.Label("rp:outcome:grey-deadline")
		return
	case last != nil && last.Panic != nil:
		return
	}
	lastTokens := last != nil && last.Success() && last.Str("access_token") != ""
	lastErr := ""
	if last != nil && !last.Success() {
		lastErr = last.OAuthError()
	}
	switch {
	case tok != nil && err == nil && !lastTokens:
		res.Fail("C16:rp:tokens-invented", "op %d: the %s polling helper returned tokens %+v although the last answer of the provider was %v", i, via, *tok, describe(last))
	case lastTokens:
		res.Label("rp:outcome:tokens")
		if err != nil || tok == nil {
			res.Fail("C16:rp:tokens-lost", "op %d: the provider issued tokens but the %s polling helper returned (%v, %v)", i, via, tok, err)
		} else if tok.AccessToken != last.Str("access_token") || tok.IDToken != last.Str("id_token") || tok.RefreshToken != last.Str("refresh_token") ||
			!sameSet([]string(tok.Scope), strings.Fields(last.Str("scope"))) {
			res.Fail("C16:rp:tokens-garbled", "op %d: the %s polling helper returned %+v, the provider answered %s", i, via, *tok, last.Body)
		}
	case gaveUp:
		res.Label("rp:outcome:device-gave-up")
		if err == nil {
			res.Fail("C16:rp:no-error-after-cancel", "op %d: the %s polling helper returned (%v, nil) after its context was cancelled during a pending flow", i, via, tok)
		}
	case lastErr == "authorization_pending" || lastErr == "slow_down":
		res.Fail("C16:rp:poll-gave-up", "op %d: the %s polling helper returned (%v, %v) after the provider answered %s: it stopped polling before the user decided", i, via, tok, err, lastErr)
	case lastErr != "":
		res.Label("rp:outcome:error:" + lastErr)
		var oe *oidc.Error
		if !errors.As(err, &oe) || string(oe.ErrorType) != lastErr {
			res.Fail("C16:rp:error-not-surfaced", "op %d: the provider answered %s but the %s polling helper returned (%v, %v)", i, lastErr, via, tok, err)
		}
	default:
		res.Label("rp:outcome:other")
		if err == nil {
			res.Fail("C16:rp:refusal-swallowed", "op %d: the provider refused the last poll (%s) but the %s polling helper returned (%v, nil)", i, describe(last), via, tok)
		}
	}
}

func describe(r *vkit.Resp) string {
	if r == nil {
		return "<no request reached the token endpoint>"
	}
	return r.Describe()
}
