package c16

import (
	"fmt"
	"sort"
	"strings"
	"testing"
	"time"

	"pgregory.net/rapid"

	"verif/harness/vkit"
)

// Real-time cases (TestExpiry): the lifetime that is in force is the announced one. Several providers with short lifetimes
// and various poll intervals each issue a code; the case then really waits until every short lifetime has passed by more
// than the 2 s guard and polls each code once more. The per-request poll oracle decides from the t0/t1 brackets of the
// requests alone (never from a wall-clock threshold of its own): a pending code whose announced lifetime ended > 2 s
// before the poll began must answer expired_token, one whose lifetime is still running authorization_pending.

func genRTCase(t *rapid.T) Case {
	c := Case{Kind: "realtime"}
	n := rapid.IntRange(3, 6).Draw(t, "providers")
	for k := 0; k < n; k++ {
		c.RT = append(c.RT, RTSub{
			Router:    rapid.SampledFrom([]string{"provider", "legacy"}).Draw(t, "router"),
			LifetimeS: rapid.SampledFrom([]int{0, 1, 1, 1, 2, 60}).Draw(t, "lifetime"),
			PollS:     rapid.SampledFrom([]int{0, 1, 3, 5, 5, 10, 30}).Draw(t, "poll"),
			Client:    rapid.SampledFrom(kindsOK).Draw(t, "client"),
			Decide:    rapid.SampledFrom([]string{"", "", "", "", "deny", "approve"}).Draw(t, "decide"),
		})
	}
	c.ExtraMs = rapid.IntRange(100, 600).Draw(t, "extra")
	return c
}

func runRealtime(c Case, res *vkit.Result) {
	if len(c.RT) == 0 || len(c.RT) > 8 || c.ExtraMs < 0 || c.ExtraMs > 2000 {
		res.Grey = true
		res.Label("malformed-case")
		return
	}
	var ws []*world
	longest := 0
	for _, s := range c.RT {
		sub := Case{Kind: "history", Router: s.Router, IssuerMode: "static", Issuer: "https://op.example.com", UCClass: "base20",
			Device:  vkit.DeviceCfg{LifetimeS: s.LifetimeS, PollS: s.PollS, UserFormPath: "/device", CharSet: alphaBase20, CharAmount: 8, DashInterval: 4},
			Clients: []ClientCfg{{Kind: s.Client, Device: true, Refresh: true, PlainSecret: true}, {Kind: "pub_native", Device: true}, {Kind: "conf_basic", Device: true, PlainSecret: true}}}
		w := newWorld(sub, res)
		if w == nil {
			return
		}
		ws = append(ws, w)
		if s.LifetimeS <= 2 && s.LifetimeS > longest {
			longest = s.LifetimeS
		}
	}
	// phase 1: every provider issues a code, is polled at once, and the user decides where the case says so
	for k, w := range ws {
		w.authorize(10*k, Op{Kind: "authorize", Client: 0, Pres: "right", Scopes: []string{"openid", "profile"}})
		if len(w.codes) == 0 {
			continue
		}
		w.poll(10*k+1, Op{Kind: "poll", Client: -1, Pres: "right"})
		switch c.RT[k].Decide {
		case "approve":
			w.decide(10*k+2, Op{Kind: "approve", User: k})
		case "deny":
			w.decide(10*k+2, Op{Kind: "deny"})
		}
	}
	// one shared wait: every lifetime of at most 2 s has then been over for more than the 2 s guard
	time.Sleep(time.Duration(longest)*time.Second + 2*time.Second + time.Duration(c.ExtraMs)*time.Millisecond)
	// phase 2
	var keys []string
	asserted, natural := 0, 0
	for k, w := range ws {
		if len(w.codes) > 0 {
			w.poll(10*k+3, Op{Kind: "poll", Client: -1, Pres: "right"})
		}
		asserted += w.asserted
		for cls := range w.classes {
			if strings.HasPrefix(cls, "pending+expired/owner/") || strings.HasPrefix(cls, "denied+expired/owner/") {
				natural++
			}
		}
		s := c.RT[k]
		keys = append(keys, fmt.Sprintf("%s/%d/%d/%s", s.Router, s.LifetimeS, s.PollS, s.Decide))
		res.Label("rt:router:"+s.Router, fmt.Sprintf("rt:lifetime:%d", s.LifetimeS), fmt.Sprintf("rt:poll-interval:%d", s.PollS), "rt:decide:"+s.Decide)
	}
	sort.Strings(keys)
	res.Label("kind:realtime")
	res.NonTrivial = natural > 0
	res.Grey = asserted == 0
	res.Key = "rt|" + strings.Join(keys, ",")
	res.Info = map[string]any{"providers": len(ws), "asserted_polls": asserted, "naturally_expired_owner_polls": natural}
}

const ruleRT = "real-time cases (TestExpiry) = 3-6 providers (router x lifetime {0,1,2,60} s x poll interval {0,1,3,5,10,30} s x initiating client kind x user decision none|deny|approve), " +
	"each issues a code and is polled at once; ONE real wait of (longest short lifetime + 2 s guard + 0.1-0.6 s); each code is polled again by its owner and judged by the per-request poll oracle from the " +
	"t0/t1 brackets (pending code whose announced lifetime ended > 2 s before the poll began -> expired_token; lifetime still running -> authorization_pending; stalled request -> grey); " +
	"non-trivial = at least one asserted owner poll of a naturally expired code; distinct = multiset of (router, lifetime, poll interval, decision)"

var propRT = vkit.Prop[Case]{ID: "C16", Rule: ruleAll, Gen: genRTCase, Run: run}

func TestExpiry(t *testing.T) { propRT.Check(t) }
