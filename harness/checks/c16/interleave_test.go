package c16

// Concurrent histories (op kind "par", TestInterleave): 2-3 device-code token requests on ONE device code are in flight at
// once - by the client that started the flow and by other clients (authenticated as themselves / public clients naming
// themselves / wrong or missing credentials / body client_id of the owner) - while the user approves, denies or the code
// expires before, between and after them. The harness owns the interleaving: vkit gates park one storage call of a poll
// (on entry: before the storage looked at its state; on exit: result computed, answer delayed) while the next poll is
// started or the user decides; the schedule (start / decide / release order) is data of the case, so a failing
// interleaving shrinks and replays like any history.
//
// The oracle does not depend on the schedule that materialised. For every poll the harness knows the model states the
// request may have observed: the state when it was started plus the state after every decision that was applied while it
// was not yet known to have answered. From the statement:
//   - a poll by a client that did not start the flow (or that proved no identity) never yields tokens, in any interleaving;
//   - a poll yields tokens only if the user's approval was in force in one of those states (a poll that answered before
//     the approval was made never yields tokens), and not if the user had denied in every such state;
//   - the owner's poll whose every possible state is "approved, not denied, not expired" gets tokens unless another poll
//     redeemed the code (before or during the step);
//   - a refusal to the owner names one of the errors the statement gives for one of the possible states;
//   - issued tokens carry the owner as client, the requested scopes and the subject of a user whose approval was in force.
//
// Wall clock: parBound limits how long the scheduler waits for "the request just started / released has answered or is
// parked again"; it only decides which interleaving is produced (a request that waits for another request's progress -
// only a changed library does that - is left waiting and the schedule moves on), never a verdict. A decision applied while
// some request is neither parked nor finished (storage not quiescent: the vkit store hands out the live state record)
// makes the polls in flight grey for everything but "foreign / unapproved never yields tokens".

import (
	"fmt"
	"net/url"
	"sort"
	"strings"
	"sync"
	"sync/atomic"
	"testing"
	"time"

	"pgregory.net/rapid"

	"verif/harness/vkit"
)

// ParPoll is one of the overlapping polls of a concurrent step.
type ParPoll struct {
	Client int    `json:"client"`            // < 0: the client that started the flow; 0..2: that client
	Pres   string `json:"pres,omitempty"`    // right | id_only | wrong_secret | cross | none
	Other  int    `json:"other,omitempty"`   // cross: client named in the body (< 0: the owner of the code)
	Gate   string `json:"gate,omitempty"`    // storage method whose next call is parked when this poll is started ("" = none)
	AtExit bool   `json:"at_exit,omitempty"` // park after the method computed its result (default: before it looked at its state)
	Skip   int    `json:"skip,omitempty"`    // park the (Skip+1)-th next call of the method
}

// ParEvent is a user decision placed somewhere in the schedule of the step.
type ParEvent struct {
	Kind string `json:"kind"` // approve | deny | expire
	User int    `json:"user,omitempty"`
}

// Par: the polls are started in the order listed and the events applied in the order listed; Order[s] selects the s-th
// action among those enabled at that point: [start the next poll, apply the next event, release parked call 0, 1, ...].
type Par struct {
	Polls  []ParPoll  `json:"polls"`
	Events []ParEvent `json:"events,omitempty"`
	Order  []int      `json:"order,omitempty"`
}

const (
	parBound = 150 * time.Millisecond
	parJoin  = vkit.GateTimeout + 15*time.Second
)

// ---- generator ------------------------------------------------------------------

// storage methods on the path of a device-code token request: client authentication, the state lookup (what decides),
// the client lookup, token creation, signing and claims
var parGateMethods = []string{
	"GetDeviceAuthorizatonState", "GetDeviceAuthorizatonState", "GetDeviceAuthorizatonState", "GetDeviceAuthorizatonState", "GetDeviceAuthorizatonState",
	"GetClientByClientID", "GetClientByClientID", "AuthorizeClientIDSecret", "GetKeyByIDAndClientID",
	"CreateAccessToken", "CreateAccessAndRefreshTokens", "SigningKey", "SetUserinfoFromScopes", "GetPrivateClaimsFromScopes",
}

func genParPoll(t *rapid.T, label string, kind byte) ParPoll {
	var p ParPoll
	if kind == '?' {
		kind = "OOFFFXB"[rapid.IntRange(0, 6).Draw(t, label+"kind")]
	}
	switch kind {
	case 'O': // the client that started the flow, with its right credentials
		p.Client, p.Pres = -1, "right"
	case 'F': // some client authenticated as itself / a public client naming itself (by chance the owner)
		p.Client, p.Pres = rapid.IntRange(0, 2).Draw(t, label+"client"), "right"
	case 'X': // authenticated as itself, the body names the owner of the code (or a third client)
		p.Client, p.Pres = rapid.IntRange(0, 2).Draw(t, label+"client"), "cross"
		p.Other = rapid.SampledFrom([]int{-1, -1, -1, 0, 1, 2}).Draw(t, label+"other")
	default: // the owner's id without a valid proof
		p.Client, p.Pres = -1, rapid.SampledFrom([]string{"id_only", "wrong_secret", "none"}).Draw(t, label+"pres")
	}
	return p
}

func genGate(t *rapid.T, label string, p *ParPoll) {
	p.Gate = rapid.SampledFrom(parGateMethods).Draw(t, label+"gate")
	p.AtExit = rapid.IntRange(0, 2).Draw(t, label+"exit") == 0
	if rapid.IntRange(0, 7).Draw(t, label+"skip") == 0 {
		p.Skip = 1
	}
}

func genPar(t *rapid.T, label string) Op {
	o := Op{Kind: "par", Par: &Par{}}
	o.Code = rapid.SampledFrom([]int{0, 0, 0, 0, 0, 1, 2}).Draw(t, label+"code")
	o.Host = rapid.IntRange(0, len(hosts)-1).Draw(t, label+"host")
	o.Fwd = rapid.SampledFrom([]int{0, 0, 1, 2}).Draw(t, label+"fwd")
	n := rapid.SampledFrom([]int{2, 2, 2, 3}).Draw(t, label+"n")
	shape := rapid.SampledFrom([]string{"OF", "OF", "OF", "FO", "FO", "FO", "OO", "OX", "XO", "FF", "??", "??"}).Draw(t, label+"shape")
	for k := 0; k < n; k++ {
		kind := byte('?')
		if k < len(shape) {
			kind = shape[k]
		}
		l := fmt.Sprintf("%sp%d.", label, k)
		p := genParPoll(t, l, kind)
		// the first poll is always held somewhere, later ones every other time
		if k == 0 || rapid.Bool().Draw(t, l+"gated") {
			genGate(t, l, &p)
		}
		o.Par.Polls = append(o.Par.Polls, p)
	}
	ne := rapid.SampledFrom([]int{0, 1, 1, 1, 2, 2, 3}).Draw(t, label+"nevents")
	for e := 0; e < ne; e++ {
		l := fmt.Sprintf("%se%d.", label, e)
		ev := ParEvent{Kind: rapid.SampledFrom([]string{"approve", "approve", "approve", "approve", "deny", "expire"}).Draw(t, l+"kind")}
		if ev.Kind == "approve" {
			ev.User = rapid.IntRange(0, 2).Draw(t, l+"user")
		}
		o.Par.Events = append(o.Par.Events, ev)
	}
	o.Par.Order = rapid.SliceOfN(rapid.IntRange(0, 5), 0, 2*n+ne).Draw(t, label+"order")
	return o
}

// genInterleave: a short history around one or more concurrent steps: configuration as in TestRapid, 1-2 flows, 0-2
// sequential decisions / polls, then concurrent steps each followed by 0-2 sequential ops (so the model keeps being
// checked after the step: e.g. the owner polls again, a foreign client polls again).
func genInterleave(t *rapid.T) Case {
	c := genConfig(t)
	seqOp := func(label string, kinds []string) {
		o := Op{Kind: rapid.SampledFrom(kinds).Draw(t, label+"kind")}
		o.Host = rapid.IntRange(0, len(hosts)-1).Draw(t, label+"host")
		o.Fwd = rapid.SampledFrom([]int{0, 0, 1, 2}).Draw(t, label+"fwd")
		switch o.Kind {
		case "authorize":
			o.Client = rapid.SampledFrom([]int{0, 0, 0, 0, 1, 1, 2}).Draw(t, label+"client")
			o.Pres = "right"
			o.Scopes = genScopes(t)
		case "approve":
			o.Code = rapid.SampledFrom([]int{0, 0, 0, 1}).Draw(t, label+"code")
			o.User = rapid.IntRange(0, 2).Draw(t, label+"user")
		case "deny", "expire":
			o.Code = rapid.SampledFrom([]int{0, 0, 0, 1}).Draw(t, label+"code")
		case "poll":
			genPoll(t, &o)
		}
		c.Ops = append(c.Ops, o)
	}
	nAuth := rapid.SampledFrom([]int{1, 1, 2}).Draw(t, "nauth")
	for i := 0; i < nAuth; i++ {
		seqOp(fmt.Sprintf("a%d.", i), []string{"authorize"})
	}
	nPre := rapid.IntRange(0, 2).Draw(t, "npre")
	for i := 0; i < nPre; i++ {
		seqOp(fmt.Sprintf("pre%d.", i), []string{"approve", "approve", "approve", "approve", "deny", "expire", "poll"})
	}
	steps := rapid.IntRange(1, vkit.Scale(2, 4)).Draw(t, "steps")
	for s := 0; s < steps; s++ {
		c.Ops = append(c.Ops, genPar(t, fmt.Sprintf("s%d.", s)))
		nPost := rapid.IntRange(0, 2).Draw(t, fmt.Sprintf("npost%d", s))
		for i := 0; i < nPost; i++ {
			seqOp(fmt.Sprintf("post%d.%d.", s, i), []string{"poll", "poll", "poll", "approve", "deny", "expire", "authorize"})
		}
	}
	if rapid.IntRange(0, 2).Draw(t, "errstyled") == 0 {
		c.ErrStyle = rapid.SampledFrom(vkit.ErrStyles).Draw(t, "errstyle")
	}
	return c
}

// ---- execution ------------------------------------------------------------------

// codeSnap is the part of the model a decision changes.
type codeSnap struct {
	approved, denied, expired bool
	approver                  string
}

type parPoll struct {
	spec    ParPoll
	obs     pollObs
	ag      *vkit.Agent
	form    url.Values
	cred    vkit.Cred
	done    chan struct{}
	started bool
	fin     bool
	cands   []codeSnap // model states the request may have observed
	racy    bool       // a decision was applied while the storage was not quiescent and this poll was in flight
	tokens  bool
}

type parRun struct {
	polls    []*parPoll
	gates    []*vkit.Gate
	seen     []*atomic.Bool // set by the watcher of gate k once a call arrived there
	specs    []ParPoll
	parked   []bool
	released []bool
	evt      chan struct{} // something observable may have happened (a poll answered, a gated call arrived)
	stop     chan struct{}
	wg       sync.WaitGroup
}

func (r *parRun) notify() {
	select {
	case r.evt <- struct{}{}:
	default:
	}
}

// watch reports the arrival of a call at gate g; the watcher ends with the step.
func (r *parRun) watch(g *vkit.Gate) {
	flag := &atomic.Bool{}
	r.seen = append(r.seen, flag)
	r.wg.Add(1)
	go func() {
		defer r.wg.Done()
		for {
			if g.WaitParked(time.Millisecond) {
				flag.Store(true)
				r.notify()
				return
			}
			select {
			case <-r.stop:
				return
			default:
			}
		}
	}()
}

// observe updates what is observable (polls answered, gated calls that arrived) and returns the number of such events.
func (r *parRun) observe() int {
	n := 0
	for _, p := range r.polls {
		if p.started && !p.fin {
			select {
			case <-p.done:
				p.fin = true
			default:
			}
		}
		if p.fin {
			n++
		}
	}
	for k := range r.gates {
		if !r.parked[k] && r.seen[k].Load() {
			r.parked[k] = true
		}
		if r.parked[k] {
			n++
		}
	}
	return n
}

// settle waits until something observable happened after prev events; expired: nothing did within the bound.
func (r *parRun) settle(prev int) (n int, expired bool) {
	limit := time.NewTimer(parBound)
	defer limit.Stop()
	for {
		if n = r.observe(); n > prev {
			return n, false
		}
		select {
		case <-r.evt:
		case <-limit.C:
			return r.observe(), true
		}
	}
}

func (r *parRun) inFlight() (n int) {
	for _, p := range r.polls {
		if p.started && !p.fin {
			n++
		}
	}
	return n
}

func (r *parRun) held() (n int) {
	for k := range r.gates {
		if r.parked[k] && !r.released[k] {
			n++
		}
	}
	return n
}

// quiescent: every request in flight sits in a parked storage call.
func (r *parRun) quiescent() bool { return r.inFlight() <= r.held() }

// nthNext computes the ordinal (as the store counts: per method, from the registration of the first gate on) of the
// (skip+1)-th next call of the method. Only meaningful while the storage is quiescent.
func (w *world) nthNext(r *parRun, g ParPoll) int {
	n := 0
	for _, e := range w.st.Journal[w.gateJ0:] {
		if e.Method == g.Gate {
			n++
		}
	}
	if !g.AtExit {
		// calls parked on entry are counted by the store but not yet journaled
		for k := range r.gates {
			if r.parked[k] && !r.released[k] && r.specs[k].Gate == g.Gate && !r.specs[k].AtExit {
				n++
			}
		}
	}
	return n + 1 + g.Skip
}

func gateName(g ParPoll) string {
	if g.AtExit {
		return g.Gate + ":exit"
	}
	return g.Gate + ":entry"
}

func (w *world) agentFor(o Op) *vkit.Agent {
	ag := vkit.NewAgent(w.sut)
	ag.Host = hosts[mod(o.Host, len(hosts))]
	if f := fwdHosts[mod(o.Fwd, len(fwdHosts))]; f != "" {
		ag.Forwarded = "for=192.0.2.43;host=" + f + ";proto=https"
	}
	return ag
}

func (w *world) snap(m *codeM) codeSnap {
	return codeSnap{approved: m.approved, denied: m.denied, expired: m.expired, approver: m.approver}
}

func (w *world) par(i int, o Op) {
	res := w.res
	p := o.Par
	if p == nil || len(p.Polls) == 0 || len(p.Polls) > 4 || len(p.Events) > 8 {
		res.Label("malformed-par")
		return
	}
	if len(w.codes) == 0 {
		res.Label("noop:par")
		return
	}
	m := w.code(o.Code)
	issuer := w.issuerFor(o)
	before := map[string]bool{}
	for id := range w.st.Tokens {
		before[id] = true
	}
	wasRedeemed := m.redeemed
	w.parSteps++

	run := &parRun{evt: make(chan struct{}, 1), stop: make(chan struct{})}
	defer func() {
		close(run.stop)
		run.wg.Wait()
	}()
	var mix []string
	for _, s := range p.Polls {
		j := s.Client
		if j < 0 || j > 2 {
			j = m.owner
		}
		other := s.Other
		if other < 0 {
			other = m.owner
		}
		cr, ident, proven, pres := w.cred(j, s.Pres, other, issuer)
		pp := &parPoll{spec: s, ag: w.agentFor(o), cred: cr, done: make(chan struct{}),
			form: url.Values{"grant_type": {vkit.GDevice}, "device_code": {m.dev}}}
		pp.obs = pollObs{i: i, m: m, code: m.dev, j: j, ident: ident, proven: proven, pres: pres, bodyID: cr.BodyID, before: before}
		run.polls = append(run.polls, pp)
		mix = append(mix, relOf(m, ident)+"/"+pres)
	}

	// ---- execute under the generated schedule
	approvers := map[string]bool{}
	if m.approved {
		approvers[m.approver] = true
	}
	var sched []string
	events, nextPoll, nextEvent := 0, 0, 0
	overlap, duringFlight := false, false
	for step := 0; step < 64; step++ {
		events = run.observe()
		type act struct {
			kind string
			k    int
		}
		var acts []act
		if nextPoll < len(run.polls) {
			acts = append(acts, act{"start", nextPoll})
		}
		if nextEvent < len(p.Events) {
			acts = append(acts, act{"event", nextEvent})
		}
		for g := range run.gates {
			if run.parked[g] && !run.released[g] {
				acts = append(acts, act{"release", g})
			}
		}
		if len(acts) == 0 {
			break
		}
		sel := 0
		if step < len(p.Order) {
			sel = p.Order[step]
		}
		a := acts[mod(sel, len(acts))]
		switch a.kind {
		case "start":
			pp := run.polls[a.k]
			nextPoll++
			if pp.spec.Gate != "" && !run.quiescent() {
				res.Label("par:gate-skipped:storage-not-quiescent")
			} else if pp.spec.Gate != "" {
				if w.gateJ0 < 0 {
					w.gateJ0 = len(w.st.Journal)
				}
				g := w.st.AddGate(pp.spec.Gate, w.nthNext(run, pp.spec), pp.spec.AtExit)
				run.gates = append(run.gates, g)
				run.watch(g)
				run.specs = append(run.specs, pp.spec)
				run.parked = append(run.parked, false)
				run.released = append(run.released, false)
			}
			if run.held() > 0 {
				overlap = true // a poll is started while another one is held inside the library
			}
			pp.cands = []codeSnap{w.snap(m)}
			pp.started = true
			pp.obs.t0 = time.Now()
			go func() {
				defer run.notify()
				defer close(pp.done)
				r := pp.ag.Token(pp.form, pp.cred)
				pp.obs.t1 = time.Now()
				pp.obs.r = r
			}()
			sched = append(sched, fmt.Sprintf("start%d", a.k))
			var expired bool
			if events, expired = run.settle(events); expired {
				res.Label("par:schedule:request-neither-answered-nor-parked-within-bound")
			}
		case "event":
			ev := p.Events[a.k]
			nextEvent++
			quiet := run.quiescent()
			w.decide(i, Op{Kind: ev.Kind, Code: o.Code, User: ev.User})
			if m.approved {
				approvers[m.approver] = true
			}
			after := w.snap(m)
			for _, pp := range run.polls {
				if pp.started && !pp.fin {
					pp.cands = append(pp.cands, after)
					duringFlight = true
					if !quiet {
						pp.racy = true
					}
				}
			}
			sched = append(sched, ev.Kind)
		case "release":
			run.gates[a.k].Release()
			run.released[a.k] = true
			sched = append(sched, "release:"+gateName(run.specs[a.k]))
			events, _ = run.settle(events)
		}
	}
	for g := range run.gates {
		if run.parked[g] {
			res.Label("par:gate:" + gateName(run.specs[g]) + ":parked")
		} else {
			res.Label("par:gate:" + gateName(run.specs[g]) + ":not-reached")
		}
		run.gates[g].Release()
		run.released[g] = true
	}
	deadline := time.After(parJoin)
	for k, pp := range run.polls {
		if !pp.started {
			continue
		}
		select {
		case <-pp.done:
			pp.fin = true
		case <-deadline:
			// every blocking point the harness owns is open: the request is stuck inside the library (its goroutine is lost)
			res.Fail("C16:par:request-never-answered", "op %d (concurrent step %s; schedule %s): poll %d got no answer %v after every storage call was released", i, strings.Join(mix, ", "), strings.Join(sched, " "), k+1, parJoin)
			return
		}
	}
	for g := range run.gates {
		if run.gates[g].TimedOut {
			res.Label("par:gate-timed-out") // harness trouble (machine stalled): the interleaving was not the intended one
		}
	}
	if overlap {
		w.parOverlap = true
		res.Label("par:overlap-on-one-code")
	}
	if duringFlight {
		res.Label("par:decision-while-polls-in-flight")
	}
	res.Label(fmt.Sprintf("par:polls:%d", len(run.polls)), "par:mix:"+strings.Join(sortedCopy(mix), ","))
	desc := fmt.Sprintf("concurrent step on the code of %s [%s], schedule: %s", w.specs[m.owner].ID, strings.Join(mix, ", "), strings.Join(sched, " "))

	// ---- judge: every poll against the states it may have observed
	m.alt = nil
	for u := range approvers {
		m.alt = append(m.alt, u)
	}
	sort.Strings(m.alt)
	nTokens := 0
	for _, pp := range run.polls {
		r := pp.obs.r
		if r != nil && r.Panic == nil && r.Success() && (r.Str("access_token") != "" || r.Str("id_token") != "" || r.Str("refresh_token") != "") {
			pp.tokens = true
			nTokens++
		}
	}
	var outcome []string
	for k, pp := range run.polls {
		outcome = append(outcome, w.judgeParPoll(k, pp, wasRedeemed, nTokens, desc))
	}
	m.alt = nil
	if nTokens > 0 {
		m.redeemed = true
	}
	res.Label(fmt.Sprintf("par:outcome:%d-of-%d-tokens", nTokens, len(run.polls)))
	w.parSig = append(w.parSig, strings.Join(sched, " ")+" => "+strings.Join(outcome, ","))
	w.classes["par["+strings.Join(mix, ",")+"]@"+strings.Join(sched, " ")+"=>"+strings.Join(outcome, ",")] = true
}

func sortedCopy(l []string) []string {
	c := append([]string{}, l...)
	sort.Strings(c)
	return c
}

// judgeParPoll is the per-request oracle of one poll of a concurrent step; it returns the observed outcome.
func (w *world) judgeParPoll(k int, pp *parPoll, wasRedeemed bool, nTokens int, desc string) string {
	res, c := w.res, w.c
	p := &pp.obs
	i, m, r := p.i, p.m, p.r
	cfg := c.Clients[p.j]
	who := fmt.Sprintf("op %d, poll %d (%s as %s, presentation %s, body client_id %q) of the %s", i, k+1, relOf(m, p.ident), identName(w, p.ident), p.pres, p.bodyID, desc)
	if r == nil {
		res.Fail("C16:par:request-never-answered", "%s: no answer recorded", who)
		return "none"
	}
	if r.Panic != nil {
		res.Fail("C16:panic@"+r.PanicFrame(), "%s: %s", who, r.Describe())
		return "panic"
	}
	gotTokens, gotErr := pp.tokens, r.OAuthError()

	// the states the request may have observed
	var states []codeState
	var names []string
	everApproved, approvedUndenied := false, false
	for _, s := range pp.cands {
		cs := codeState{approved: s.approved, denied: s.denied, redeemed: wasRedeemed, clock: w.clockOf(m, s.expired, p.t0, p.t1)}
		states = append(states, cs)
		if n := cs.name(); len(names) == 0 || names[len(names)-1] != n {
			names = append(names, n)
		}
		if s.approved {
			everApproved = true
			if !s.denied {
				approvedUndenied = true
			}
		}
	}
	possible := strings.Join(names, " -> ")

	// --- soundness: whenever tokens come out, every premise of the statement must hold in some possible state
	if gotTokens {
		switch {
		case !everApproved:
			res.Fail("C16:tokens-without-approval", "%s: returned tokens although no user approval was in force in any state the request can have seen (%s): %s", who, possible, r.Describe())
		case !approvedUndenied && !pp.racy:
			res.Fail("C16:tokens-after-denial", "%s: the user had denied in every state the request can have seen (%s) but the poll returned tokens: %s", who, possible, r.Describe())
		case p.ident != m.owner:
			res.Fail("C16:tokens-to-foreign-client", "%s: flow started by %s, the poll returned tokens on %s (states %s): %s", who, w.specs[m.owner].ID, c.Router, possible, r.Describe())
		case !p.proven && !odd(cfg.Kind):
			res.Fail("C16:tokens-to-unauthenticated-confidential", "%s: confidential client %s obtained device tokens without proof of identity on %s: %s", who, w.specs[p.j].ID, c.Router, r.Describe())
		}
		w.checkTokens(i, r, m, p.before)
	} else if r.Success() {
		res.Fail("C16:poll-2xx-without-tokens", "%s: token endpoint answered %d without tokens and without refusing: %s", who, r.Status, r.Describe())
	}

	// --- expectation: union over the possible states
	var expNames []string
	seen := map[string]bool{}
	grey, tokensOK, refusalOK, anyCode := false, false, false, false
	var named []string
	for _, s := range states {
		e := w.expectOf(p, s)
		for _, n := range strings.Split(e.name, "|") {
			if !seen[n] {
				seen[n] = true
				expNames = append(expNames, n)
			}
		}
		switch {
		case e.grey:
			grey = true
		case e.mustTokens:
			tokensOK = true
		default:
			refusalOK = true
			if e.named == nil {
				anyCode = true
			}
			named = append(named, e.named...)
		}
	}
	sort.Strings(expNames)
	expect := strings.Join(expNames, "|")
	switch {
	case grey:
	case pp.racy:
		expect, grey = "grey:decision-while-storage-not-quiescent", true
	case p.t1.Sub(p.t0) > time.Second:
		// as in the sequential oracle: the library bounds a poll with its own 4 s deadline (then slow_down)
		expect, grey = "grey:slow-request", true
	case !gotTokens && tokensOK && nTokens > 0:
		// another poll redeemed the code before or while this one ran: the statement leaves the loser's answer open
		expect, grey = "grey:redeemed-by-concurrent-poll", true
	}
	got := gotErr
	if gotTokens {
		got = "tokens"
	}
	rel := relOf(m, p.ident)
	res.Label("par-poll:"+expect, "par-got:"+got, "poll:"+expect, "got:"+got)
	if len(pp.cands) > 1 {
		res.Label("par-poll:several-possible-states")
	}
	if rel == "owner" && !grey {
		res.Label("par-owner-poll-in-state:" + possible)
	}
	if grey {
		w.greyPolls++
	} else {
		w.asserted++
		w.interesting++
	}
	switch {
	case grey:
	case gotTokens:
		// judged by the soundness block above, with a specific fingerprint
	case !refusalOK:
		res.Fail("C16:approved-but-refused", "%s: %s (%s) polls its own approved, unexpired device code with the right credentials on %s, no other poll redeemed the code, and is refused (states %s): %s", who, w.specs[p.j].ID, cfg.Kind, c.Router, possible, r.Describe())
	default:
		if r.Success() {
			break // reported above
		}
		if !anyCode && !contains(named, gotErr) {
			res.Fail("C16:wrong-error:"+expect, "%s: a poll by the initiating client that can have seen the states %s must answer %s, got %q: %s", who, possible, expect, gotErr, r.Describe())
		}
		if mat := r.HasTokenMaterial(); len(mat) > 0 {
			res.Fail("C16:refusal-with-token-material", "%s: refusal carries %v: %s", who, mat, r.Describe())
		}
	}
	return got
}

// ---- prop -------------------------------------------------------------------------

const ruleIL = "concurrent histories (TestInterleave) = configuration as in TestRapid; 1-2 device authorizations, 0-2 sequential decisions / polls, then 1-2 (thorough 4) concurrent steps each followed by 0-2 sequential ops (poll by anybody, approve, deny, expire, authorize); " +
	"a concurrent step = 2-3 polls on ONE device code in flight at once: by the client that started the flow, by other clients authenticated as themselves / public clients naming themselves, authenticated with the owner's id in the body, the owner's id without proof " +
	"(shapes owner+foreign, foreign+owner, owner+owner, owner+cross, foreign+foreign, arbitrary), plus 0-3 user decisions (approve by user#, deny, expire); " +
	"the harness owns the interleaving: the first poll (later ones every other time) is parked in a generated storage call (GetDeviceAuthorizatonState, GetClientByClientID, AuthorizeClientIDSecret, GetKeyByIDAndClientID, CreateAccessToken, CreateAccessAndRefreshTokens, SigningKey, SetUserinfoFromScopes, GetPrivateClaimsFromScopes; on entry or on exit; next or next-but-one call); " +
	"the schedule is a generated sequence over {start next poll, apply next decision, release parked call k}, so decisions fall before, between and after the parked calls and the calls are released in any order; a started / released poll runs until it answers or parks; " +
	"oracle independent of the schedule: per poll the set of model states it can have observed = state at its start + state after every decision applied before it was known to have answered; tokens only to the owner with proof of identity, only if an approval was in force in one of those states and the user had not denied in all of them; " +
	"the owner's poll all of whose possible states are approved / not denied / unexpired gets tokens unless another poll redeemed the code before or during the step; a refusal to the owner names an error of one of the possible states; issued tokens carry owner, requested scopes and the subject of an approval that was in force; " +
	"the model then continues with the state after the step; non-trivial = a step in which a poll was started while another poll on the same issued code was parked inside the library; distinct = (router, issuer mode, alphabet class, dash class, set of sequential poll classes and (participants, schedule, outcomes) of the steps)"

var propIL = vkit.Prop[Case]{ID: "C16", Rule: ruleAll, Gen: genInterleave, Run: run}

// TestInterleave: histories built around overlapping polls on one device code (registered in check.json "tests").
func TestInterleave(t *testing.T) { propIL.Check(t) }
