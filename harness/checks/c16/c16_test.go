// Package c16: device grant — tokens only after user approval and only to the initiating client; named poll errors;
// shape of the device authorization response (property C16).
package c16

import (
	"encoding/base64"
	"encoding/json"
	"fmt"
	"math"
	"net/url"
	"runtime/debug"
	"sort"
	"strings"
	"testing"
	"time"

	"pgregory.net/rapid"

	"verif/harness/vkit"
)

// ---- case ------------------------------------------------------------------------

// ClientCfg is one of the three registered clients.
type ClientCfg struct {
	Kind    string `json:"kind"` // conf_basic | conf_post | conf_jwt | pub_native | pub_ua | odd_web_none | odd_native_basic
	Device  bool   `json:"device"`
	Refresh bool   `json:"refresh,omitempty"`
	JWTAT   bool   `json:"jwt_at,omitempty"`
	// PlainSecret: the client secret consists of URL-unreserved characters only (the default secret contains '/' and '+',
	// which only survive HTTP Basic authentication when the sender form-encodes them, RFC 6749 section 2.3.1)
	PlainSecret bool `json:"plain_secret,omitempty"`
}

// Op is one step of a history; operands are symbolic (indices resolved against the live state in run).
type Op struct {
	Kind    string   `json:"kind"`              // authorize | approve | deny | expire | poll | rpflow
	Client  int      `json:"client,omitempty"`  // authorize: initiating client; poll: polling client
	Pres    string   `json:"pres,omitempty"`    // right | id_only | wrong_secret | cross | none
	Other   int      `json:"other,omitempty"`   // cross: client whose id is put into the form body
	Scopes  []string `json:"scopes,omitempty"`  // authorize
	Code    int      `json:"code,omitempty"`    // index into the issued codes (mod their number)
	Unknown string   `json:"unknown,omitempty"` // poll with a code that was never issued: random | truncated | extended | empty | usercode
	User    int      `json:"user,omitempty"`    // approve: user index
	Timeout bool     `json:"timeout,omitempty"` // poll: storage time-out on GetDeviceAuthorizatonState
	// Stall (with Timeout): how the state lookup times out. "" = it answers context.DeadlineExceeded at once | wrapped = the same
	// wrapped with %w | ctx, ctx-wrapped = it stalls and relies on the deadline of the context it is handed (see stall_test.go)
	Stall string `json:"stall,omitempty"`
	Host    int      `json:"host,omitempty"`
	Fwd     int      `json:"fwd,omitempty"`
	// rpflow: a whole device flow driven through the library's own client helpers (see rpflow_test.go)
	RPAuth string `json:"rp_auth,omitempty"` // "" = as registered (secret / signer from key+kid / nothing) | keyfile (signer from key file data) | signer+secret
	AuthFn string `json:"auth_fn,omitempty"` // "" | header (httphelper.RequestAuthorization) | form (httphelper.FormAuthorization): extra auth params
	Via    string `json:"via,omitempty"`     // "" = rp.DeviceAuthorization + rp.DeviceAccessToken | client = client.CallDeviceAuthorizationEndpoint + client.PollDeviceAccessTokenEndpoint
	Decide string `json:"decide,omitempty"`  // approve | deny | expire | cancel: what happens to the code while the helper polls
	After  int    `json:"after,omitempty"`   // number of polls that are answered before the decision is applied
	PollUs int    `json:"poll_us,omitempty"` // interval handed to the polling helper, microseconds
	// par: 2-3 overlapping polls on one device code under a harness-owned interleaving (see interleave_test.go)
	Par *Par `json:"par,omitempty"`
}

// RTSub is one provider of a real-time case (TestExpiry): all providers of a case share one wait.
type RTSub struct {
	Router    string `json:"router"`
	LifetimeS int    `json:"lifetime_s"`
	PollS     int    `json:"poll_s"`
	Client    string `json:"client"`           // kind of the initiating client
	Decide    string `json:"decide,omitempty"` // "" (pending) | approve | deny, applied before the wait
}

// UCCase drives op.NewUserCode / op.NewDeviceCode directly.
type UCCase struct {
	DeviceBytes int `json:"device_bytes"`
}

type Case struct {
	ErrStyle   string         `json:"err_style,omitempty"` // how the storage words its own refusals (vkit.Store.refuse)
	Kind       string         `json:"kind"`                // history | usercode | realtime | stall
	Router     string         `json:"router,omitempty"`
	IssuerMode string         `json:"issuer_mode,omitempty"`
	Issuer     string         `json:"issuer,omitempty"`
	Insecure   bool           `json:"insecure,omitempty"`
	Device     vkit.DeviceCfg `json:"device"`
	UCClass    string         `json:"uc_class,omitempty"` // label only
	Clients    []ClientCfg    `json:"clients,omitempty"`
	Ops        []Op           `json:"ops,omitempty"`
	UC         *UCCase        `json:"uc,omitempty"`
	RT         []RTSub        `json:"rt,omitempty"`       // realtime
	ExtraMs    int            `json:"extra_ms,omitempty"` // realtime: wait = longest lifetime + 2 s guard + ExtraMs
	Stalls     []StallSub     `json:"stalls,omitempty"`   // stall (TestStall): providers whose state lookup really stalls, one shared wait
}

// ---- generators ------------------------------------------------------------------

const (
	alphaBase20 = "BCDFGHJKLMNPQRSTVWXZ"
	alphaDigits = "0123456789"
)

var (
	hosts     = []string{"op.example.com", "login.example.org:8443", "tenant-a.example.net"}
	fwdHosts  = []string{"", "edge.example.com", "idp.example.io"}
	scopePool = []string{"openid", "profile", "email", "offline_access", vkit.CustomScope, "api:read"}
	formPaths = []string{"/device", "/ui/device/verify", "/d"}
	runePool  = []rune("ABCDEFGHJKMNPQRSTUVWXYZabcdefghkmnpqrstuvwxyz23456789äöüéñßжщяλπΩ日本語한글😀🚀")
	nonASCII  = []string{"äöüßéèêñ", "абвгдежзик", "日本語漢字仮名", "αβγδεζηθ", "aé日😀Ж9", "😀😁😂🤣😃😄"}
	singles   = []string{"A", "7", "é", "日", "😀"}
	codeIdx   = []int{0, 0, 0, 0, 1, 1, 2, 3}
	pollEdges = []int{1, 1, 1, 2, 4, 5, 6, 60, 3600}
	kindsOK   = []string{"conf_basic", "conf_basic", "conf_post", "conf_jwt", "pub_native", "pub_native", "pub_ua"}
	kindsAll  = append(append([]string{}, kindsOK...), kindsOK...)
)

func init() { kindsAll = append(kindsAll, "odd_web_none", "odd_native_basic") }

func genUserCodeCfg(t *rapid.T, d *vkit.DeviceCfg) string {
	class := rapid.SampledFrom([]string{"base20", "base20", "digits", "nonascii", "nonascii", "single", "generated", "generated"}).Draw(t, "ucclass")
	switch class {
	case "base20":
		d.CharSet = alphaBase20
	case "digits":
		d.CharSet = alphaDigits
	case "nonascii":
		d.CharSet = rapid.SampledFrom(nonASCII).Draw(t, "alphabet")
	case "single":
		d.CharSet = rapid.SampledFrom(singles).Draw(t, "alphabet")
	default:
		rs := rapid.SliceOfNDistinct(rapid.SampledFrom(runePool), 2, 12, func(r rune) rune { return r }).Draw(t, "alphabet")
		d.CharSet = string(rs)
	}
	d.CharAmount = rapid.IntRange(1, 16).Draw(t, "length")
	d.DashInterval = rapid.IntRange(0, d.CharAmount+1).Draw(t, "dash")
	return class
}

func genIssuer(t *rapid.T, c *Case) {
	c.IssuerMode = rapid.SampledFrom([]string{"static", "host", "forwarded"}).Draw(t, "issuermode")
	c.Insecure = rapid.IntRange(0, 4).Draw(t, "insecure") == 0
	if c.IssuerMode == "static" {
		if c.Insecure {
			c.Issuer = rapid.SampledFrom([]string{"http://op.example.com", "http://localhost:9998/x"}).Draw(t, "issuer")
		} else {
			c.Issuer = rapid.SampledFrom([]string{"https://op.example.com", "https://op.example.com/tenant", "https://id.example.org:8443/a/b"}).Draw(t, "issuer")
		}
		return
	}
	c.Issuer = rapid.SampledFrom([]string{"", "", "/tenant", "oidc"}).Draw(t, "issuerpath")
}

func genScopes(t *rapid.T) []string {
	if rapid.IntRange(0, 9).Draw(t, "noscope") == 0 {
		return nil
	}
	s := rapid.SliceOfNDistinct(rapid.SampledFrom(scopePool), 1, 4, func(s string) string { return s }).Draw(t, "scopes")
	if rapid.IntRange(0, 2).Draw(t, "openid") > 0 && !contains(s, "openid") {
		s = append([]string{"openid"}, s...)
	}
	return s
}

func genCase(t *rapid.T) Case {
	c := genCase0(t)
	// drawn last so that the rest of the case does not depend on it
	if rapid.Bool().Draw(t, "errstyled") {
		c.ErrStyle = rapid.SampledFrom(vkit.ErrStyles).Draw(t, "errstyle")
	}
	return c
}

// genConfig: router, issuer strategy, device configuration and the three clients of a history case.
func genConfig(t *rapid.T) Case {
	c := Case{Kind: "history"}
	c.Router = rapid.SampledFrom([]string{"provider", "legacy"}).Draw(t, "router")
	genIssuer(t, &c)
	if rapid.IntRange(0, 7).Draw(t, "shortlife") == 0 {
		c.Device.LifetimeS = rapid.IntRange(0, 3).Draw(t, "lifetime")
	} else {
		c.Device.LifetimeS = rapid.IntRange(30, 3600).Draw(t, "lifetime")
	}
	switch rapid.IntRange(0, 9).Draw(t, "nopoll") {
	case 0:
		c.Device.PollS = 0
	case 1, 2, 3:
		// the smallest intervals, the interval a device assumes when none is announced (5 s) and its neighbours, long ones
		c.Device.PollS = rapid.SampledFrom(pollEdges).Draw(t, "polledge")
	default:
		c.Device.PollS = rapid.IntRange(1, 30).Draw(t, "poll")
	}
	c.Device.UserFormPath = rapid.SampledFrom(formPaths).Draw(t, "formpath")
	c.UCClass = genUserCodeCfg(t, &c.Device)

	for i := 0; i < 3; i++ {
		var cc ClientCfg
		if i == 0 {
			cc.Kind = rapid.SampledFrom(kindsOK).Draw(t, "kind0")
			cc.Device = true
		} else {
			cc.Kind = rapid.SampledFrom(kindsAll).Draw(t, fmt.Sprintf("kind%d", i))
			cc.Device = rapid.IntRange(0, 3).Draw(t, fmt.Sprintf("device%d", i)) > 0
		}
		cc.Refresh = rapid.Bool().Draw(t, fmt.Sprintf("refresh%d", i))
		cc.JWTAT = rapid.Bool().Draw(t, fmt.Sprintf("jwtat%d", i))
		cc.PlainSecret = rapid.IntRange(0, 3).Draw(t, fmt.Sprintf("plainsecret%d", i)) > 0
		c.Clients = append(c.Clients, cc)
	}
	return c
}

func genCase0(t *rapid.T) Case {
	c := genConfig(t)

	n := rapid.IntRange(2, vkit.Scale(14, 24)).Draw(t, "nops")
	for i := 0; i < n; i++ {
		var o Op
		kind := rapid.SampledFrom([]string{"authorize", "authorize", "authorize", "approve", "approve", "approve", "deny", "deny", "expire", "expire", "rpflow", "rpflow", "rpflow",
			"poll", "poll", "poll", "poll", "poll", "poll", "poll", "poll", "poll", "poll"}).Draw(t, "op")
		if i == 0 && rapid.IntRange(0, 4).Draw(t, "first") > 0 {
			kind = "authorize"
		}
		o.Kind = kind
		o.Host = rapid.IntRange(0, len(hosts)-1).Draw(t, "host")
		o.Fwd = rapid.SampledFrom([]int{0, 0, 1, 2}).Draw(t, "fwd")
		switch kind {
		case "authorize":
			o.Client = rapid.SampledFrom([]int{0, 0, 0, 1, 1, 2}).Draw(t, "client")
			o.Pres = rapid.SampledFrom([]string{"right", "right", "right", "right", "id_only", "cross", "cross"}).Draw(t, "pres")
			o.Other = rapid.IntRange(0, 2).Draw(t, "other")
			o.Scopes = genScopes(t)
		case "rpflow":
			genRPFlow(t, &o)
		case "approve":
			o.Code = rapid.SampledFrom(codeIdx).Draw(t, "code")
			o.User = rapid.IntRange(0, 2).Draw(t, "user")
		case "deny", "expire":
			o.Code = rapid.SampledFrom(codeIdx).Draw(t, "code")
		case "poll":
			genPoll(t, &o)
		}
		c.Ops = append(c.Ops, o)
	}
	return c
}

func genPoll(t *rapid.T, o *Op) {
	o.Code = rapid.SampledFrom(codeIdx).Draw(t, "code")
	o.Pres = rapid.SampledFrom([]string{"right", "right", "right", "right", "right", "right", "right", "id_only", "wrong_secret", "cross", "cross", "none"}).Draw(t, "pres")
	// Client < 0 means "the owner of the code" (resolved in run), so that owner polls are frequent
	if o.Pres == "cross" {
		// authenticated as an explicit client, the body names the owner of the code (Other < 0) or a third client
		o.Client = rapid.IntRange(0, 2).Draw(t, "client")
		o.Other = rapid.SampledFrom([]int{-1, -1, -1, 0, 1, 2}).Draw(t, "other")
	} else {
		o.Client = rapid.SampledFrom([]int{-1, -1, -1, -1, -1, -1, 0, 1, 2}).Draw(t, "client")
	}
	o.Timeout = rapid.IntRange(0, 7).Draw(t, "timeout") == 0
	if o.Timeout {
		o.Stall = rapid.SampledFrom(stallKindsSeq).Draw(t, "stall")
	}
	if rapid.IntRange(0, 9).Draw(t, "unknown") == 0 {
		o.Unknown = rapid.SampledFrom([]string{"random", "truncated", "extended", "empty", "usercode"}).Draw(t, "unknownkind")
	}
}

// genRPFlow: one device flow driven end to end through the library's client helpers.
func genRPFlow(t *rapid.T, o *Op) {
	o.Client = rapid.SampledFrom([]int{0, 0, 0, 1, 1, 2}).Draw(t, "client")
	o.Scopes = genScopes(t)
	o.RPAuth = rapid.SampledFrom([]string{"", "", "", "keyfile", "signer+secret"}).Draw(t, "rpauth")
	o.AuthFn = rapid.SampledFrom([]string{"", "", "header", "form"}).Draw(t, "authfn")
	o.Via = rapid.SampledFrom([]string{"", "", "", "client"}).Draw(t, "via")
	o.Decide = rapid.SampledFrom([]string{"approve", "approve", "approve", "deny", "expire", "cancel"}).Draw(t, "decide")
	o.After = rapid.SampledFrom([]int{0, 0, 1, 2}).Draw(t, "after")
	o.User = rapid.IntRange(0, 2).Draw(t, "user")
	o.PollUs = rapid.SampledFrom([]int{20, 100, 500, 1000}).Draw(t, "pollus")
}

func genUCCase(t *rapid.T) Case {
	c := Case{Kind: "usercode", UC: &UCCase{}}
	c.UCClass = genUserCodeCfg(t, &c.Device)
	c.UC.DeviceBytes = rapid.SampledFrom([]int{16, 16, 17, 20, 24, 32, 33, 64}).Draw(t, "devbytes")
	return c
}

func contains(l []string, s string) bool {
	for _, x := range l {
		if x == s {
			return true
		}
	}
	return false
}

// ---- reference model ---------------------------------------------------------------

// userCodeDefect checks code against the configured alphabet / length / dash layout:
// `amount` runes of the alphabet, a '-' after every `dash` runes (dash > 0) but never at the end.
func userCodeDefect(code, charset string, amount, dash int) string {
	alphabet := map[rune]bool{}
	for _, r := range charset {
		alphabet[r] = true
	}
	runes := []rune(code)
	n, group := 0, 0
	for i, r := range runes {
		if r == '-' {
			if dash <= 0 {
				return "contains '-' although the dash interval is 0"
			}
			if group != dash {
				return fmt.Sprintf("'-' at rune %d after a group of %d, want groups of %d", i, group, dash)
			}
			if i == len(runes)-1 {
				return "ends with '-'"
			}
			group = 0
			continue
		}
		if !alphabet[r] {
			return fmt.Sprintf("rune %q at %d is not in the configured alphabet", r, i)
		}
		n++
		group++
		if dash > 0 && group > dash {
			return fmt.Sprintf("group longer than the dash interval %d at rune %d", dash, i)
		}
	}
	if n != amount {
		return fmt.Sprintf("%d alphabet runes, want %d", n, amount)
	}
	return ""
}

// capacityBits is log2 of the number of user codes the config can produce.
func capacityBits(charset string, amount int) float64 {
	set := map[rune]bool{}
	for _, r := range charset {
		set[r] = true
	}
	return math.Log2(float64(len(set))) * float64(amount)
}

func alphabetSound(charset string) bool {
	if charset == "" {
		return false
	}
	return !strings.ContainsAny(charset, "-&=#%+?/ \t\r\n\"\\<>")
}

type codeM struct {
	dev, user      string
	owner          int
	scopes         []string
	issuedBefore   time.Time
	issuedAfter    time.Time
	approved       bool
	approver       string
	alt            []string // concurrent step: further users whose approval was in force while the polls of the step were in flight
	denied         bool
	expired        bool
	redeemed       bool
	withoutGrant   bool
	ownerSoundOnly bool
}

// approvedBy: sub is the user whose approval is (sequential history) or may have been (concurrent step) in force.
func (m *codeM) approvedBy(sub any) bool {
	s, ok := sub.(string)
	return ok && (s == m.approver || contains(m.alt, s))
}

// sameSet compares scope lists as sets; the empty string is not a scope (an empty scope parameter, which the library's
// client helpers send for "no scopes", is decoded by the provider into one empty entry).
func sameSet(a, b []string) bool {
	x, y := []string{}, []string{}
	for _, s := range a {
		if s != "" {
			x = append(x, s)
		}
	}
	for _, s := range b {
		if s != "" {
			y = append(y, s)
		}
	}
	sort.Strings(x)
	sort.Strings(y)
	if len(x) != len(y) {
		return false
	}
	for i := range x {
		if x[i] != y[i] {
			return false
		}
	}
	return true
}

// ---- execution ---------------------------------------------------------------------

func clientSpec(i int, cc ClientCfg) *vkit.ClientSpec {
	s := &vkit.ClientSpec{ID: fmt.Sprintf("dev-client-%d", i), ResponseTypes: []string{"code"}, RedirectURIs: []string{"https://rp.example.com/cb"},
		GrantTypes: []string{vkit.GCode}, JWTAccessToken: cc.JWTAT}
	if cc.Device {
		s.GrantTypes = append(s.GrantTypes, vkit.GDevice)
	}
	if cc.Refresh {
		s.GrantTypes = append(s.GrantTypes, vkit.GRefr)
	}
	secret := fmt.Sprintf("s3cr3t/%d+x", i)
	if cc.PlainSecret {
		secret = fmt.Sprintf("s3cr3t-%d_x", i)
	}
	switch cc.Kind {
	case "conf_basic":
		s.AppType, s.AuthMethod, s.Secret = "web", "client_secret_basic", secret
	case "conf_post":
		s.AppType, s.AuthMethod, s.Secret = "web", "client_secret_post", secret
	case "conf_jwt":
		s.AppType, s.AuthMethod, s.Keys = "web", "private_key_jwt", map[string]string{fmt.Sprintf("k%d", i): "rsa2"}
	case "pub_ua":
		s.AppType, s.AuthMethod = "user_agent", "none"
	case "odd_web_none":
		s.AppType, s.AuthMethod = "web", "none"
	case "odd_native_basic":
		s.AppType, s.AuthMethod, s.Secret = "native", "client_secret_basic", secret
	default: // pub_native
		s.AppType, s.AuthMethod = "native", "none"
	}
	return s
}

func odd(k string) bool      { return strings.HasPrefix(k, "odd_") }
func canCross(k string) bool { return k == "conf_basic" || k == "conf_jwt" }

type world struct {
	c           Case
	res         *vkit.Result
	st          *vkit.Store
	sut         *vkit.SUT
	ag          *vkit.Agent
	specs       []*vkit.ClientSpec
	codes       []*codeM
	seenDev     map[string]bool
	classes     map[string]bool
	asserted    int
	interesting int
	greyPolls   int
	// concurrent steps (interleave_test.go)
	parSteps   int
	parOverlap bool
	parSig     []string
	gateJ0     int // journal length when the first gate was registered (the store counts gated calls from then on); -1: none yet
	stall      *staller
	// polls whose stalling state lookup was ended by the library's own time-out (stall_test.go)
	stallWaited int
}

func (w *world) issuerFor(o Op) string {
	if w.c.IssuerMode == "static" {
		return w.c.Issuer
	}
	h := hosts[mod(o.Host, len(hosts))]
	if w.c.IssuerMode == "forwarded" && fwdHosts[mod(o.Fwd, len(fwdHosts))] != "" {
		h = fwdHosts[mod(o.Fwd, len(fwdHosts))]
	}
	scheme := "https"
	if w.c.Insecure {
		scheme = "http"
	}
	p := w.c.Issuer
	if p != "" && !strings.HasPrefix(p, "/") {
		p = "/" + p
	}
	return scheme + "://" + h + p
}

func (w *world) aim(o Op) {
	w.ag.Host = hosts[mod(o.Host, len(hosts))]
	w.ag.Forwarded = ""
	if f := fwdHosts[mod(o.Fwd, len(fwdHosts))]; f != "" {
		w.ag.Forwarded = "for=192.0.2.43;host=" + f + ";proto=https"
	}
}

// code resolves a symbolic code index: 0 is the most recently issued code, 1 the one before, ...
func (w *world) code(k int) *codeM { return w.codes[len(w.codes)-1-mod(k, len(w.codes))] }

func mod(a, n int) int {
	a %= n
	if a < 0 {
		a += n
	}
	return a
}

// cred builds the credential presentation; returns the index of the client the request is proven / claimed to come
// from (-1: nobody), whether a confidential identity is proven, and the effective presentation name.
func (w *world) cred(j int, pres string, other int, issuer string) (vkit.Cred, int, bool, string) {
	cl, kind := w.specs[j], w.c.Clients[j].Kind
	right := vkit.RightCred(cl, issuer)
	switch pres {
	case "none":
		return vkit.Cred{Kind: "none"}, -1, false, "none"
	case "id_only":
		if cl.AuthMethod == "none" {
			return right, j, true, "right"
		}
		return vkit.Cred{Kind: "none", ClientID: cl.ID}, j, false, "id_only"
	case "wrong_secret":
		switch cl.AuthMethod {
		case "client_secret_basic":
			return vkit.Cred{Kind: "basic", ClientID: cl.ID, Secret: cl.Secret + "x"}, -1, false, "wrong_secret"
		case "client_secret_post":
			return vkit.Cred{Kind: "post", ClientID: cl.ID, Secret: "x" + cl.Secret}, -1, false, "wrong_secret"
		case "private_key_jwt":
			// assertion naming the client but signed with a key that is not registered for it
			kid := ""
			for k := range cl.Keys {
				kid = k
			}
			now := time.Now()
			a := vkit.AssertionWith(cl.ID, cl.ID, []string{issuer}, kid, "rsa3", now.Add(-5*time.Second), now.Add(5*time.Minute), nil)
			return vkit.Cred{Kind: "assertion", Assertion: a}, -1, false, "wrong_secret"
		}
		return right, j, true, "right"
	case "cross":
		if canCross(kind) && other >= 0 && mod(other, 3) != j {
			cr := right
			cr.BodyID = w.specs[mod(other, 3)].ID
			return cr, j, true, "cross"
		}
	}
	return right, j, true, "right"
}

func run(c Case) (res *vkit.Result) {
	res = &vkit.Result{}
	defer func() {
		if p := recover(); p != nil {
			stack := string(debug.Stack())
			res.Fail("C16:panic@"+vkit.FirstLibFrame(stack), "panic: %v\n%s", p, stack)
		}
	}()
	if c.Kind == "usercode" {
		runUserCode(c, res)
		return res
	}
	if c.Kind == "realtime" {
		runRealtime(c, res)
		return res
	}
	if c.Kind == "stall" {
		runStall(c, res)
		return res
	}
	runHistory(c, res)
	return res
}

func newWorld(c Case, res *vkit.Result) *world {
	if len(c.Clients) != 3 || c.Device.CharSet == "" || c.Device.CharAmount < 1 {
		res.Grey = true
		res.Label("malformed-case")
		return nil
	}
	w := &world{c: c, res: res, seenDev: map[string]bool{}, classes: map[string]bool{}, gateJ0: -1, stall: &staller{}}
	for i, cc := range c.Clients {
		w.specs = append(w.specs, clientSpec(i, cc))
	}
	w.st = vkit.NewStore(w.specs, vkit.SignKeySpec{KeyName: "p256a", Alg: "ES256", KID: "sig1"}, vkit.StorePolicy{ErrStyle: c.ErrStyle})
	spec := vkit.DefaultProviderSpec(c.Router)
	spec.IssuerMode, spec.Issuer, spec.Insecure = c.IssuerMode, c.Issuer, c.Insecure
	spec.Device = c.Device
	spec.WrapStorage = w.stall.wrap
	sut, err := vkit.Build(spec, w.st)
	if err != nil {
		res.Fail("C16:provider-construction", "NewProvider refused a valid configuration %+v: %v", spec, err)
		return nil
	}
	w.sut, w.ag = sut, vkit.NewAgent(sut)
	return w
}

func runHistory(c Case, res *vkit.Result) {
	w := newWorld(c, res)
	if w == nil {
		return
	}

	for i, o := range c.Ops {
		switch o.Kind {
		case "authorize":
			w.authorize(i, o)
		case "approve", "deny", "expire":
			w.decide(i, o)
		case "poll":
			w.poll(i, o)
		case "rpflow":
			w.rpFlow(i, o)
		case "par":
			w.par(i, o)
		}
	}

	res.Label("router:"+c.Router, "issuer:"+c.IssuerMode, "uc:"+c.UCClass, "dash:"+dashClass(c.Device))
	res.NonTrivial = len(w.codes) > 0 && w.interesting > 0
	if w.parSteps > 0 {
		// concurrent histories: a poll was started while another poll on the same issued code was held inside the library
		res.NonTrivial = len(w.codes) > 0 && w.parOverlap
	}
	if w.asserted == 0 {
		res.Grey = true
	}
	keys := make([]string, 0, len(w.classes))
	for k := range w.classes {
		keys = append(keys, k)
	}
	sort.Strings(keys)
	res.Key = fmt.Sprintf("%s|%s|%s|%s|%s", c.Router, c.IssuerMode, c.UCClass, dashClass(c.Device), strings.Join(keys, ","))
	res.Info = map[string]any{"codes": len(w.codes), "asserted_polls": w.asserted, "grey_polls": w.greyPolls, "classes": keys}
	if w.parSteps > 0 {
		res.Info = map[string]any{"codes": len(w.codes), "asserted_polls": w.asserted, "grey_polls": w.greyPolls, "classes": keys, "concurrent_steps": w.parSteps, "schedules": w.parSig}
	}
}

func dashClass(d vkit.DeviceCfg) string {
	switch {
	case d.DashInterval == 0:
		return "none"
	case d.DashInterval == 1:
		return "every"
	case d.DashInterval < d.CharAmount:
		return "inner"
	case d.DashInterval == d.CharAmount:
		return "len"
	}
	return "beyond"
}

// ---- device authorization ------------------------------------------------------------

func (w *world) authorize(i int, o Op) {
	j := mod(o.Client, 3)
	issuer := w.issuerFor(o)
	pres := o.Pres
	if pres != "id_only" && pres != "cross" {
		pres = "right"
	}
	cr, _, proven, pres := w.cred(j, pres, o.Other, issuer)
	w.aim(o)
	t0 := time.Now()
	r := w.ag.DeviceAuthorize(strings.Join(o.Scopes, " "), cr)
	t1 := time.Now()
	w.judgeAuthz(i, o, j, pres, proven, issuer, r, t0, t1)
}

// judgeAuthz judges one device authorization response (request sent by the harness' agent or by the library's own client
// helper) and, when a code was issued, enters it into the model. proven: the presentation proves the client's identity.
func (w *world) judgeAuthz(i int, o Op, j int, pres string, proven bool, issuer string, r *vkit.Resp, t0, t1 time.Time) *codeM {
	res, c := w.res, w.c
	cfg := c.Clients[j]
	if r.Panic != nil {
		res.Fail("C16:panic@"+r.PanicFrame(), "op %d device_authorize: %s", i, r.Describe())
		return nil
	}
	// a refusal is excused when the freshly drawn user code really collided with a live one (tiny code spaces)
	collisionPossible := false
	for _, e := range w.st.CallsOf(r.Req) {
		if e.Method == "StoreDeviceAuthorization" && len(e.Args) == 3 {
			for _, m := range w.codes {
				if m.user == e.Args[2] {
					collisionPossible = true
					if bits := capacityBits(c.Device.CharSet, c.Device.CharAmount); bits >= 48 {
						// <= 24 codes in a space of >= 2^48: a repeat is not chance (p < 2e-12 per history)
						res.Fail("C16:authz:user-code-repeated", "op %d: user code %q drawn again although the configured code space has %.0f bit", i, m.user, bits)
					}
				}
			}
		}
	}
	mustAccept := cfg.Device && !odd(cfg.Kind) && (pres == "right" || pres == "cross" || pres == "rp") && proven && !collisionPossible
	class := "authz:" + pres
	switch {
	case !cfg.Device:
		class += ":no-grant"
	case odd(cfg.Kind):
		class += ":odd-client"
	case collisionPossible:
		class += ":user-code-collision"
	case strings.HasPrefix(pres, "rp"):
		if !mustAccept {
			class += ":presentation-outside-domain"
		}
	case !mustAccept:
		class += ":unauthenticated-confidential"
	}
	if !r.Success() {
		res.Label(class + ":refused")
		if mustAccept {
			res.Fail("C16:authz:refused", "op %d: device authorization by %s (%s, presentation %s, device grant registered) on %s was refused: %s", i, w.specs[j].ID, cfg.Kind, pres, c.Router, r.Describe())
		}
		return nil
	}
	res.Label(class + ":issued")
	w.classes[class] = true
	body := r.JSON()
	if body == nil {
		res.Fail("C16:authz:not-json", "op %d: device authorization answered %d with a body that is not a JSON object: %s", i, r.Status, r.Describe())
		return nil
	}
	dev, _ := body["device_code"].(string)
	uc, _ := body["user_code"].(string)

	// device code: unguessable = at least 128 bit of base64url, never repeated
	raw, derr := base64.RawURLEncoding.DecodeString(strings.TrimRight(dev, "="))
	if derr != nil || len(raw) < 16 {
		res.Fail("C16:authz:device-code-weak", "op %d: device_code %q is not base64url of >= 16 bytes (decoded %d bytes, err %v)", i, dev, len(raw), derr)
	}
	if w.seenDev[dev] {
		res.Fail("C16:authz:device-code-repeated", "op %d: device_code %q was already handed out earlier in this history", i, dev)
	}
	w.seenDev[dev] = true

	// user code: alphabet / length / dash layout of the configuration
	if alphabetSound(c.Device.CharSet) {
		if d := userCodeDefect(uc, c.Device.CharSet, c.Device.CharAmount, c.Device.DashInterval); d != "" {
			res.Fail("C16:authz:user-code-layout", "op %d: user_code %q does not match config {alphabet %q, length %d, dash interval %d}: %s", i, uc, c.Device.CharSet, c.Device.CharAmount, c.Device.DashInterval, d)
		}
	} else {
		res.Label("authz:alphabet-outside-domain")
	}

	// verification URIs on the issuer of this request
	w.checkURIs(i, body, issuer, uc)

	// lifetime and poll interval as configured
	if v, ok := body["expires_in"].(float64); !ok || int(v) != c.Device.LifetimeS || v != float64(int(v)) {
		res.Fail("C16:authz:expires-in", "op %d: expires_in = %v, configured lifetime %d s", i, body["expires_in"], c.Device.LifetimeS)
	}
	if v, present := body["interval"]; present || c.Device.PollS != 0 {
		if f, ok := v.(float64); !ok || f != float64(c.Device.PollS) {
			res.Fail("C16:authz:interval", "op %d: interval = %v, configured poll interval %d s", i, v, c.Device.PollS)
		}
	}

	m := &codeM{dev: dev, user: uc, owner: j, scopes: o.Scopes, issuedBefore: t0, issuedAfter: t1, withoutGrant: !cfg.Device,
		ownerSoundOnly: !cfg.Device || odd(cfg.Kind)}
	// what the storage was told must be what the client was told (the user approves by user code)
	e := w.st.DeviceByUserCode(uc)
	if e == nil || e.DeviceCode != dev {
		res.Fail("C16:authz:stored-pair-differs", "op %d: response pairs user_code %q with device_code %q, the storage was given another pair (%+v)", i, uc, dev, e)
		return nil
	}
	if e.State.ClientID != w.specs[j].ID {
		res.Fail("C16:authz:stored-for-other-client", "op %d: flow started by %s (presentation %s) was stored for client %q", i, w.specs[j].ID, pres, e.State.ClientID)
		// keep going with the client that really started it: polls decide whether it matters
	}
	// the scopes the user is asked to approve (and the tokens will carry) are the requested ones
	if !sameSet(e.State.Scopes, o.Scopes) {
		res.Fail("C16:authz:stored-scopes", "op %d: flow started by %s (presentation %s) with scopes %v, the storage was handed scopes %v", i, w.specs[j].ID, pres, o.Scopes, e.State.Scopes)
	}
	// the expiry the storage is told is the lifetime the client is told (expires_in = configured lifetime): the library
	// read the clock between t0 and t1, so expires lies in [t0+lifetime, t1+lifetime]; 2 s guard on both sides
	life := time.Duration(c.Device.LifetimeS) * time.Second
	if exp := e.State.Expires; exp.Before(t0.Add(life-2*time.Second)) || exp.After(t1.Add(life+2*time.Second)) {
		res.Fail("C16:authz:stored-expiry", "op %d: configured lifetime %d s (expires_in=%v) but the storage was told the code expires %.1f s after the request began / %.1f s after it ended (poll interval %d s)",
			i, c.Device.LifetimeS, body["expires_in"], exp.Sub(t0).Seconds(), exp.Sub(t1).Seconds(), c.Device.PollS)
	} else {
		res.Label("authz:stored-expiry-checked")
	}
	w.codes = append(w.codes, m)
	return m
}

func (w *world) checkURIs(i int, body map[string]any, issuer, uc string) {
	res, c := w.res, w.c
	if c.Device.UserFormURL != "" || !strings.HasPrefix(c.Device.UserFormPath, "/") {
		res.Label("authz:uri-grey")
		return
	}
	iu, err := url.Parse(issuer)
	if err != nil {
		return
	}
	vu, _ := body["verification_uri"].(string)
	vc, _ := body["verification_uri_complete"].(string)
	onIssuer := func(name, raw string) *url.URL {
		u, err := url.Parse(raw)
		if err != nil || raw == "" {
			res.Fail("C16:authz:verification-uri", "op %d: %s %q is not a URL (%v)", i, name, raw, err)
			return nil
		}
		if u.Scheme != iu.Scheme || u.Host != iu.Host {
			res.Fail("C16:authz:verification-uri", "op %d: %s %q is not on the issuer of the request %q", i, name, raw, issuer)
			return nil
		}
		if u.Path != c.Device.UserFormPath && u.Path != strings.TrimSuffix(iu.Path, "/")+c.Device.UserFormPath {
			res.Fail("C16:authz:verification-uri-path", "op %d: %s %q does not point at the configured user form path %q under issuer %q", i, name, raw, c.Device.UserFormPath, issuer)
			return nil
		}
		return u
	}
	if u := onIssuer("verification_uri", vu); u != nil && (u.RawQuery != "" || u.Fragment != "") {
		res.Fail("C16:authz:verification-uri", "op %d: verification_uri %q carries a query / fragment", i, vu)
	}
	if u := onIssuer("verification_uri_complete", vc); u != nil {
		q, err := url.ParseQuery(u.RawQuery)
		if err != nil || len(q["user_code"]) != 1 || q.Get("user_code") != uc {
			res.Fail("C16:authz:verification-uri-complete", "op %d: verification_uri_complete %q does not carry user_code=%q (parsed %v, err %v)", i, vc, uc, q, err)
		}
	}
}

// ---- user decisions --------------------------------------------------------------------

func (w *world) decide(i int, o Op) {
	if len(w.codes) == 0 {
		w.res.Label("noop:" + o.Kind)
		return
	}
	m := w.code(o.Code)
	switch o.Kind {
	case "approve":
		e := w.st.DeviceByUserCode(m.user)
		if e == nil {
			return
		}
		user := vkit.AllUserIDs[mod(o.User, len(vkit.AllUserIDs))]
		w.st.ApproveDevice(e.DeviceCode, user)
		m.approved, m.approver = true, user
	case "deny":
		w.st.DenyDevice(m.dev)
		m.denied = true
	case "expire":
		w.st.ExpireDevice(m.dev)
		m.expired = true
	}
}

// ---- polling ---------------------------------------------------------------------------

// preparedPoll is a device-code token request ready to be sent.
type preparedPoll struct {
	obs  pollObs
	form url.Values
	cred vkit.Cred
}

// prepPoll resolves the symbolic operands of a poll op against the live model.
func (w *world) prepPoll(i int, o Op) *preparedPoll {
	var m *codeM
	code := ""
	unknown := o.Unknown
	if len(w.codes) == 0 && unknown == "" {
		unknown = "random"
	}
	if len(w.codes) > 0 {
		m = w.code(o.Code)
		code = m.dev
	}
	switch unknown {
	case "random":
		code = base64.RawURLEncoding.EncodeToString([]byte(fmt.Sprintf("never-issued-%04d!", i)))
	case "truncated":
		if m != nil && len(code) > 1 {
			code = code[:len(code)-1]
		} else {
			code = "AAAA"
		}
	case "extended":
		code += "A"
	case "empty":
		code = ""
	case "usercode":
		if m != nil {
			code = m.user
		} else {
			code = "BCDF-GHJK"
		}
	}
	if unknown != "" {
		if w.seenDev[code] {
			unknown = "" // the derived string happens to be a real code of this history: treat it as such
			for _, x := range w.codes {
				if x.dev == code {
					m = x
				}
			}
		} else {
			m = nil
		}
	}

	j := o.Client
	if j < 0 || j > 2 {
		if m != nil {
			j = m.owner
		} else {
			j = 0
		}
	}
	other := o.Other
	if other < 0 && m != nil {
		other = m.owner // cross: body names the owner of the code
	}
	issuer := w.issuerFor(o)
	cr, ident, proven, pres := w.cred(j, o.Pres, other, issuer)

	form := url.Values{"grant_type": {vkit.GDevice}, "device_code": {code}}
	before := map[string]bool{}
	for id := range w.st.Tokens {
		before[id] = true
	}
	return &preparedPoll{form: form, cred: cr, obs: pollObs{i: i, m: m, code: code, unknown: unknown, j: j, ident: ident, proven: proven, pres: pres, bodyID: cr.BodyID,
		timeout: o.Timeout, before: before}}
}

func (w *world) poll(i int, o Op) {
	pp := w.prepPoll(i, o)
	w.aim(o)
	if o.Timeout {
		switch o.Stall {
		case "":
			w.st.SetFaults(vkit.Fault{Method: "GetDeviceAuthorizatonState", Kind: "deadline"})
		case "wrapped":
			w.st.SetFaults(vkit.Fault{Method: "GetDeviceAuthorizatonState", Kind: "deadline-wrapped"})
		default:
			// the lookup stalls; in a history nobody really waits (see staller)
			w.stall.arm(o.Stall, false, nil)
		}
		pp.obs.stallKind = o.Stall
	}
	pp.obs.t0 = time.Now()
	pp.obs.r = w.ag.Token(pp.form, pp.cred)
	pp.obs.t1 = time.Now()
	w.st.SetFaults()
	pp.obs.stall = w.stall.disarm()
	w.judgePoll(pp.obs)
}

// pollObs is one observed device-code token request: who sent it (as which client, with which presentation), for which
// code of the model (nil: never issued), and what came back.
type pollObs struct {
	i            int
	m            *codeM
	code         string
	unknown      string
	j, ident     int
	proven       bool
	pres, bodyID string
	timeout      bool
	before       map[string]bool // ids of the access tokens the storage held before the request
	r            *vkit.Resp
	t0, t1       time.Time
	stallKind    string     // Op.Stall / StallSub.Stall of a poll whose state lookup times out
	stall        []stallObs // what the stalling lookup saw (staller)
	stalled      bool       // the harness itself made the request slow (real stall): the 1 s rule for stalled requests does not apply
}

// judgePoll is the per-request oracle of a device-code token request (sent by the harness' agent or by the library's
// polling helper).
func (w *world) judgePoll(p pollObs) {
	res, c := w.res, w.c
	i, m, code, unknown, j, ident, proven, pres, before, r, t0, t1 := p.i, p.m, p.code, p.unknown, p.j, p.ident, p.proven, p.pres, p.before, p.r, p.t0, p.t1
	o := struct{ Timeout bool }{p.timeout}
	cr := struct{ BodyID string }{p.bodyID}
	cfg := c.Clients[j]
	if r.Panic != nil {
		res.Fail("C16:panic@"+r.PanicFrame(), "op %d poll: %s", i, r.Describe())
		return
	}
	wasRedeemed := m != nil && m.redeemed
	gotTokens := r.Success() && (r.Str("access_token") != "" || r.Str("id_token") != "" || r.Str("refresh_token") != "")
	gotErr := r.OAuthError()

	// --- state of the code, with the clock guard for its natural lifetime
	state, rel := "unknown", "nobody"
	var cs codeState
	if m != nil {
		cs = codeState{approved: m.approved, denied: m.denied, redeemed: wasRedeemed, clock: w.clockOf(m, m.expired, t0, t1)}
		state = cs.name()
		rel = relOf(m, ident)
	}

	// --- soundness: whenever tokens come out, every premise of the statement must hold
	if gotTokens {
		switch {
		case m == nil:
			res.Fail("C16:tokens-for-unknown-code", "op %d: poll with never-issued device_code %q (%s) returned tokens: %s", i, code, unknown, r.Describe())
		case !m.approved:
			res.Fail("C16:tokens-without-approval", "op %d: device code in state %s returned tokens before any user approved it: %s", i, state, r.Describe())
		case m.denied:
			res.Fail("C16:tokens-after-denial", "op %d: device code was denied by the user (state %s) but the poll returned tokens: %s", i, state, r.Describe())
		case ident != m.owner:
			res.Fail("C16:tokens-to-foreign-client", "op %d: flow started by %s, poll presented as %s (%s, body client_id %q) returned tokens on %s: %s", i, w.specs[m.owner].ID, identName(w, ident), pres, cr.BodyID, c.Router, r.Describe())
		case !proven && !odd(cfg.Kind):
			res.Fail("C16:tokens-to-unauthenticated-confidential", "op %d: confidential client %s obtained device tokens with presentation %s (no proof of identity) on %s: %s", i, w.specs[j].ID, pres, c.Router, r.Describe())
		case o.Timeout:
			res.Fail("C16:tokens-despite-storage-timeout", "op %d: storage timed out reading the device state but tokens were issued: %s", i, r.Describe())
		}
		if m != nil {
			w.checkTokens(i, r, m, before)
			m.redeemed = true
		}
	} else if r.Success() {
		res.Fail("C16:poll-2xx-without-tokens", "op %d: token endpoint answered %d without tokens and without refusing: %s", i, r.Status, r.Describe())
	}

	// --- a state lookup that stalls: the library, not the device, has to bound it (stall_test.go)
	if w.judgeStall(&p, state, rel) {
		return
	}

	// --- expectation per model
	e := w.expectOf(&p, cs)
	expect, named, mustTokens, grey := e.name, e.named, e.mustTokens, e.grey
	if !grey && t1.Sub(t0) > time.Second && !p.stalled {
		// the library bounds the storage call of a poll with its own 4 s deadline (then slow_down): a request that
		// was stalled this long (machine load) proves nothing about named errors or completeness
		expect, grey, mustTokens, named = "grey:slow-request", true, false, nil
	}
	got := gotErr
	if gotTokens {
		got = "tokens"
	}
	res.Label("poll:"+expect, "got:"+got)
	if strings.HasPrefix(pres, "rp") {
		res.Label("rp-poll:" + expect)
	}
	if rel == "owner" && !grey {
		res.Label("owner-poll-in-state:" + state)
	}
	tmo := fmt.Sprint(o.Timeout)
	if o.Timeout && p.stallKind != "" {
		tmo += ":" + p.stallKind
	}
	cls := fmt.Sprintf("%s/%s/%s/%s>%s", state, rel, pres, tmo, expect)
	w.classes[cls] = true
	if grey {
		w.greyPolls++
	} else {
		w.asserted++
		if m != nil && (state != "pending" || rel != "owner" || pres != "right" || o.Timeout) {
			w.interesting++
		}
	}
	switch {
	case grey:
	case mustTokens:
		if !gotTokens {
			res.Fail("C16:approved-but-refused", "op %d: %s (%s) polls its own approved, unexpired device code with the right credentials on %s and is refused: %s", i, w.specs[j].ID, cfg.Kind, c.Router, r.Describe())
		}
	case gotTokens:
		// already reported by the soundness block with a specific fingerprint
	default:
		if r.Success() {
			break // reported above
		}
		if named != nil && !contains(named, gotErr) {
			res.Fail("C16:wrong-error:"+expect, "op %d: poll by the initiating client in state %s (timeout=%v) must answer %s, got %q: %s", i, state, o.Timeout, expect, gotErr, r.Describe())
		}
		if mat := r.HasTokenMaterial(); len(mat) > 0 {
			res.Fail("C16:refusal-with-token-material", "op %d: refusal carries %v: %s", i, mat, r.Describe())
		}
	}
}

// codeState is what the model knows about a device code at one moment.
type codeState struct {
	approved, denied, redeemed bool
	clock                      string // live | expired | window (natural lifetime within the 2 s guard)
}

func (s codeState) name() string {
	state := "pending"
	switch {
	case s.denied && s.approved:
		state = "denied+approved"
	case s.denied:
		state = "denied"
	case s.approved:
		state = "approved"
	}
	if s.clock != "live" {
		state += "+" + s.clock
	}
	return state
}

// clockOf: position of a request [t0,t1] relative to the lifetime of the code (forced: the test side expired the code).
func (w *world) clockOf(m *codeM, forced bool, t0, t1 time.Time) string {
	life := time.Duration(w.c.Device.LifetimeS) * time.Second
	switch {
	case forced || t0.Sub(m.issuedAfter) > life+2*time.Second:
		return "expired"
	case t1.Sub(m.issuedBefore)+2*time.Second < life:
		return "live"
	}
	return "window"
}

func relOf(m *codeM, ident int) string {
	switch {
	case ident < 0:
		return "nobody"
	case ident == m.owner:
		return "owner"
	}
	return "foreign"
}

// expectation: what the statement says about one poll of a code in one state.
type expectation struct {
	name       string   // class name
	named      []string // acceptable OAuth error codes when the statement names them
	mustTokens bool
	grey       bool
}

// expectOf is the model: the expected answer to poll p when the code is in state s.
func (w *world) expectOf(p *pollObs, s codeState) expectation {
	c := w.c
	m, ident, pres, proven, unknown := p.m, p.ident, p.pres, p.proven, p.unknown
	cfg := c.Clients[p.j]
	clock := s.clock
	switch {
	case m == nil:
		return expectation{name: "refuse:unknown-code:" + unknown}
	case ident < 0:
		return expectation{name: "refuse:no-valid-identity:" + pres}
	case ident != m.owner:
		return expectation{name: "refuse:foreign-client:" + pres}
	case m.ownerSoundOnly || odd(cfg.Kind) || !cfg.Device:
		return expectation{name: "grey:owner-outside-domain", grey: true}
	case pres == "rp+secret" || pres == "rp-rawsecret":
		// a relying party that sends two authentication methods at once, or a secret with reserved characters unencoded
		// in the Basic header: the statement does not say what the provider makes of those; soundness only
		return expectation{name: "grey:rp-presentation-outside-domain", grey: true}
	case !proven:
		return expectation{name: "refuse:unauthenticated-confidential"}
	case pres == "cross":
		return expectation{name: "grey:own-code-with-foreign-body-id", grey: true}
	case p.timeout:
		return expectation{name: "slow_down", named: []string{"slow_down"}}
	case s.redeemed && !s.denied:
		return expectation{name: "grey:already-redeemed", grey: true}
	case s.denied:
		if clock != "live" {
			return expectation{name: "access_denied|expired_token", named: []string{"access_denied", "expired_token"}}
		}
		return expectation{name: "access_denied", named: []string{"access_denied"}}
	case s.approved:
		switch {
		case clock != "live":
			return expectation{name: "grey:approved+expired", grey: true}
		case c.Router == "provider" && cfg.Kind == "conf_post":
			// the Provider router authenticates device polls by Basic or assertion only; the statement does not
			// promise which presentations are supported, so completeness is not asserted here
			return expectation{name: "grey:approved:post-auth-on-provider", grey: true}
		}
		return expectation{name: "tokens", mustTokens: true}
	case clock == "expired":
		return expectation{name: "expired_token", named: []string{"expired_token"}}
	case clock == "window":
		return expectation{name: "authorization_pending|expired_token", named: []string{"authorization_pending", "expired_token"}}
	}
	return expectation{name: "authorization_pending", named: []string{"authorization_pending"}}
}

func identName(w *world, ident int) string {
	if ident < 0 {
		return "nobody"
	}
	return w.specs[ident].ID
}

// checkTokens: the issued tokens carry the approving user's subject and the requested scopes, for the initiating client.
func (w *world) checkTokens(i int, r *vkit.Resp, m *codeM, before map[string]bool) {
	res := w.res
	owner := w.specs[m.owner]
	body := r.JSON()
	want := m.scopes
	if s, ok := body["scope"].(string); ok || len(want) > 0 {
		if !sameSet(strings.Fields(s), want) {
			res.Fail("C16:token:response-scope", "op %d: token response scope %q, requested %v", i, s, want)
		}
	}
	// what the storage recorded for the new access token(s)
	newToks := 0
	ids := make([]string, 0)
	for id := range w.st.Tokens {
		if !before[id] {
			ids = append(ids, id)
		}
	}
	sort.Strings(ids)
	for _, id := range ids {
		t, _ := w.st.TokenSnapshot(id)
		newToks++
		if !m.approvedBy(t.Subject) {
			res.Fail("C16:token:subject", "op %d: access token %s issued for subject %q, the approving user is %q", i, id, t.Subject, m.approver)
		}
		if !sameSet(t.Scopes, want) {
			res.Fail("C16:token:scopes", "op %d: access token %s issued with scopes %v, requested %v", i, id, t.Scopes, want)
		}
		if t.ClientID != owner.ID {
			res.Fail("C16:token:client", "op %d: access token %s issued for client %q, flow started by %q", i, id, t.ClientID, owner.ID)
		}
	}
	at := r.Str("access_token")
	if at == "" {
		res.Fail("C16:token:no-access-token", "op %d: successful device token response without access_token: %s", i, r.Describe())
		return
	}
	if parts := strings.Split(at, "."); len(parts) == 3 {
		if p := jwtPayload(at); p != nil {
			res.Label("token:jwt-at")
			if !m.approvedBy(p["sub"]) {
				res.Fail("C16:token:subject", "op %d: JWT access token sub=%v, the approving user is %q", i, p["sub"], m.approver)
			}
			// the library's JWT access tokens carry no scope claim (scopes live in the storage record and the
			// response); a claim that is present must be the requested set
			if _, has := p["scope"]; has && !sameSet(scopeClaim(p["scope"]), want) {
				res.Fail("C16:token:scopes", "op %d: JWT access token scope=%v, requested %v", i, p["scope"], want)
			}
		}
	} else {
		res.Label("token:opaque-at")
	}
	if idt := r.Str("id_token"); idt != "" {
		res.Label("token:id_token")
		if p := jwtPayload(idt); p == nil {
			res.Fail("C16:token:id-token-garbled", "op %d: id_token is not a JWT: %q", i, idt)
		} else {
			if !m.approvedBy(p["sub"]) {
				res.Fail("C16:token:subject", "op %d: id_token sub=%v, the approving user is %q", i, p["sub"], m.approver)
			}
			if !contains(scopeClaim(p["aud"]), owner.ID) {
				res.Fail("C16:token:client", "op %d: id_token aud=%v does not name the initiating client %q", i, p["aud"], owner.ID)
			}
		}
	}
	if rt := r.Str("refresh_token"); rt != "" {
		res.Label("token:refresh")
		if s, ok := w.st.RefreshSnapshot(rt); ok {
			if !m.approvedBy(s.Subject) || s.ClientID != owner.ID || !sameSet(s.Scopes, want) {
				res.Fail("C16:token:refresh-binding", "op %d: refresh token bound to (%q,%q,%v), want (%q,%q,%v)", i, s.Subject, s.ClientID, s.Scopes, m.approver, owner.ID, want)
			}
		}
	}
	// end to end: what the access token string stands for at the userinfo endpoint
	if contains(want, "openid") {
		ui := w.ag.UserInfo(at)
		switch {
		case ui.Panic != nil:
			res.Fail("C16:panic@"+ui.PanicFrame(), "op %d userinfo with the device access token: %s", i, ui.Describe())
		case ui.Success():
			res.Label("token:userinfo-checked")
			if !m.approvedBy(ui.Str("sub")) {
				res.Fail("C16:token:subject", "op %d: userinfo for the device access token says sub=%q, the approving user is %q", i, ui.Str("sub"), m.approver)
			}
		default:
			res.Label("token:userinfo-refused")
		}
	}
	if newToks == 0 {
		res.Label("token:none-recorded")
	}
}

func jwtPayload(tok string) map[string]any {
	parts := strings.Split(tok, ".")
	if len(parts) != 3 {
		return nil
	}
	b, err := base64.RawURLEncoding.DecodeString(parts[1])
	if err != nil {
		return nil
	}
	var m map[string]any
	if json.Unmarshal(b, &m) != nil {
		return nil
	}
	return m
}

func scopeClaim(v any) []string {
	switch x := v.(type) {
	case string:
		return strings.Fields(x)
	case []any:
		out := []string{}
		for _, e := range x {
			if s, ok := e.(string); ok {
				out = append(out, s)
			}
		}
		return out
	}
	return nil
}

// ---- props ---------------------------------------------------------------------------------

const ruleHistory = "history cases (TestRapid) = router (provider|legacy) x issuer strategy (static|host|forwarded, secure/insecure, with/without path; Host and Forwarded vary per request) x " +
	"device config (lifetime 30-3600 s or 0-3 s, poll interval 0-30 s with the edges {1, 2, 4, 5, 6, 60, 3600} s drawn more often, user form path, user-code alphabet {base20, digits, non-ASCII, single rune, generated letters/digits} x length 1-16 x dash interval 0..length+1) x " +
	"3 clients (confidential basic/post/private_key_jwt, public native/user_agent, two odd registrations; with/without device grant, refresh grant, JWT access tokens; secret with or without URL-reserved characters) x " +
	"2-14 (thorough 24) ops: device_authorize(client, presentation right|id_only|cross, scopes), approve(code#, user#) via the user code, deny, expire, " +
	"poll(code# or never-issued code, as client#, presentation right|id_only|wrong_secret|cross(body client_id of another client)|none, optional storage time-out of the state lookup: " +
	"answers context.DeadlineExceeded at once, plain | wrapped, or stalls and relies on the deadline of the context it is handed, answering ctx.Err() plain | wrapped), " +
	"rpflow(client, scopes, relying party built with rp.NewRelyingPartyOIDC as the client is registered: secret | JWT-profile signer from key+kid | signer from key file data | signer+secret | nothing; authFn none|header|form; " +
	"via rp.DeviceAuthorization+rp.DeviceAccessToken | client.CallDeviceAuthorizationEndpoint+client.PollDeviceAccessTokenEndpoint; the user approves|denies|the code expires|the device cancels right before the 0th..2nd poll of the helper is served; " +
	"in-process transport, every request of the helpers judged by the same per-request oracles, helper result = last provider answer); " +
	"oracle = per-device-code model {pending, approved(user), denied, expired(forced or by clock with 2 s guard), redeemed}; at device authorization the storage is handed the requested scopes, the authenticated client and " +
	"an expiry = request time + configured lifetime (t0/t1 bracket, 2 s guard); alphabets are letters/digits (no '-' or URL-reserved characters); " +
	"non-trivial = at least one issued code and one asserted poll that is not owner/right/pending; distinct = (router, issuer mode, alphabet class, dash class, set of (state, relation, presentation, timeout, expectation) classes)"

const ruleUC = "user-code cases (TestUserCode) = same alphabet classes x length 1-16 x dash interval 0..length+1, op.NewUserCode called ceil(64/length)+1 times: " +
	"layout per config, codes not constant (>= 2 symbols) and pairwise distinct when the code space has >= 48 bit; op.NewDeviceCode(n in 16..64) decodes to n bytes and never repeats; " +
	"non-trivial = dash interval inside the code or non-ASCII alphabet; distinct = (alphabet, length, dash interval)"

const ruleAll = ruleHistory + " || " + ruleUC + " || " + ruleRT + " || " + ruleIL + " || " + ruleStall

var prop = vkit.Prop[Case]{ID: "C16", Rule: ruleAll, Gen: genCase, Run: run}

var propUC = vkit.Prop[Case]{ID: "C16", Rule: ruleAll, Gen: genUCCase, Run: run}

func TestRapid(t *testing.T)    { prop.Check(t) }
func TestUserCode(t *testing.T) { propUC.Check(t) }
func TestReplay(t *testing.T)   { prop.Replay(t) }
