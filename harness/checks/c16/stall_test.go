package c16

// A state lookup that STALLS ("on storage time-out slow_down").
//
// The statement names the answer to a device-code poll whose storage lookup times out: slow_down. A storage lookup can time
// out in two ways: the storage gives up by itself (it answers context.DeadlineExceeded, plain or wrapped - vkit fault kinds
// "deadline" / "deadline-wrapped", Op.Stall "" / "wrapped"), or it stalls and comes back only when the context it was handed
// ends, as every context-aware driver does (database/sql, net/http, gRPC ...): then the time-out is the library's, and the
// poll is answered at all only if the library bounds the call. The device cannot do it: its request carries no deadline to
// the provider (the harness' requests have context.Background()).
//
// staller is the check's own layer around the vkit store (ProviderSpec.WrapStorage). While armed, GetDeviceAuthorizatonState
//
//	ctx, ctx-wrapped   stalls until its context is done and answers ctx.Err() (wrapped with %w)
//	own, own-wrapped   derives a time-out of its own (200 ms) from the context, stalls until that one ends and answers its Err()
//	now, now-wrapped   answers context.DeadlineExceeded at once
//
// Deterministic oracle (no waiting, independent of machine load): on entry the stalling lookup (ctx kinds) looks at the
// context it was handed. No deadline on it = the library does not bound the call = a stalled lookup never returns and the
// poll is never answered: violation C16:poll-never-answers-on-storage-timeout (the wrapper then returns a plain error at
// once instead of hanging). In histories (TestRapid / TestInterleave, "virtual" stall) a lookup that was given a deadline
// answers at once what it would answer once the deadline has passed (context.DeadlineExceeded); in TestStall it really waits.
//
// Real-time cases (TestStall), secondary: several providers (every device configuration: router, poll interval 0 / 1 / 2 /
// 5 / 60 / 3600 s ..., lifetimes, user-code configurations, client kinds), each with a pending / approved / denied / expired
// code, get one poll whose lookup really stalls; all stalled polls are started concurrently and share ONE wait. Every poll
// must be answered (the library's own time-out ends the stall: the harness owns every other blocking point) and the answer
// of the initiating client's poll is slow_down without tokens. stallBudget bounds the wait in "healthy" time (sleep steps
// that took much longer than asked - machine stalled - are not charged); a lookup whose library-chosen deadline lies more
// than stallBeyond ahead is not waited for and is grey (the statement does not say how long the time-out is).

import (
	"context"
	"errors"
	"fmt"
	"sort"
	"strings"
	"sync"
	"testing"
	"time"

	"github.com/zitadel/oidc/v3/pkg/op"
	"pgregory.net/rapid"

	"verif/harness/vkit"
)

const (
	stallBudget  = 30 * time.Second  // healthy time the shared wait may take (the unchanged tree needs 4 s)
	stallBeyond  = 15 * time.Second  // a library-chosen deadline further away is not waited for (grey): leaves >= 15 s of slack in the budget
	stallWallCap = 150 * time.Second // wall time after which the wait is given up as inconclusive (machine stalled)
	stallOwn     = 200 * time.Millisecond
)

var (
	// Op.Stall of a sequential poll with Timeout
	stallKindsSeq = []string{"", "", "wrapped", "ctx", "ctx", "ctx", "ctx-wrapped"}
	// StallSub.Stall
	stallKindsRT = []string{"ctx", "ctx", "ctx", "ctx", "ctx-wrapped", "ctx-wrapped", "own", "own-wrapped", "now", "now-wrapped"}

	errStallNoDeadline = errors.New("device state lookup stalled: the context has no deadline, the lookup would never return")
	errStallBeyond     = errors.New("device state lookup stalled: the deadline of the context lies beyond what the harness waits for")
	errStallReleased   = errors.New("device state lookup stalled: ended by the harness")
)

// stallObs is what one stalling lookup saw.
type stallObs struct {
	Kind        string
	ClientID    string
	HasDeadline bool
	Remaining   time.Duration // until the deadline of the context, at entry
	DoneNil     bool          // ctx.Done() == nil: the context can never end
	Waited      time.Duration
	Outcome     string // no-deadline | beyond-bound | virtual | deadline (the context ended the stall) | released (the harness did) | own | now
	Err         string
}

type staller struct {
	mu      sync.Mutex
	kind    string // "" = not armed
	real    bool
	release <-chan struct{}
	obs     []stallObs
}

func (s *staller) arm(kind string, real bool, release <-chan struct{}) {
	s.mu.Lock()
	s.kind, s.real, s.release, s.obs = kind, real, release, nil
	s.mu.Unlock()
}

func (s *staller) disarm() []stallObs {
	s.mu.Lock()
	defer s.mu.Unlock()
	o := s.obs
	s.kind, s.real, s.release, s.obs = "", false, nil, nil
	return o
}

type stallDev struct {
	op.DeviceAuthorizationStorage
	s *staller
}

func (d stallDev) GetDeviceAuthorizatonState(ctx context.Context, clientID, deviceCode string) (*op.DeviceAuthorizationState, error) {
	d.s.mu.Lock()
	kind, real, release := d.s.kind, d.s.real, d.s.release
	d.s.mu.Unlock()
	if kind == "" {
		return d.DeviceAuthorizationStorage.GetDeviceAuthorizatonState(ctx, clientID, deviceCode)
	}
	o := stallObs{Kind: kind, ClientID: clientID, DoneNil: ctx.Done() == nil}
	if dl, ok := ctx.Deadline(); ok {
		o.HasDeadline, o.Remaining = true, time.Until(dl)
	}
	wrap := func(err error) error {
		if strings.HasSuffix(kind, "-wrapped") {
			return fmt.Errorf("device state lookup: %w", err)
		}
		return err
	}
	var err error
	switch base := strings.TrimSuffix(kind, "-wrapped"); {
	case base == "now":
		o.Outcome, err = "now", wrap(context.DeadlineExceeded)
	case base == "own":
		octx, cancel := context.WithTimeout(ctx, stallOwn)
		t := time.Now()
		select {
		case <-octx.Done():
			o.Outcome, err = "own", wrap(octx.Err())
		case <-release: // nil in histories: never
			o.Outcome, err = "released", errStallReleased
		}
		cancel()
		o.Waited = time.Since(t)
	case !o.HasDeadline:
		// nothing will ever end the stall
		o.Outcome, err = "no-deadline", errStallNoDeadline
	case o.Remaining > stallBeyond:
		o.Outcome, err = "beyond-bound", errStallBeyond
	case !real:
		// what the lookup answers once the deadline has passed
		o.Outcome, err = "virtual", wrap(context.DeadlineExceeded)
	default:
		t := time.Now()
		select {
		case <-ctx.Done():
			o.Outcome, err = "deadline", wrap(ctx.Err())
		case <-release:
			o.Outcome, err = "released", errStallReleased
		}
		o.Waited = time.Since(t)
	}
	o.Err = err.Error()
	d.s.mu.Lock()
	d.s.obs = append(d.s.obs, o)
	d.s.mu.Unlock()
	return nil, err
}

// wrap keeps the optional interfaces of the capability-shaped vkit storage (the library detects them by type assertion).
func (s *staller) wrap(inner op.Storage) op.Storage {
	cc, hasCC := inner.(op.ClientCredentialsStorage)
	te, hasTE := inner.(op.TokenExchangeStorage)
	dev, hasDev := inner.(op.DeviceAuthorizationStorage)
	if !hasCC || !hasTE || !hasDev {
		return inner // this check always builds the full shape
	}
	return struct {
		op.Storage
		op.ClientCredentialsStorage
		op.TokenExchangeStorage
		stallDev
	}{inner, cc, te, stallDev{dev, s}}
}

func deadlineClass(o stallObs) string {
	switch {
	case !o.HasDeadline:
		return "none"
	case o.Remaining <= time.Second:
		return "<=1s"
	case o.Remaining <= 5*time.Second:
		return "1-5s"
	case o.Remaining <= stallBeyond:
		return "5-15s"
	}
	return ">15s"
}

// judgeStall looks at what the stalling lookup of poll p saw; stop = the poll is judged (or grey), the model's named-error
// expectation does not apply any more.
func (w *world) judgeStall(p *pollObs, state, rel string) (stop bool) {
	res, c := w.res, w.c
	if !p.timeout || p.stallKind == "" || p.stallKind == "wrapped" {
		return false
	}
	if len(p.stall) == 0 {
		res.Label("stall:" + p.stallKind + ":lookup-not-reached")
		return false
	}
	for _, o := range p.stall {
		res.Label("stall:"+p.stallKind+":"+o.Outcome, "stall:deadline-handed-to-storage:"+deadlineClass(o), "stall:poll-interval:"+pollClass(c.Device.PollS))
		switch o.Outcome {
		case "no-deadline":
			res.Fail("C16:poll-never-answers-on-storage-timeout", "op %d: poll in state %s by %s (%s/%s) on %s, poll interval %d s: the stalling state lookup (%s) was handed a context without deadline (Done channel nil: %v) "+
				"and the request carries none: nothing ends the stall, the poll is never answered instead of slow_down; after the harness broke the stall: %d %q",
				p.i, state, identName(w, p.ident), rel, p.pres, c.Router, c.Device.PollS, o.Kind, o.DoneNil, p.r.Status, p.r.OAuthError())
			w.asserted++
			w.interesting++
			stop = true
		case "beyond-bound":
			// the library bounds the call, with a time-out longer than the harness waits: the statement does not say how long
			w.greyPolls++
			stop = true
		case "released":
			// the harness ended the stall (runStall decides why): the answer says nothing
			w.greyPolls++
			stop = true
		case "deadline":
			w.stallWaited++
		}
	}
	return stop
}

// ---- real-time cases ------------------------------------------------------------------

// StallSub is one provider of a stall case: configuration as in a history case, one flow, one poll whose lookup stalls.
type StallSub struct {
	Router     string         `json:"router"`
	IssuerMode string         `json:"issuer_mode,omitempty"`
	Issuer     string         `json:"issuer,omitempty"`
	Insecure   bool           `json:"insecure,omitempty"`
	Device     vkit.DeviceCfg `json:"device"`
	UCClass    string         `json:"uc_class,omitempty"`
	Clients    []ClientCfg    `json:"clients,omitempty"`
	ErrStyle   string         `json:"err_style,omitempty"`
	Scopes     []string       `json:"scopes,omitempty"`
	Decide     string         `json:"decide,omitempty"` // "" (pending) | approve | deny | expire, applied before the stalled poll
	User       int            `json:"user,omitempty"`
	Stall      string         `json:"stall"`            // ctx | ctx-wrapped | own | own-wrapped | now | now-wrapped
	Client     int            `json:"client"`           // polling client (< 0: the one that started the flow)
	Pres       string         `json:"pres,omitempty"`   // right | id_only | none
	Host       int            `json:"host,omitempty"`
	Fwd        int            `json:"fwd,omitempty"`
}

func genStallCase(t *rapid.T) Case {
	c := Case{Kind: "stall"}
	n := rapid.IntRange(6, 12).Draw(t, "providers")
	for k := 0; k < n; k++ {
		cfg := genConfig(t)
		s := StallSub{Router: cfg.Router, IssuerMode: cfg.IssuerMode, Issuer: cfg.Issuer, Insecure: cfg.Insecure, Device: cfg.Device, UCClass: cfg.UCClass, Clients: cfg.Clients}
		if rapid.Bool().Draw(t, "polledged") {
			s.Device.PollS = rapid.SampledFrom([]int{0, 1, 1, 2, 5, 60}).Draw(t, "polledge")
		}
		s.Scopes = genScopes(t)
		s.Decide = rapid.SampledFrom([]string{"", "", "", "approve", "approve", "deny", "expire"}).Draw(t, "decide")
		s.User = rapid.IntRange(0, 2).Draw(t, "user")
		s.Stall = rapid.SampledFrom(stallKindsRT).Draw(t, "stall")
		s.Client = rapid.SampledFrom([]int{-1, -1, -1, -1, -1, -1, 0, 1, 2}).Draw(t, "client")
		s.Pres = rapid.SampledFrom([]string{"right", "right", "right", "right", "right", "right", "id_only", "none"}).Draw(t, "pres")
		s.Host = rapid.IntRange(0, len(hosts)-1).Draw(t, "host")
		s.Fwd = rapid.SampledFrom([]int{0, 0, 1, 2}).Draw(t, "fwd")
		if rapid.IntRange(0, 3).Draw(t, "errstyled") == 0 {
			s.ErrStyle = rapid.SampledFrom(vkit.ErrStyles).Draw(t, "errstyle")
		}
		c.Stalls = append(c.Stalls, s)
	}
	return c
}

// waitDone waits until every channel is closed. budget is charged in healthy time only: a sleep step that took much longer
// than asked (the machine stalled the harness) is not charged. capped: wallCap passed first (inconclusive).
func waitDone(dones []chan struct{}, budget, wallCap time.Duration) (all, capped bool) {
	const step = 20 * time.Millisecond
	start := time.Now()
	healthy := time.Duration(0)
	for {
		all = true
		for _, d := range dones {
			select {
			case <-d:
			default:
				all = false
			}
		}
		switch {
		case all:
			return true, false
		case healthy >= budget:
			return false, false
		case time.Since(start) >= wallCap:
			return false, true
		}
		t := time.Now()
		time.Sleep(step)
		if time.Since(t) <= 5*step {
			healthy += step
		}
	}
}

type stallJob struct {
	k    int
	w    *world
	sub  StallSub
	pp   *preparedPoll
	done chan struct{}
}

func runStall(c Case, res *vkit.Result) {
	if len(c.Stalls) == 0 || len(c.Stalls) > 16 {
		res.Grey = true
		res.Label("malformed-case")
		return
	}
	var ws []*world
	for _, s := range c.Stalls {
		sub := Case{Kind: "history", Router: s.Router, IssuerMode: s.IssuerMode, Issuer: s.Issuer, Insecure: s.Insecure, Device: s.Device, UCClass: s.UCClass, Clients: s.Clients, ErrStyle: s.ErrStyle}
		w := newWorld(sub, res)
		if w == nil {
			return
		}
		ws = append(ws, w)
	}
	// phase 1: every provider issues a code, is polled at once, the user decides where the case says so; then the poll
	// whose lookup stalls is started
	release := make(chan struct{})
	var jobs []*stallJob
	var dones []chan struct{}
	for k, w := range ws {
		s := c.Stalls[k]
		at := Op{Host: s.Host, Fwd: s.Fwd}
		w.authorize(10*k, Op{Kind: "authorize", Client: 0, Pres: "right", Scopes: s.Scopes, Host: s.Host, Fwd: s.Fwd})
		if len(w.codes) == 0 {
			continue
		}
		w.poll(10*k+1, Op{Kind: "poll", Client: -1, Pres: "right", Host: s.Host, Fwd: s.Fwd})
		switch s.Decide {
		case "approve":
			w.decide(10*k+2, Op{Kind: "approve", User: s.User})
		case "deny", "expire":
			w.decide(10*k+2, Op{Kind: s.Decide})
		}
		pres := s.Pres
		if pres != "id_only" && pres != "none" {
			pres = "right"
		}
		j := &stallJob{k: k, w: w, sub: s, done: make(chan struct{})}
		j.pp = w.prepPoll(10*k+3, Op{Kind: "poll", Client: s.Client, Pres: pres, Timeout: true, Stall: s.Stall, Host: s.Host, Fwd: s.Fwd})
		j.pp.obs.stallKind, j.pp.obs.stalled = s.Stall, true
		ag := w.agentFor(at)
		w.stall.arm(s.Stall, true, release)
		jobs = append(jobs, j)
		dones = append(dones, j.done)
		go func() {
			defer close(j.done)
			j.pp.obs.t0 = time.Now()
			r := ag.Token(j.pp.form, j.pp.cred)
			j.pp.obs.t1 = time.Now()
			j.pp.obs.r = r
		}()
	}
	// one shared wait: the library's own time-outs end the stalls
	t0 := time.Now()
	all, capped := waitDone(dones, stallBudget, stallWallCap)
	waited := time.Since(t0)
	// every blocking point of the harness is opened; what is still in flight can only be held by the library
	close(release)
	joined := all
	if !all {
		joined, _ = waitDone(dones, stallBudget, stallWallCap)
	}
	switch {
	case all:
		res.Label("stall:wait:all-answered")
	case capped:
		res.Label("stall:wait:machine-stalled")
	default:
		res.Label("stall:wait:budget-used-up")
	}
	// phase 2: judge
	var keys []string
	asserted, waitedFor := 0, 0
	for _, j := range jobs {
		w, s := j.w, j.sub
		answered := false
		select {
		case <-j.done:
			answered = true
		default:
		}
		desc := fmt.Sprintf("provider %d (%s, poll interval %d s, lifetime %d s, code %s, lookup stalls: %s)", j.k, s.Router, s.Device.PollS, s.Device.LifetimeS, orPending(s.Decide), s.Stall)
		obs := w.stall.disarm()
		switch {
		case !answered:
			// the goroutine of the request is lost inside the library
			res.Fail("C16:poll-never-answers-on-storage-timeout", "%s: the poll got no answer within %v (shared wait %v, then every stall was ended by the harness, joined=%v); the stalling lookup saw %+v", desc, stallBudget, waited, joined, obs)
			continue
		case hasOutcome(obs, "released") && !capped:
			res.Fail("C16:poll-never-answers-on-storage-timeout", "%s: the context handed to the lookup had a deadline %v away but had not ended it after %v of waiting (budget %v): the poll was answered only after the harness ended the stall; the lookup saw %+v",
				desc, remainingOf(obs), waited, stallBudget, obs)
		}
		j.pp.obs.stall = obs
		w.judgePoll(j.pp.obs)
		// the provider serves the next poll of the code as if nothing had happened
		w.poll(10*j.k+4, Op{Kind: "poll", Client: -1, Pres: "right", Host: s.Host, Fwd: s.Fwd})
		asserted += w.asserted
		waitedFor += w.stallWaited
		rel := "owner"
		if j.pp.obs.m != nil {
			rel = relOf(j.pp.obs.m, j.pp.obs.ident)
		}
		keys = append(keys, fmt.Sprintf("%s/%d/%s/%s/%s:%s", s.Router, s.Device.PollS, s.Stall, s.Decide, rel, j.pp.obs.pres))
		res.Label("stall:router:"+s.Router, "stall:kind:"+s.Stall, "stall:code:"+orPending(s.Decide), "stall:by:"+rel+"/"+j.pp.obs.pres, "stall:answered-after:"+durClass(j.pp.obs.t1.Sub(j.pp.obs.t0)),
			"stall:uc:"+s.UCClass, "stall:lifetime:"+lifeClass(s.Device.LifetimeS))
	}
	sort.Strings(keys)
	res.Label("kind:stall")
	res.NonTrivial = waitedFor > 0
	res.Grey = asserted == 0
	res.Key = "stall|" + strings.Join(keys, ",")
	res.Info = map[string]any{"providers": len(ws), "stalled_polls": len(jobs), "asserted_polls": asserted, "polls_ended_by_the_library_timeout": waitedFor, "shared_wait_s": waited.Seconds()}
}

func orPending(d string) string {
	if d == "" {
		return "pending"
	}
	return d
}

func hasOutcome(obs []stallObs, outcome string) bool {
	for _, o := range obs {
		if o.Outcome == outcome {
			return true
		}
	}
	return false
}

func remainingOf(obs []stallObs) time.Duration {
	for _, o := range obs {
		if o.Outcome == "released" {
			return o.Remaining
		}
	}
	return 0
}

func durClass(d time.Duration) string {
	switch {
	case d < time.Second:
		return "<1s"
	case d < 3*time.Second:
		return "1-3s"
	case d < 6*time.Second:
		return "3-6s"
	}
	return ">=6s"
}

func pollClass(s int) string {
	switch {
	case s <= 2 || s == 5:
		return fmt.Sprintf("%ds", s)
	case s < 5:
		return "3-4s"
	case s <= 30:
		return "6-30s"
	}
	return ">30s"
}

func lifeClass(s int) string {
	switch {
	case s <= 3:
		return fmt.Sprintf("%ds", s)
	case s < 300:
		return "<5m"
	}
	return ">=5m"
}

const ruleStall = "stall cases (TestStall) = 6-12 providers (configuration as in history cases: router x issuer strategy x lifetime x poll interval {0,1,2,5,60 s or as in histories} x user-code configuration x 3 clients x storage error style), " +
	"each issues a code, is polled once, the user approves | denies | the code expires | nothing; then one poll (by the initiating client, or another / unproven one) whose state lookup times out: " +
	"ctx[-wrapped] = stalls until the context it was handed is done, answers ctx.Err(); own[-wrapped] = stalls for a 200 ms time-out of its own derived from that context; now[-wrapped] = answers context.DeadlineExceeded at once; " +
	"all stalled polls run concurrently, ONE shared wait (budget 30 s of healthy time); oracle = a stalling lookup handed a context without deadline can never return (violation at once, no waiting); every poll is answered; " +
	"the initiating client's poll answers slow_down without tokens whatever the state of the code; the next poll is judged by the model as usual; a library-chosen deadline more than 15 s ahead is not waited for and grey; " +
	"history cases: polls with storage time-out draw the kind {at once, at once wrapped, ctx, ctx-wrapped}; ctx kinds there check the context and answer at once what they would answer after the deadline; " +
	"non-trivial = at least one stalled lookup ended by the library's own time-out; distinct = multiset of (router, poll interval, stall kind, decision, poller)"

var propStall = vkit.Prop[Case]{ID: "C16", Rule: ruleAll, Gen: genStallCase, Run: run}

func TestStall(t *testing.T) { propStall.Check(t) }
