package zzprobe

import (
	"context"
	"encoding/json"
	"net/http"
	"net/http/httptest"
	"sync/atomic"
	"testing"
	"time"

	jose "github.com/go-jose/go-jose/v4"
	"github.com/zitadel/oidc/v3/pkg/client/rp"
	"verif/harness/vkit"
)

func TestWindow(t *testing.T) {
	var served atomic.Value
	served.Store([]jose.JSONWebKey{})
	var fetches atomic.Int32
	srv := httptest.NewServer(http.HandlerFunc(func(w http.ResponseWriter, r *http.Request) {
		fetches.Add(1)
		json.NewEncoder(w).Encode(jose.JSONWebKeySet{Keys: served.Load().([]jose.JSONWebKey)})
	}))
	defer srv.Close()
	hold := make(chan struct{})
	parked := make(chan struct{}, 1)
	first := true
	rp.VerifAfterInflightDone = func() {
		if first {
			first = false
			parked <- struct{}{}
			<-hold
		}
	}
	defer func() { rp.VerifAfterInflightDone = nil }()
	ks := rp.NewRemoteKeySet(http.DefaultClient, srv.URL)
	k := vkit.Key("rsa1")
	tok := vkit.MustSignJWT("RS256", "k1", k, []byte(`{"sub":"x"}`))
	jws, err := jose.ParseSigned(tok, []jose.SignatureAlgorithm{jose.RS256})
	if err != nil {
		t.Fatal(err)
	}
	// call 1: endpoint serves zero keys -> rejected
	_, err = ks.VerifySignature(context.Background(), jws)
	t.Log("call 1:", err)
	<-parked
	// the provider publishes the key
	served.Store([]jose.JSONWebKey{k.JWK("k1", "sig", "")})
	// call 2 arrives while the finished download has not yet released its slot
	done := make(chan error, 1)
	go func() { _, err := ks.VerifySignature(context.Background(), jws); done <- err }()
	select {
	case err = <-done:
	case <-time.After(2 * time.Second):
		t.Log("call 2 is waiting (new download not possible while parked?)")
		close(hold)
		err = <-done
	}
	t.Log("call 2:", err, "fetches:", fetches.Load())
	select {
	case <-hold:
	default:
		close(hold)
	}
	if err != nil {
		t.Fatalf("token signed by a served key rejected: %v", err)
	}
}
