// Package c10: storage failures fail closed - an error response, no code and no token (property C10).
//
// A case is one scenario (router, flow, client shape = application type x auth method x credential presentation, token type,
// signing algorithm, storage capabilities, flow variant).
// run executes it once without faults; the journal of the verification storage yields the N storage calls of the
// request under test. Then the scenario is rebuilt from scratch and re-run once for every (call position j in 1..N) x
// (fault kind in ctx-canceled-real | ctx-deadline-real (the request's own context ends inside the call, see realEnd) | error | deadline | partial-fill-then-error | *oidc.Error server_error | plain error wrapping an *oidc.Error |
// every library sentinel / specially treated error value a storage may return or pass on: op.ErrInvalidRefreshToken plain and
// wrapped, op.ErrDuplicateUserCode, oidc.ErrKeyNone, context.Canceled, wrapped context.DeadlineExceeded, *oidc.Error
// access_denied / slow_down / authorization_pending) and once per distinct storage
// method M x (error | deadline | oidc | oidc-wrapped | documented try-again sentinels of M) with every call of M failing: exhaustive
// over the positions of each scenario. Every faulted response is judged by an oracle written from the statement (no panic;
// an error answer; no code / token / device code / user code / claims / active:true).
package c10

import (
	"bytes"
	"encoding/json"
	"fmt"
	"net/url"
	"os"
	"regexp"
	"runtime/debug"
	"sort"
	"strings"
	"sync"
	"testing"

	"pgregory.net/rapid"

	"verif/harness/vkit"
)

// Case is one scenario. Fields that do not matter for the flow are zeroed by normalize, so that equal scenarios are equal values.
type Case struct {
	Router string    `json:"router"` // provider | legacy
	Flow   string    `json:"flow"`
	Client string    `json:"client,omitempty"` // basic | post | pkjwt | public (native, auth method none, PKCE)
	JWTAT  bool      `json:"jwt_at,omitempty"` // access tokens are JWTs (else opaque)
	Alg    string    `json:"alg"`              // signing algorithm of the provider key
	Caps   vkit.Caps `json:"caps"`

	Scopes       []string `json:"scopes,omitempty"`
	ResponseType string   `json:"response_type,omitempty"` // authorize / callback
	ResponseMode string   `json:"response_mode,omitempty"`
	PKCE         bool     `json:"pkce,omitempty"`
	UIAssert     bool     `json:"userinfo_assertion,omitempty"` // client asks for userinfo claims in the ID token
	SessionState bool     `json:"session_state,omitempty"`      // auth requests carry a session state
	Hint         bool     `json:"hint,omitempty"`               // authorize / end_session: id_token_hint present
	ReqObj       bool     `json:"request_object,omitempty"`     // authorize: signed request object
	Narrow       bool     `json:"narrow,omitempty"`             // refresh: scope narrowed
	SubjectType  string   `json:"subject_type,omitempty"`       // token exchange: access (JWT) | opaque | refresh | id | third (verified by the storage itself)
	ActorType    string   `json:"actor_type,omitempty"`         // token exchange: "" | access | id | third
	Requested    string   `json:"requested,omitempty"`          // token exchange: "" | access | refresh | id
	TokenKind    string   `json:"token_kind,omitempty"`         // revoke: access | refresh
	TypeHint     string   `json:"type_hint,omitempty"`          // revoke: "" | access_token | refresh_token
	ClientParam  bool     `json:"client_param,omitempty"`       // end_session: client_id parameter (without hint)
	PostLogout   bool     `json:"post_logout,omitempty"`        // end_session: post_logout_redirect_uri
	State        bool     `json:"state,omitempty"`              // end_session: state

	// the client of the request under test: application type x auth method (Client) x how it presents itself
	AppType       string `json:"app_type,omitempty"`        // "" = what the client kind implies (public: native, else web) | web | user_agent | native
	Present       string `json:"present,omitempty"`         // credential flows: "" = the presentation that fits the auth method | basic | basic-empty (Basic header, empty password) | post | id (client_id only) | assertion
	EmptySecretOK bool   `json:"empty_secret_ok,omitempty"` // the storage compares secrets as plain strings: a client without a secret "matches" an empty one (as example/server/storage does)
}

// ---- scenario space ------------------------------------------------------------------

var (
	routers = []string{"provider", "legacy"}
	flows   = []string{"authorize", "callback_code", "callback_implicit", "code_exchange", "refresh", "client_credentials", "jwt_bearer",
		"token_exchange", "device_authorize", "device_poll", "userinfo", "introspect", "revoke", "keys", "end_session"}
	clientKinds = []string{"basic", "post", "pkjwt", "public"}
	appTypes    = []string{"web", "user_agent", "native"}
	// credFlows: the request under test carries client credentials; presentations: the ways a caller can present a client
	credFlows     = []string{"code_exchange", "refresh", "client_credentials", "token_exchange", "device_authorize", "device_poll", "introspect", "revoke"}
	presentations = []string{"basic", "basic-empty", "post", "id", "assertion"}
	rightPresent  = map[string]string{"basic": "basic", "post": "post", "pkjwt": "assertion", "public": "id"}
	allAlgs       = []string{"RS256", "PS256", "ES256", "EdDSA", "RS512", "ES384", "ES512"}
	latticeAlgs   = []string{"RS256", "ES256", "EdDSA"} // one per key family; the other four are sampled by TestRapid
	capKinds      = []string{"min", "full", "extras"}
	scopeSets     = [][]string{
		{"openid"},
		{"openid", "profile", "email", vkit.CustomScope},
		{"openid", "profile", "email", "phone", "address", vkit.CustomScope, "offline_access"},
	}
	responseModes = []string{"", "query", "fragment", "form_post"}
	subjectTypes  = []string{"access", "opaque", "refresh", "id", "third"}
	actorTypes    = []string{"", "access", "id", "third"}
)

func capsOf(kind, flow string) vkit.Caps {
	switch kind {
	case "full":
		return vkit.FullCaps
	case "extras":
		return vkit.Caps{CC: true, TE: true, Device: true, Extras: true}
	}
	return vkit.Caps{CC: flow == "client_credentials", TE: flow == "token_exchange", Device: flow == "device_authorize" || flow == "device_poll"}
}

func has(l []string, s string) bool {
	for _, x := range l {
		if x == s {
			return true
		}
	}
	return false
}

func without(l []string, s string) []string {
	out := []string{}
	for _, x := range l {
		if x != s {
			out = append(out, x)
		}
	}
	return out
}

// defaultAppType: the application type of a client kind unless the case says otherwise.
func defaultAppType(client string) string {
	if client == "public" {
		return "native"
	}
	return "web"
}

// allowedClients: the client kinds that can complete the flow on the router (a sound fault-free baseline).
func allowedClients(router, flow string) []string {
	switch flow {
	case "authorize", "callback_code", "callback_implicit":
		return []string{"basic", "public"} // client authentication plays no role; application type does
	case "code_exchange", "refresh", "revoke":
		return clientKinds
	case "client_credentials":
		return []string{"basic", "post"}
	case "token_exchange":
		if router == "provider" {
			return []string{"basic"} // the Provider router reads the exchange client from the Basic header only
		}
		return []string{"basic", "post", "pkjwt"}
	case "device_authorize", "device_poll":
		if router == "provider" {
			return []string{"basic", "pkjwt", "public"} // ClientIDFromRequest authenticates by assertion or Basic only
		}
		return clientKinds
	case "introspect":
		if router == "provider" {
			return []string{"basic", "pkjwt"}
		}
		return []string{"basic", "post", "pkjwt"}
	}
	return []string{""} // jwt_bearer, userinfo, keys, end_session: no client authentication in the request under test
}

// normalize zeroes what does not matter for the flow and coerces unsupported combinations to supported ones.
func normalize(c Case) Case {
	n := Case{Router: c.Router, Flow: c.Flow, Alg: c.Alg, Caps: c.Caps}
	if !has(routers, n.Router) {
		n.Router = "provider"
	}
	if !has(flows, n.Flow) {
		n.Flow = "keys"
	}
	if _, ok := algKey[n.Alg]; !ok {
		n.Alg = "RS256"
	}
	min := capsOf("min", n.Flow)
	n.Caps.CC, n.Caps.TE, n.Caps.Device = n.Caps.CC || min.CC, n.Caps.TE || min.TE, n.Caps.Device || min.Device
	if n.Caps.Extras && !(n.Caps.CC && n.Caps.TE && n.Caps.Device) {
		n.Caps = vkit.Caps{CC: true, TE: true, Device: true, Extras: true}
	}
	ac := allowedClients(n.Router, n.Flow)
	n.Client = c.Client
	if has(credFlows, n.Flow) && has(presentations, c.Present) && has(clientKinds, n.Client) {
		// an explicit presentation: every client kind may try it (whether the fault-free request is served is found out by the baseline)
		n.Present = c.Present
		if n.Client == "public" { // holds no secret: its secret presentations are the empty ones
			switch n.Present {
			case "basic":
				n.Present = "basic-empty"
			case "post":
				n.Present = "id" // client_secret= (empty) decodes like an absent one
			}
		}
		if n.Present == rightPresent[n.Client] {
			n.Present = ""
		}
	}
	if n.Present == "" && !has(ac, n.Client) {
		n.Client = ac[0]
	}
	if n.Client != "" && has(appTypes, c.AppType) && c.AppType != defaultAppType(n.Client) {
		n.AppType = c.AppType
	}
	n.EmptySecretOK = c.EmptySecretOK && n.Client == "public" && n.Present == "basic-empty"
	scopes := append([]string{}, c.Scopes...)
	if !has(scopes, "openid") {
		scopes = append([]string{"openid"}, scopes...)
	}
	switch n.Flow {
	case "authorize":
		n.ResponseType, n.ResponseMode, n.Hint, n.ReqObj = c.ResponseType, c.ResponseMode, c.Hint, c.ReqObj
		if !has([]string{"code", "id_token", "id_token token"}, n.ResponseType) {
			n.ResponseType = "code"
		}
		n.Scopes = []string{"openid"}
	case "callback_code":
		n.ResponseType, n.ResponseMode, n.SessionState = "code", c.ResponseMode, c.SessionState
		n.Scopes = []string{"openid"}
	case "callback_implicit":
		n.ResponseType, n.ResponseMode, n.UIAssert, n.JWTAT = c.ResponseType, c.ResponseMode, c.UIAssert, c.JWTAT
		if n.ResponseType != "id_token" && n.ResponseType != "id_token token" {
			n.ResponseType = "id_token token"
		}
		if n.ResponseType == "id_token" {
			n.JWTAT = false // no access token is issued
		}
		n.Scopes = without(scopes, "offline_access")
	case "code_exchange":
		n.PKCE, n.UIAssert, n.JWTAT, n.Scopes = c.PKCE, c.UIAssert, c.JWTAT, scopes
	case "refresh":
		n.PKCE, n.UIAssert, n.JWTAT, n.Narrow = c.PKCE, c.UIAssert, c.JWTAT, c.Narrow
		if !has(scopes, "offline_access") {
			scopes = append(scopes, "offline_access")
		}
		n.Scopes = scopes
	case "client_credentials":
		n.JWTAT, n.Scopes = c.JWTAT, []string{"openid", vkit.CustomScope}
	case "jwt_bearer":
		n.JWTAT = c.JWTAT && n.Caps.Extras // the token type is chosen by JWTProfileTokenStorage (an "extras" capability)
		n.Scopes = []string{"openid", vkit.CustomScope}
	case "token_exchange":
		n.JWTAT, n.SubjectType, n.ActorType, n.Requested = c.JWTAT, c.SubjectType, c.ActorType, c.Requested
		if !has(subjectTypes, n.SubjectType) {
			n.SubjectType = "access"
		}
		if !has(actorTypes, n.ActorType) {
			n.ActorType = ""
		}
		if !n.Caps.Extras {
			// tokens of a third party are verified by TokenExchangeTokensVerifierStorage, an "extras" capability
			if n.SubjectType == "third" {
				n.SubjectType = "access"
			}
			if n.ActorType == "third" {
				n.ActorType = ""
			}
		}
		if !has([]string{"", "access", "refresh", "id"}, n.Requested) {
			n.Requested = ""
		}
		if n.Requested == "id" {
			n.JWTAT = false
		}
		n.Scopes = []string{"openid", "profile", vkit.CustomScope}
	case "device_authorize":
		n.Scopes = []string{"openid", "profile"}
	case "device_poll":
		n.UIAssert, n.JWTAT, n.Scopes = c.UIAssert, c.JWTAT, scopes
	case "userinfo", "introspect":
		n.JWTAT, n.Scopes = c.JWTAT, without(scopes, "offline_access")
	case "revoke":
		n.JWTAT, n.TokenKind, n.TypeHint = c.JWTAT, c.TokenKind, c.TypeHint
		if n.TokenKind != "refresh" {
			n.TokenKind = "access"
		}
		if !has([]string{"", "access_token", "refresh_token"}, n.TypeHint) {
			n.TypeHint = ""
		}
		n.Scopes = []string{"openid", "offline_access"}
		if n.TokenKind == "refresh" {
			n.JWTAT = false
		}
	case "end_session":
		n.Hint, n.PostLogout, n.State = c.Hint, c.PostLogout, c.State
		n.ClientParam = c.ClientParam && !c.Hint
		if !n.Hint && !n.ClientParam {
			n.PostLogout = false // without a client there is nothing to validate the URI against
		}
	}
	if n.Client == "public" && has([]string{"authorize", "callback_code", "code_exchange", "refresh", "userinfo", "introspect", "revoke", "end_session"}, n.Flow) {
		n.PKCE = true // public clients must use PKCE to redeem a code
	}
	if n.Flow == "callback_implicit" || n.Flow == "authorize" && n.ResponseType != "code" {
		n.PKCE = false
	}
	return n
}

func genCase(t *rapid.T) Case {
	var c Case
	c.Router = rapid.SampledFrom(routers).Draw(t, "router")
	c.Flow = rapid.SampledFrom(flows).Draw(t, "flow")
	c.Client = rapid.SampledFrom(allowedClients(c.Router, c.Flow)).Draw(t, "client")
	c.JWTAT = rapid.Bool().Draw(t, "jwt_at")
	c.Alg = rapid.SampledFrom(allAlgs).Draw(t, "alg")
	c.Caps = capsOf(rapid.SampledFrom(capKinds).Draw(t, "caps"), c.Flow)
	c.Scopes = rapid.SampledFrom(scopeSets).Draw(t, "scopes")
	c.ResponseType = rapid.SampledFrom([]string{"code", "id_token", "id_token token"}).Draw(t, "response_type")
	c.ResponseMode = rapid.SampledFrom(responseModes).Draw(t, "response_mode")
	c.PKCE = rapid.Bool().Draw(t, "pkce")
	c.UIAssert = rapid.Bool().Draw(t, "userinfo_assertion")
	c.SessionState = rapid.Bool().Draw(t, "session_state")
	c.Hint = rapid.Bool().Draw(t, "hint")
	c.ReqObj = rapid.Bool().Draw(t, "request_object")
	c.Narrow = rapid.Bool().Draw(t, "narrow")
	c.SubjectType = rapid.SampledFrom(subjectTypes).Draw(t, "subject_type")
	c.ActorType = rapid.SampledFrom(actorTypes).Draw(t, "actor_type")
	c.Requested = rapid.SampledFrom([]string{"", "access", "refresh", "id"}).Draw(t, "requested")
	c.TokenKind = rapid.SampledFrom([]string{"access", "refresh"}).Draw(t, "token_kind")
	c.TypeHint = rapid.SampledFrom([]string{"", "access_token", "refresh_token"}).Draw(t, "type_hint")
	c.ClientParam = rapid.Bool().Draw(t, "client_param")
	c.PostLogout = rapid.Bool().Draw(t, "post_logout")
	c.State = rapid.Bool().Draw(t, "state")
	// client shape: application type x auth method x presentation (half of the cases keep the presentation that fits the auth method)
	c.AppType = rapid.SampledFrom([]string{"", "", "web", "user_agent", "native"}).Draw(t, "app_type")
	c.Present = rapid.SampledFrom(append([]string{"", "", "", "", ""}, presentations...)).Draw(t, "present")
	if c.Present != "" {
		c.Client = rapid.SampledFrom(clientKinds).Draw(t, "presenting_client")
	}
	c.EmptySecretOK = rapid.Bool().Draw(t, "empty_secret_ok")
	return normalize(c)
}

// lattice enumerates the scenario cells (normalised, de-duplicated, in a fixed order), followed by the client-shape layer.
// full: the complete product router x flow x {RS256, ES256, EdDSA} x capability shape x client kind x token type x every flow variant.
// !full (quick tier): one layer of it - every router x flow x client kind x token type x the storage-relevant flow variants
// (richest scope set, default response mode), with algorithm and capability shape rotating over the cells instead of being crossed.
func lattice(full bool) []Case {
	seen := map[string]bool{}
	var out []Case
	k := 0
	add := func(c Case) {
		if !full {
			c.Alg, c.Caps = "RS256", capsOf("extras", c.Flow)
		}
		n := normalize(c)
		b, _ := json.Marshal(n)
		if seen[string(b)] {
			return
		}
		seen[string(b)] = true
		if !full {
			c.Alg = allAlgs[k%len(allAlgs)]
			c.Caps = capsOf(capKinds[k%len(capKinds)], c.Flow)
			if c.Flow == "jwt_bearer" && c.JWTAT || c.SubjectType == "third" || c.ActorType == "third" {
				c.Caps = capsOf("extras", c.Flow) // JWTProfileTokenStorage / TokenExchangeTokensVerifierStorage
			}
			k++
			n = normalize(c)
		}
		out = append(out, n)
	}
	bools := []bool{false, true}
	algs, caps, scopes, modes := latticeAlgs, capKinds, scopeSets, responseModes
	actors, requested := actorTypes, []string{"", "access", "refresh", "id"}
	// quick layer of the token-exchange variants: every value of every dimension at least twice
	teQuick := map[string]bool{"access//": true, "refresh/id/refresh": true, "id//id": true, "access/id/id": true, "refresh//access": true, "id/access/refresh": true, "access/access/refresh": true, "third//": true, "third/third/refresh": true, "id/third/id": true, "opaque//": true, "opaque/id/refresh": true}
	if !full {
		algs, caps, scopes, modes = []string{""}, []string{""}, scopeSets[2:], []string{""}
	}
	for _, router := range routers {
		for _, flow := range flows {
			for _, alg := range algs {
				for _, ck := range caps {
					base := Case{Router: router, Flow: flow, Alg: alg, Caps: capsOf(ck, flow)}
					for _, client := range allowedClients(router, flow) {
						for _, jwt := range bools {
							c := base
							c.Client, c.JWTAT = client, jwt
							switch flow {
							case "authorize":
								for _, rt := range []string{"code", "id_token", "id_token token"} {
									for _, m := range modes {
										for _, h := range bools {
											for _, ro := range bools {
												d := c
												d.ResponseType, d.ResponseMode, d.Hint, d.ReqObj = rt, m, h, ro
												add(d)
											}
										}
									}
								}
							case "callback_code":
								for _, m := range modes {
									for _, ss := range bools {
										d := c
										d.ResponseMode, d.SessionState = m, ss
										add(d)
									}
								}
							case "callback_implicit":
								for _, rt := range []string{"id_token", "id_token token"} {
									for _, m := range modes {
										for _, sc := range scopes {
											for _, ua := range bools {
												d := c
												d.ResponseType, d.ResponseMode, d.Scopes, d.UIAssert = rt, m, sc, ua
												add(d)
											}
										}
									}
								}
							case "code_exchange", "device_poll":
								for _, sc := range scopes {
									for _, ua := range bools {
										for _, pk := range bools {
											if !full && ua != jwt {
												continue // quick layer: the userinfo-assertion flag rides on the token type
											}
											d := c
											d.Scopes, d.UIAssert, d.PKCE = sc, ua, pk
											add(d)
										}
									}
								}
							case "refresh":
								for _, sc := range scopes {
									for _, ua := range bools {
										for _, nw := range bools {
											if !full && ua != jwt {
												continue
											}
											d := c
											d.Scopes, d.UIAssert, d.Narrow = sc, ua, nw
											add(d)
										}
									}
								}
							case "token_exchange":
								for _, s := range subjectTypes {
									for _, a := range actors {
										for _, rq := range requested {
											if !full && !teQuick[s+"/"+a+"/"+rq] {
												continue
											}
											d := c
											d.SubjectType, d.ActorType, d.Requested = s, a, rq
											add(d)
										}
									}
								}
							case "userinfo", "introspect":
								for _, sc := range scopes {
									d := c
									d.Scopes = sc
									add(d)
								}
							case "revoke":
								for _, tk := range []string{"access", "refresh"} {
									for _, th := range []string{"", "access_token", "refresh_token"} {
										d := c
										d.TokenKind, d.TypeHint = tk, th
										add(d)
									}
								}
							case "end_session":
								for _, h := range bools {
									for _, cp := range bools {
										for _, pl := range bools {
											for _, s := range bools {
												d := c
												d.Hint, d.ClientParam, d.PostLogout, d.State = h, cp, pl, s
												add(d)
											}
										}
									}
								}
							default:
								add(c)
							}
						}
					}
				}
			}
		}
	}
	// The client-shape layer: every credential flow on both routers x auth method x presentation x application type
	// (x a storage that lets an empty secret match a client without one), other dimensions at their defaults.
	// quick: the application type is crossed for the device flows (whose outcome depends on it) and rotates over the other cells.
	for _, router := range routers {
		for _, flow := range credFlows {
			for _, client := range clientKinds {
				for _, pres := range append([]string{""}, presentations...) {
					rot := k % len(appTypes)
					for ai, app := range appTypes {
						if !full && flow != "device_authorize" && flow != "device_poll" && ai != rot {
							continue
						}
						for _, eso := range bools {
							for _, jwt := range bools {
								if !full && jwt {
									continue
								}
								c := Case{Router: router, Flow: flow, Alg: "RS256", Caps: capsOf("full", flow), Client: client, Present: pres, AppType: app, EmptySecretOK: eso, JWTAT: jwt}
								c.Scopes, c.SubjectType = scopeSets[1], "access"
								add(c)
							}
						}
					}
				}
			}
		}
	}
	return out
}

// ---- oracle (written from the statement; knows nothing of the handlers) --------------------

var (
	jwsRE       = regexp.MustCompile(`eyJ[A-Za-z0-9_-]{8,}\.[A-Za-z0-9_-]{8,}\.[A-Za-z0-9_-]*`)
	inputRE     = regexp.MustCompile(`name="(code|id_token|access_token|refresh_token)"\s+value="([^"]+)"`)
	tokenKeys   = []string{"access_token", "id_token", "refresh_token", "code", "device_code", "user_code"} // device flow: the device_code / user_code pair is the "code" of that flow
	claimKeys   = []string{"sub", "email", "email_verified", "name", "given_name", "family_name", "preferred_username", "locale", "phone_number", "phone_number_verified", "address", "username", vkit.CustomClaim, "from_request", "act"}
	piiNeedles  []string
	fragileOnce sync.Once
)

func needles() []string {
	fragileOnce.Do(func() {
		for _, id := range vkit.AllUserIDs {
			u := vkit.Users[id]
			piiNeedles = append(piiNeedles, u.Email, u.Phone, "town-of-"+u.ID)
		}
	})
	return piiNeedles
}

// sameTarget: location points at uri (ignoring the response parameters that were added).
func sameTarget(location, uri string) bool {
	pl, err1 := url.Parse(location)
	pr, err2 := url.Parse(uri)
	if err1 != nil || err2 != nil {
		return false
	}
	return pl.Scheme == pr.Scheme && pl.Host == pr.Host && pl.EscapedPath() == pr.EscapedPath() && pl.User == nil && pl.Opaque == ""
}

// jsonObjects decodes every top-level JSON object in b (a handler that keeps going after an error writes several).
func jsonObjects(b []byte) []map[string]any {
	var out []map[string]any
	dec := json.NewDecoder(bytes.NewReader(b))
	for {
		var v any
		if err := dec.Decode(&v); err != nil {
			return out
		}
		if m, ok := v.(map[string]any); ok {
			out = append(out, m)
		}
	}
}

// material lists everything in the response that the statement forbids after a storage failure.
func material(r *vkit.Resp) []string {
	found := map[string]bool{}
	for _, m := range jsonObjects(r.Body) { // every JSON value of the body, not only the first
		for _, k := range tokenKeys {
			if s, ok := m[k].(string); ok && s != "" {
				found[k] = true
			}
		}
		if a, ok := m["active"].(bool); ok && a {
			found["active:true"] = true
		}
		for _, k := range claimKeys {
			if v, ok := m[k]; ok && v != nil && v != "" {
				found["claims"] = true
			}
		}
	}
	loc := r.Location()
	if loc != "" {
		p := vkit.DeliveredParams(loc)
		for _, k := range tokenKeys {
			if p.Get(k) != "" {
				found[k] = true
			}
		}
	}
	for _, m := range inputRE.FindAllStringSubmatch(string(r.Body), -1) {
		found[m[1]] = true
	}
	if jwsRE.Match(r.Body) || jwsRE.MatchString(loc) {
		found["jws"] = true
	}
	for _, n := range needles() {
		if strings.Contains(string(r.Body), n) || strings.Contains(loc, n) || strings.Contains(loc, url.QueryEscape(n)) {
			found["claims"] = true
		}
	}
	out := make([]string, 0, len(found))
	for k := range found {
		out = append(out, k)
	}
	sort.Strings(out)
	return out
}

// succeeded: the fault-free baseline did what the flow is for (otherwise the scenario says nothing about failing closed).
func succeeded(c Case, r *vkit.Resp) bool {
	if r.Panic != nil {
		return false
	}
	switch c.Flow {
	case "authorize":
		_, ok := vkit.LoginRequestID(r)
		return ok
	case "callback_code", "callback_implicit":
		want := "code"
		if c.Flow == "callback_implicit" {
			want = "id_token"
		}
		if c.ResponseMode == "form_post" {
			return r.Status == 200 && has(material(r), want)
		}
		return r.IsRedirect() && sameTarget(r.Location(), redirectURI) && vkit.DeliveredParams(r.Location()).Get(want) != ""
	case "code_exchange", "refresh", "device_poll":
		return r.Success() && r.Str("access_token") != "" && r.Str("id_token") != ""
	case "client_credentials", "jwt_bearer", "token_exchange":
		return r.Success() && r.Str("access_token") != ""
	case "device_authorize":
		return r.Success() && r.Str("device_code") != "" && r.Str("user_code") != ""
	case "userinfo":
		return r.Success() && r.Str("sub") == userMain
	case "introspect":
		return r.Success() && r.JSON()["active"] == true
	case "revoke":
		return r.Status == 200
	case "keys":
		m := r.JSON()
		if m == nil || !r.Success() {
			return false
		}
		k, ok := m["keys"].([]any)
		return ok && len(k) > 0
	case "end_session":
		want := defaultLogout
		if c.PostLogout {
			want = postLogoutURI
		}
		return r.IsRedirect() && sameTarget(r.Location(), want)
	}
	return false
}

// errorAnswer: is the response one of the three error shapes of the statement (or, for introspection, "not active")?
// validated: the redirect URI of the request had been validated before the failing call.
func errorAnswer(c Case, r *vkit.Resp, validated bool) (bool, string) {
	if r.Status >= 400 && r.Status < 600 {
		if r.OAuthError() != "" {
			return true, "oauth-error-document"
		}
		return true, "status-" + fmt.Sprint(r.Status/100) + "xx"
	}
	if r.IsRedirect() && (c.Flow == "authorize" || c.Flow == "callback_code" || c.Flow == "callback_implicit") {
		if sameTarget(r.Location(), redirectURI) && vkit.DeliveredParams(r.Location()).Get("error") != "" {
			if validated {
				return true, "error-redirect"
			}
			return false, "error-redirect-before-validation"
		}
		return false, "redirect-elsewhere"
	}
	if objs := jsonObjects(r.Body); len(objs) == 1 && r.SingleJSON() && !r.IsRedirect() {
		// the statement lists "an OAuth error document" as an error answer in its own right: a body that is exactly one
		// JSON object with a non-empty "error" member counts whatever the status (forbidden material is judged separately)
		if e, ok := objs[0]["error"].(string); ok && e != "" {
			return true, "oauth-error-document-non-4xx"
		}
	}
	if c.Flow == "introspect" && r.Status == 200 {
		if m := r.JSON(); m != nil {
			if a, ok := m["active"]; !ok || a == false {
				return true, "introspection-inactive"
			}
		}
	}
	return false, fmt.Sprintf("status-%d", r.Status)
}

// ---- counters for the evidence (statistics only; nothing is decided from them) -------------

var stats = struct {
	sync.Mutex
	n map[string]int
}{n: map[string]int{}}

func count(k string, d int) {
	stats.Lock()
	stats.n[k] += d
	stats.Unlock()
}

func flushStats(rec *vkit.Recorder) {
	stats.Lock()
	defer stats.Unlock()
	for k, v := range stats.n {
		rec.SetExtra(k, v)
	}
	rec.SetExtra("exhaustive_positions", true)
}

// ---- run -----------------------------------------------------------------------------------

// Fault kinds = the error values a storage hands back when a call fails. The interface leaves the choice to the storage, the
// statement quantifies over "any call fails": a plain error, a context timeout, a failure after the out-parameter was filled /
// the write was done ("partial"), a ready-made *oidc.Error (server_error), a plain error that wraps an *oidc.Error.
var (
	faultKinds      = []string{"error", "deadline", "partial", "oidc", "oidc-wrapped"}
	methodWideKinds = []string{"error", "deadline", "oidc", "oidc-wrapped"}
	// libSentinelKinds: the exported error values of pkg/op, pkg/oidc and context that the library itself gives a special
	// treatment somewhere (errors.Is / errors.As branches: op.ErrInvalidRefreshToken, op.ErrDuplicateUserCode, oidc.ErrKeyNone,
	// context.Canceled, a wrapped context.DeadlineExceeded, *oidc.Error values of types that are legitimate answers elsewhere:
	// access_denied, slow_down, authorization_pending), plain and wrapped with fmt.Errorf("%w"). A storage may hand back - or
	// pass on from a layer below - any of them from ANY call (a rotated refresh token met at CreateAccessAndRefreshTokens, a
	// cancelled context, a missing key ...), so every one is injected at every call position of every flow: whatever the
	// value, the call failed and the statement demands an error answer without material.
	libSentinelKinds = vkit.SentinelFaultKinds
	// sentinelKinds: error values that the storage interface documents as a *try-again failure* of that very method
	// (op.ErrDuplicateUserCode = StoreDeviceAuthorization did not store the authorization): in addition to the single-position
	// runs they are injected with every call of the method failing, and only for them the tolerated region below exists.
	sentinelKinds = map[string][]string{"StoreDeviceAuthorization": {"dup-user-code"}}
	// regularAnswers: error values that are the method's documented regular answer, not a failure of the call:
	// op.ErrInvalidRefreshToken from GetRefreshTokenInfo = "this is not a refresh token" (revocation then tries the token as
	// an access token). Never injected there.
	regularAnswers = map[string][]string{"GetRefreshTokenInfo": {"invalid-refresh", "invalid-refresh-wrapped"}}
)

// kindsAt: the fault kinds injected at a single call position whose method is m (base kinds, then every library sentinel
// except the method's regular answers).
func kindsAt(m string) []string {
	out := append([]string{}, faultKinds...)
	for _, k := range libSentinelKinds {
		if !has(regularAnswers[m], k) {
			out = append(out, k)
		}
	}
	return out
}

func isSentinel(kind string) bool { return has(libSentinelKinds, kind) }

// Real context ends: besides the injected VALUES context.Canceled / context.DeadlineExceeded (a storage with a context of its
// own: driver timeout, pool shutdown - the request's context stays alive), a storage call also fails because the REQUEST'S
// context ended while the call was under way (client gone, timeout middleware in front of the provider): the call returns
// ctx.Err() and r.Context() is done for whatever the handler does next. The statement makes no exception for that: a storage
// call failed, the request is answered with an error - a handler that writes nothing is answered 200 OK by net/http.
var (
	realModes    = []string{"cancel", "deadline"}
	realKindName = map[string]string{"cancel": "ctx-canceled-real", "deadline": "ctx-deadline-real"}
	realInjected = map[string]string{"cancel": "canceled", "deadline": "deadline"} // the vkit fault kind whose value equals ctx.Err()
)

// backed: the success answer r is a genuine one, i.e. what it hands out is what the storage of this execution holds.
// Only used to delimit the tolerated region "documented try-again sentinel at ONE position, the library tried again, the
// storage accepted"; flows without such a sentinel report false (then the statement is asserted as it stands).
func backed(c Case, out outcome) bool {
	switch c.Flow {
	case "device_authorize":
		dc, uc := out.resp.Str("device_code"), out.resp.Str("user_code")
		if dc == "" || uc == "" {
			return false
		}
		state, storedUC, ok := out.st.DeviceSnapshot(dc)
		return ok && storedUC == uc && state.ClientID == "main"
	}
	return false
}

type infoT struct {
	Baseline string         `json:"baseline"` // success | refused:<error shape> (the fault-free request)
	Calls    []string       `json:"calls"`
	Triples  int            `json:"triples"`
	Methods  int            `json:"method_wide_runs"`
	Outcomes map[string]int `json:"outcomes"`
}

func run(c Case) (res *vkit.Result) {
	res = &vkit.Result{}
	defer func() {
		if p := recover(); p != nil {
			res.Fail("C10:panic@"+vkit.FirstLibFrame(string(debug.Stack())), "panic outside a handler: %v", p)
		}
	}()
	c = normalize(c)
	kb, _ := json.Marshal(c)
	res.Key = string(kb)
	capName := "min"
	if c.Caps.Extras {
		capName = "extras"
	} else if c.Caps == vkit.FullCaps {
		capName = "full"
	}
	tt := "opaque"
	if c.JWTAT {
		tt = "jwt"
	}
	res.Label("flow:"+c.Flow, "router:"+c.Router, "cell:"+c.Flow+"/"+c.Router, "client:"+c.Client, "token:"+tt, "alg:"+c.Alg, "caps:"+capName)

	base := execute(c, nil)
	if base.setupNote != "" {
		res.Grey = true
		res.Label("setup-failed:" + c.Flow + ":" + base.setupNote)
		count("setup_failed", 1)
		return res
	}
	info := infoT{Outcomes: map[string]int{}, Baseline: "success"}
	if !succeeded(c, base.resp) {
		// The fault-free request is not served (e.g. a presentation that does not fit the client). The statement speaks of every
		// request: if the baseline is a clean refusal (an error answer without material) its storage calls are enumerated all the
		// same - a failing storage call must not turn a refused request into a served one. Anything else (neither success nor a
		// clean refusal) is not this property's business: counted, nothing asserted.
		refusal, how := errorAnswer(c, base.resp, true)
		if base.resp.Panic != nil || !refusal || len(material(base.resp)) > 0 {
			res.Grey = true
			res.Label("baseline-not-success:" + c.Flow + "/" + c.Router)
			count("baseline_not_success", 1)
			res.Info = map[string]any{"baseline": base.resp.Describe()}
			return res
		}
		info.Baseline = "refused:" + how
		count("baseline_refused", 1)
		count("baseline_refused_positions", len(base.calls))
	}
	baseKind := strings.SplitN(info.Baseline, ":", 2)[0]
	res.Label("baseline:"+baseKind, "baseline:"+baseKind+":"+c.Flow+"/"+c.Router)
	if has(credFlows, c.Flow) {
		app, pres := c.AppType, c.Present
		if app == "" {
			app = defaultAppType(c.Client)
		}
		if pres == "" {
			pres = "fitting"
		}
		res.Label("app:"+app, "present:"+c.Client+"/"+pres+":"+baseKind)
		if c.EmptySecretOK {
			res.Label("store:empty-secret-ok")
		}
	}
	n := len(base.calls)
	var methods []string
	for _, e := range base.calls {
		info.Calls = append(info.Calls, e.Method)
		if !has(methods, e.Method) {
			methods = append(methods, e.Method)
		}
	}
	switch {
	case n == 0:
		res.Label("N:0")
	case n <= 3:
		res.Label("N:1-3")
	case n <= 7:
		res.Label("N:4-7")
	default:
		res.Label("N:8+")
	}
	count("scenarios", 1)
	count("positions", n)
	count("rerun_diverged", 0)
	count("fault_not_fired", 0)
	reqNo := base.resp.Req

	labelled := map[string]bool{}
	judge := func(f vkit.Fault, where string, real *realEnd) {
		wide := f.Call == 0
		kind := f.Kind
		if real != nil {
			kind = realKindName[real.Mode]
		}
		out := executeReal(c, []vkit.Fault{f}, real)
		if out.setupNote != "" || out.resp.Req != reqNo {
			count("rerun_diverged", 1)
			res.Label("rerun-diverged")
			return
		}
		r := out.resp
		method, pos := "", 0
		validated := c.Flow != "authorize"
		for _, e := range out.calls {
			if e.Fault {
				method, pos = e.Method, e.Call
				break
			}
			if e.Method == "GetClientByClientID" {
				validated = true
			}
		}
		if method == "" {
			count("fault_not_fired", 1)
			res.Label("fault-not-fired")
			return
		}
		if real != nil {
			// (the context was ended while this very call was parked on entry: the gate counts the calls of the method made
			// since the set-up, the fault plan counts the calls of the request - both name the same call)
			count("real_ctx_runs", 1)
			count("real_ctx_runs_at_"+method, 1)
			if !labelled["real:"+real.Mode+":"+method] {
				labelled["real:"+real.Mode+":"+method] = true
				res.Label("real-ctx:"+real.Mode, "real-ctx-at:"+method)
			}
		}
		if f.Kind == "partial" && method == "GetRefreshTokenInfo" && c.TokenKind == "access" {
			// The verification storage looks the token up before it injects a partial-fill failure; for an access token the
			// call therefore returns its regular answer op.ErrInvalidRefreshToken ("not a refresh token, try the other kind"),
			// exactly as in the fault-free run: no storage failure took place, the statement does not apply.
			count("grey_partial_is_regular_answer", 1)
			res.Label("grey:partial-fault-is-the-regular-not-a-refresh-token-answer")
			return
		}
		if has(regularAnswers[method], f.Kind) {
			// (only if the re-run took another path than the baseline: kindsAt already leaves these out)
			count("grey_regular_answer_injected", 1)
			res.Label("grey:injected-value-is-the-regular-answer-of-the-method")
			return
		}
		count("faulted_"+method, 1)
		cell := c.Flow + ":" + c.Router + ":" + method
		desc := fmt.Sprintf("%s/%s: storage call %d (%s) failing with %q [%s]", c.Flow, c.Router, pos, method, kind, where)
		if r.Panic != nil {
			res.Fail("C10:panic@"+r.PanicFrame(), "%s: handler panicked: %v", desc, r.Panic)
			info.Outcomes["panic"]++
			return
		}
		if isSentinel(f.Kind) && real == nil {
			count("libsentinel_runs_at_"+method, 1)
			if !labelled["libsentinel:"+method] {
				labelled["libsentinel:"+method] = true
				res.Label("libsentinel-at:" + method)
			}
		}
		if has(sentinelKinds[method], f.Kind) {
			count("sentinel_runs_"+method+"_"+f.Kind, 1)
			if !labelled["sentinel:"+method+"/"+f.Kind] {
				labelled["sentinel:"+method+"/"+f.Kind] = true
				res.Label("sentinel:" + method + "/" + f.Kind)
			}
			if !wide {
				// A documented try-again sentinel at ONE position: a library that tries the same method again and gets the
				// storage to accept may answer with a genuine success - no storage failure is left standing, the statement is
				// not contradicted. Tolerated only when the journal shows a later un-faulted call of the same method AND the
				// success is backed by the storage; everything else is judged as the statement says. (With EVERY call of the
				// method failing - the method-wide runs - there is no such region: error answer, no material.)
				retried := false
				for _, e := range out.calls {
					if e.Call > pos && e.Method == method && !e.Fault {
						retried = true
					}
				}
				if retried && succeeded(c, r) && backed(c, out) {
					count("grey_sentinel_retried_genuine_success", 1)
					res.Label("grey:sentinel-fault-retried-genuine-success")
					return
				}
			}
		}
		ok, how := errorAnswer(c, r, validated)
		if !ok && r.JournalAtWrite < 0 && r.WriteHeaderCalls == 0 && len(r.Body) == 0 {
			// the handler returned without writing a status or a byte: net/http turns that into 200 OK with an empty body
			how = "nothing-written-" + how
		}
		if info.Outcomes[how] == 0 {
			res.Label("answer:" + how)
		}
		info.Outcomes[how]++
		count("outcome_"+how, 1)
		mat := material(r)
		if !ok {
			res.Fail("C10:no-error:"+cell, "%s: the request was not answered with an error (%s; forbidden material: %v): %s", desc, how, mat, r.Describe())
			return
		}
		for _, m := range mat {
			res.Fail("C10:leak:"+m+":"+cell, "%s: the error answer (%s) carries %s: %s", desc, how, m, r.Describe())
		}
	}

	for j := 1; j <= n; j++ {
		for _, k := range kindsAt(base.calls[j-1].Method) {
			judge(vkit.Fault{Req: reqNo, Call: j, Kind: k}, "single", nil)
			info.Triples++
			count("triples", 1)
			count("triples_kind_"+k, 1)
			count("triples_flow_"+c.Flow, 1)
			if j >= 2 || k == "partial" {
				count("triples_nontrivial", 1)
			}
		}
		// the same position with the request's own context really ending inside the call
		nth := 0
		for _, e := range base.calls[:j] {
			if e.Method == base.calls[j-1].Method {
				nth++
			}
		}
		for _, mode := range realModes {
			judge(vkit.Fault{Req: reqNo, Call: j, Kind: realInjected[mode]}, "single, request context ended inside the call", &realEnd{Method: base.calls[j-1].Method, Nth: nth, Mode: mode})
			info.Triples++
			count("triples", 1)
			count("triples_kind_"+realKindName[mode], 1)
			count("triples_flow_"+c.Flow, 1)
			if j >= 2 {
				count("triples_nontrivial", 1)
			}
		}
	}
	for _, m := range methods {
		for _, k := range append(append([]string{}, methodWideKinds...), sentinelKinds[m]...) {
			judge(vkit.Fault{Req: reqNo, Method: m, Kind: k}, "every call of "+m, nil)
			info.Methods++
			count("method_wide_runs", 1)
			count("method_wide_kind_"+k, 1)
		}
		for _, mode := range realModes {
			// the context ends inside the first call of m; that call and every later one of m fail with the context's error
			// (thorough tier only: it differs from the single-position run at the first call of m only where m is called again)
			if vkit.Tier() != "thorough" {
				break
			}
			judge(vkit.Fault{Req: reqNo, Method: m, Kind: realInjected[mode]}, "every call of "+m+", request context ended inside the first", &realEnd{Method: m, Nth: 1, Mode: mode})
			info.Methods++
			count("method_wide_runs", 1)
			count("method_wide_kind_"+realKindName[mode], 1)
		}
	}
	res.NonTrivial = n >= 2
	res.Info = info
	return res
}

var prop = vkit.Prop[Case]{
	ID: "C10",
	Rule: "case = scenario (router x 15 flows x client shape [application type web / user_agent / native x auth method basic / post / private_key_jwt / none x credential presentation of the request under test: fitting | Basic with secret | Basic with EMPTY password | form secret | client_id only | assertion; storage policy: an empty secret matches a client without one, or not] x opaque/JWT access token x signing alg x storage capability shape incl. extras x flow variant: scopes, response type/mode, PKCE, userinfo assertion, " +
		"id_token_hint, request object, subject/actor/requested token type, revoked token kind/hint, logout parameters); run = fault-free baseline, then the scenario rebuilt and re-run for EVERY storage-call position j of the request under test x " +
		"{error, context.DeadlineExceeded, partial-fill-then-error, *oidc.Error server_error, plain error wrapping an *oidc.Error, + every library sentinel a storage may return or pass on from any call: " +
		"op.ErrInvalidRefreshToken plain and %w-wrapped (not at GetRefreshTokenInfo, whose regular answer it is), op.ErrDuplicateUserCode, oidc.ErrKeyNone, context.Canceled, %w-wrapped context.DeadlineExceeded, *oidc.Error access_denied / slow_down / authorization_pending} " +
		"+ the REQUEST'S OWN CONTEXT really ending inside the failing call: the request under test is served with a context of its own, the call parks on entry, the harness cancels the context (ctx-canceled-real) or lets its deadline pass (ctx-deadline-real), the call returns ctx.Err() and r.Context() is done for whatever the handler does next (extra keys real_ctx_runs, real_ctx_runs_at_<method>, triples_kind_ctx-*-real; labels real-ctx:<cancel|deadline>, real-ctx-at:<method>; a handler that writes nothing = 200 with an empty body = no error answer, labelled answer:nothing-written-status-200) " +
		"and for every distinct method x {error, deadline, oidc, oidc-wrapped, + its documented sentinels; thorough: + both real context ends inside its first call} with ALL its calls failing, retries included (extra keys: triples, triples_kind_*, triples_nontrivial = j>=2 or partial, positions, method_wide_runs, method_wide_kind_*, sentinel_runs_*, libsentinel_runs_at_<method>; labels libsentinel-at:<method>); " +
		"forbidden material includes device_code / user_code; a single-position fault with the try-again sentinel documented for that method (op.ErrDuplicateUserCode at StoreDeviceAuthorization) that the library answers by calling the same method again is grey only if the success is backed by the storage (grey_sentinel_retried_genuine_success); " +
		"non-trivial scenario = request under test makes >= 2 storage calls; distinct = normalised scenario; scenarios whose fault-free request is refused with a clean error answer are enumerated all the same (baseline_refused; labels baseline:<success|refused>:<flow>/<router>, present:<auth method>/<presentation>:<success|refused>, app:<type>, store:empty-secret-ok); excluded and counted: scenarios whose fault-free baseline is neither a success nor a clean refusal (baseline_not_success)",
	Gen: genCase,
	Run: run,
}

func TestRapid(t *testing.T) {
	rec := vkit.NewRecorder(prop.ID, prop.Rule)
	defer rec.Flush()
	defer flushStats(rec)
	prop.CheckWith(t, rec)
}

func TestReplay(t *testing.T) { prop.Replay(t) }

// TestLattice enumerates the scenario lattice itself (no sampling): thorough = every cell, split over the shards;
// quick = the coarse layer (every flow x router x client kind x token type with default variants).
func TestLattice(t *testing.T) {
	rec := vkit.NewRecorder(prop.ID, prop.Rule)
	defer rec.Flush()
	defer flushStats(rec)
	full := vkit.Tier() == "thorough"
	cells := lattice(full)
	shard, shards := vkit.EnvInt("VERIF_SHARD", 0), vkit.EnvInt("VERIF_SHARDS", 1)
	if shards < 1 {
		shards = 1
	}
	done := 0
	for i, c := range cells {
		if i%shards != shard {
			continue
		}
		res := run(c)
		rec.Record(c, res)
		done++
		if fresh := vkit.Judge(rec, prop.ID, res); len(fresh) > 0 {
			rec.WriteFail(c, fresh)
			t.Fatalf("VIOLATION %s: %s [%s]", prop.ID, fresh[0].Msg, fresh[0].FP)
		}
	}
	rec.SetExtra("lattice_cells_total", fmt.Sprint(len(cells)))
	count("lattice_cells_run", done)
	rec.SetExtra("lattice_full", full)
	if os.Getenv("VERIF_VERBOSE") != "" {
		t.Logf("lattice: %d cells, %d run in shard %d/%d", len(cells), done, shard, shards)
	}
}
