package c10

import (
	"context"
	"encoding/json"
	"net/http"
	"net/url"
	"strings"
	"sync"
	"time"

	"verif/harness/vkit"
)

// ---- the fixed cast of a scenario ------------------------------------------------

const (
	issuer        = "https://op.example.com"
	redirectURI   = "https://rp.example.com/cb"
	postLogoutURI = "https://rp.example.com/out"
	defaultLogout = "https://op.example.com/logged-out"
	userMain      = "u1"
	userActor     = "u2"

	ttAccess  = "urn:ietf:params:oauth:token-type:access_token"
	ttRefresh = "urn:ietf:params:oauth:token-type:refresh_token"
	ttID      = "urn:ietf:params:oauth:token-type:id_token"
)

var algKey = map[string]string{
	"RS256": "rsa1", "RS384": "rsa1", "RS512": "rsa1", "PS256": "rsa1", "PS384": "rsa1", "PS512": "rsa1",
	"ES256": "p256a", "ES384": "p384", "ES512": "p521", "EdDSA": "ed1",
}

// world is everything one execution of a scenario builds (fresh every time).
type world struct {
	c    Case
	st   *vkit.Store
	sut  *vkit.SUT
	ag   *vkit.Agent
	main *vkit.ClientSpec // the client of the request under test
	aux  *vkit.ClientSpec // issues subject / actor tokens and id_token hints (confidential, basic, JWT access tokens)
	auxO *vkit.ClientSpec // same, with opaque access tokens
	svc  *vkit.ClientSpec // service user of the jwt-bearer grant (keys only)
}

func newWorld(c Case) *world {
	w := &world{c: c}
	all := append([]string(nil), vkit.AllGrants...)
	w.main = &vkit.ClientSpec{
		ID: "main", Secret: "main-secret", AppType: "web", AuthMethod: "client_secret_basic",
		GrantTypes: all, ResponseTypes: []string{"code", "id_token", "id_token token"},
		RedirectURIs: []string{redirectURI}, PostLogoutURIs: []string{postLogoutURI},
		JWTAccessToken: c.JWTAT, UserinfoAssertion: c.UIAssert, Keys: map[string]string{"mk": "rsa2"},
		AllowedScopes: []string{vkit.CustomScope}, Service: c.Flow == "client_credentials",
	}
	switch c.Client {
	case "post":
		w.main.AuthMethod = "client_secret_post"
	case "pkjwt":
		w.main.AuthMethod = "private_key_jwt"
	case "public":
		w.main.AuthMethod, w.main.AppType, w.main.Secret = "none", "native", ""
	}
	if c.AppType != "" {
		w.main.AppType = c.AppType
	}
	w.aux = &vkit.ClientSpec{
		ID: "aux", Secret: "aux-secret", AppType: "web", AuthMethod: "client_secret_basic",
		GrantTypes: all, ResponseTypes: []string{"code"}, RedirectURIs: []string{redirectURI},
		JWTAccessToken: true, Keys: map[string]string{"ak": "rsa3"}, AllowedScopes: []string{vkit.CustomScope},
	}
	ao := *w.aux
	ao.ID, ao.JWTAccessToken = "aux-opaque", false
	w.auxO = &ao
	w.svc = &vkit.ClientSpec{ID: "svcuser", AppType: "web", AuthMethod: "private_key_jwt", GrantTypes: []string{vkit.GBearer}, Keys: map[string]string{"sk": "rsa4"}}
	pol := vkit.StorePolicy{JWTProfileJWT: c.JWTAT, TE: vkit.TEPolicy{VerifyThird: true}, EmptySecretOK: c.EmptySecretOK}
	if c.SessionState {
		pol.SessionState = "sess-state-1"
	}
	w.st = vkit.NewStore([]*vkit.ClientSpec{w.main, w.aux, w.auxO, w.svc}, vkit.SignKeySpec{KeyName: algKey[c.Alg], Alg: c.Alg, KID: "sig1"}, pol)
	spec := vkit.DefaultProviderSpec(c.Router)
	spec.Caps = c.Caps
	w.sut = vkit.MustBuild(spec, w.st)
	w.ag = vkit.NewAgent(w.sut)
	return w
}

func (w *world) cred(cl *vkit.ClientSpec) vkit.Cred { return vkit.RightCred(cl, issuer) }

// present: how the client of the request under test presents itself (set-up requests always use the fitting presentation).
func (w *world) present() vkit.Cred {
	cl := w.main
	switch w.c.Present {
	case "basic":
		return vkit.Cred{Kind: "basic", ClientID: cl.ID, Secret: cl.Secret}
	case "basic-empty": // RFC 6749 2.3.1 as some HTTP libraries do it for a client without a secret: "client_id:" in the Basic header
		return vkit.Cred{Kind: "basic", ClientID: cl.ID}
	case "post":
		return vkit.Cred{Kind: "post", ClientID: cl.ID, Secret: cl.Secret}
	case "id":
		return vkit.Cred{Kind: "none", ClientID: cl.ID}
	case "assertion":
		return vkit.Cred{Kind: "assertion", Assertion: vkit.ClientAssertion(cl, issuer, time.Now())}
	}
	return w.cred(cl)
}

const pkceVerifier = "verifier-0123456789-0123456789-0123456789-0123456789"

func (w *world) authQuery(cl *vkit.ClientSpec, responseType string, scopes []string, mode string, pkce bool) url.Values {
	q := vkit.AuthParams(cl, redirectURI, responseType, strings.Join(scopes, " "), "st8", "n0nce")
	if mode != "" {
		q.Set("response_mode", mode)
	}
	if pkce {
		q.Set("code_challenge", vkit.S256(pkceVerifier))
		q.Set("code_challenge_method", "S256")
	}
	return q
}

type tokens struct{ access, refresh, id string }

// codeFlow drives authorize -> login -> callback -> code exchange for cl (fault-free set-up step).
func (w *world) codeFlow(cl *vkit.ClientSpec, user string, scopes []string, pkce bool) (tokens, bool) {
	fl := w.ag.RunAuth(w.authQuery(cl, "code", scopes, "", pkce), user)
	if fl.Code == "" {
		return tokens{}, false
	}
	v := ""
	if pkce {
		v = pkceVerifier
	}
	r := w.ag.Token(vkit.CodeExchangeForm(fl.Code, redirectURI, v), w.cred(cl))
	if !r.Success() || r.Str("access_token") == "" {
		return tokens{}, false
	}
	return tokens{access: r.Str("access_token"), refresh: r.Str("refresh_token"), id: r.Str("id_token")}, true
}

func requestObject(cl *vkit.ClientSpec, kid, key, responseType string, scopes []string) string {
	m := map[string]any{"iss": cl.ID, "aud": []string{issuer}, "client_id": cl.ID, "response_type": responseType,
		"redirect_uri": redirectURI, "scope": strings.Join(scopes, " "), "iat": time.Now().Unix(), "exp": time.Now().Add(time.Hour).Unix()}
	b, _ := json.Marshal(m)
	return vkit.MustSignJWT("RS256", kid, vkit.Key(key), b)
}

// prepare runs the (fault-free) set-up of the scenario and returns the request under test as a thunk.
func (w *world) prepare() (func() *vkit.Resp, string) {
	c := w.c
	switch c.Flow {
	case "authorize":
		q := w.authQuery(w.main, c.ResponseType, c.Scopes, c.ResponseMode, c.PKCE)
		if c.Hint {
			t, ok := w.codeFlow(w.aux, userMain, []string{"openid"}, false)
			if !ok || t.id == "" {
				return nil, "hint-flow"
			}
			q.Set("id_token_hint", t.id)
		}
		if c.ReqObj {
			q.Set("request", requestObject(w.main, "mk", "rsa2", c.ResponseType, c.Scopes))
		}
		return func() *vkit.Resp { return w.ag.Authorize(q) }, ""

	case "callback_code", "callback_implicit":
		a := w.ag.Authorize(w.authQuery(w.main, c.ResponseType, c.Scopes, c.ResponseMode, c.PKCE))
		id, ok := vkit.LoginRequestID(a)
		if !ok || !w.st.Login(id, userMain) {
			return nil, "authorize"
		}
		return func() *vkit.Resp { return w.ag.Callback(id) }, ""

	case "code_exchange":
		fl := w.ag.RunAuth(w.authQuery(w.main, "code", c.Scopes, "", c.PKCE), userMain)
		if fl.Code == "" {
			return nil, "auth-flow"
		}
		v := ""
		if c.PKCE {
			v = pkceVerifier
		}
		form := vkit.CodeExchangeForm(fl.Code, redirectURI, v)
		return func() *vkit.Resp { return w.ag.Token(form, w.present()) }, ""

	case "refresh":
		t, ok := w.codeFlow(w.main, userMain, c.Scopes, c.PKCE)
		if !ok || t.refresh == "" {
			return nil, "code-flow"
		}
		form := url.Values{"grant_type": {vkit.GRefr}, "refresh_token": {t.refresh}}
		if c.Narrow {
			form.Set("scope", "openid")
		}
		return func() *vkit.Resp { return w.ag.Token(form, w.present()) }, ""

	case "client_credentials":
		form := url.Values{"grant_type": {vkit.GCC}, "scope": {strings.Join(c.Scopes, " ")}}
		return func() *vkit.Resp { return w.ag.Token(form, w.present()) }, ""

	case "jwt_bearer":
		form := url.Values{"grant_type": {vkit.GBearer}, "assertion": {vkit.ClientAssertion(w.svc, issuer, time.Now())}, "scope": {strings.Join(c.Scopes, " ")}}
		return func() *vkit.Resp { return w.ag.Token(form, vkit.Cred{Kind: "none"}) }, ""

	case "token_exchange":
		pick := func(t tokens, kind string) (string, string) {
			switch kind {
			case "access", "opaque":
				return t.access, ttAccess
			case "refresh":
				return t.refresh, ttRefresh
			case "id":
				return t.id, ttID
			case "third":
				// a token of another issuer: the storage itself vouches for it (TokenExchangeTokensVerifierStorage)
				return "third:" + userMain, ttAccess
			}
			return "", ""
		}
		issuerOf := func(kind string) *vkit.ClientSpec {
			if kind == "opaque" {
				return w.auxO
			}
			return w.aux
		}
		st, ok := w.codeFlow(issuerOf(c.SubjectType), userMain, []string{"openid", "profile", "offline_access"}, false)
		if !ok {
			return nil, "subject-flow"
		}
		form := url.Values{"grant_type": {vkit.GTE}, "scope": {strings.Join(c.Scopes, " ")}}
		tok, typ := pick(st, c.SubjectType)
		if tok == "" {
			return nil, "subject-token"
		}
		form.Set("subject_token", tok)
		form.Set("subject_token_type", typ)
		if c.ActorType != "" {
			at, ok := w.codeFlow(issuerOf(c.ActorType), userActor, []string{"openid", "offline_access"}, false)
			if !ok {
				return nil, "actor-flow"
			}
			tok, typ := pick(at, c.ActorType)
			if tok == "" {
				return nil, "actor-token"
			}
			form.Set("actor_token", tok)
			form.Set("actor_token_type", typ)
		}
		switch c.Requested {
		case "access":
			form.Set("requested_token_type", ttAccess)
		case "refresh":
			form.Set("requested_token_type", ttRefresh)
		case "id":
			form.Set("requested_token_type", ttID)
		}
		return func() *vkit.Resp { return w.ag.Token(form, w.present()) }, ""

	case "device_authorize":
		return func() *vkit.Resp { return w.ag.DeviceAuthorize(strings.Join(c.Scopes, " "), w.present()) }, ""

	case "device_poll":
		d := w.ag.DeviceAuthorize(strings.Join(c.Scopes, " "), w.cred(w.main))
		dc := d.Str("device_code")
		if !d.Success() || dc == "" || !w.st.ApproveDevice(dc, userMain) {
			return nil, "device-authorize"
		}
		form := url.Values{"grant_type": {vkit.GDevice}, "device_code": {dc}}
		return func() *vkit.Resp { return w.ag.Token(form, w.present()) }, ""

	case "userinfo", "introspect", "revoke":
		t, ok := w.codeFlow(w.main, userMain, c.Scopes, c.PKCE)
		if !ok {
			return nil, "code-flow"
		}
		switch c.Flow {
		case "userinfo":
			return func() *vkit.Resp { return w.ag.UserInfo(t.access) }, ""
		case "introspect":
			return func() *vkit.Resp { return w.ag.Introspect(t.access, w.present()) }, ""
		}
		tok := t.access
		if c.TokenKind == "refresh" {
			tok = t.refresh
		}
		if tok == "" {
			return nil, "no-token"
		}
		return func() *vkit.Resp { return w.ag.Revoke(tok, c.TypeHint, w.present()) }, ""

	case "keys":
		return func() *vkit.Resp { return w.ag.Keys() }, ""

	case "end_session":
		q := url.Values{}
		if c.Hint {
			t, ok := w.codeFlow(w.main, userMain, []string{"openid"}, c.PKCE)
			if !ok || t.id == "" {
				return nil, "hint-flow"
			}
			q.Set("id_token_hint", t.id)
		} else if c.ClientParam {
			q.Set("client_id", w.main.ID)
		}
		if c.PostLogout {
			q.Set("post_logout_redirect_uri", postLogoutURI)
		}
		if c.State {
			q.Set("state", "logout-state")
		}
		return func() *vkit.Resp { return w.ag.EndSession(q) }, ""
	}
	return nil, "unknown-flow"
}

// outcome of one execution of the scenario.
type outcome struct {
	setupNote string // non-empty: the set-up did not get as far as the request under test
	resp      *vkit.Resp
	calls     []vkit.JEntry // storage calls of the request under test
	st        *vkit.Store   // the storage of this execution (to see whether a success is backed by it)
}

// execute builds the scenario from scratch, performs its set-up fault-free, arms the fault plan and issues the request under test.
func execute(c Case, faults []vkit.Fault) outcome { return executeReal(c, faults, nil) }

// ---- a request context that really ends inside the failing storage call ---------------------

// realEnd: the request under test is served with a context of its own (as behind a timeout middleware / a client that may go
// away); the Nth call of Method made by that request parks on entry, the harness ends the context (cancel: a stdlib
// context.WithCancel is cancelled; deadline: the deadline of the request passes) and lets the call go on - it then fails with
// the context's own error (ctx.Err(): context.Canceled / context.DeadlineExceeded, the value the fault plan injects there).
// From that moment on r.Context() is genuinely done for everything the handler still does.
type realEnd struct {
	Method string
	Nth    int
	Mode   string // cancel | deadline
}

// passingDeadline is a request context with a deadline that passes when the harness says so (no wall clock decides anything:
// a timer would make the position at which the context ends depend on the speed of the machine). Until then it is a live
// context with a deadline ahead; afterwards Done is closed, Err is context.DeadlineExceeded and the deadline lies in the past.
type passingDeadline struct {
	context.Context
	mu   sync.Mutex
	done chan struct{}
	err  error
	dl   time.Time
}

func newPassingDeadline() *passingDeadline {
	return &passingDeadline{Context: context.Background(), done: make(chan struct{}), dl: time.Now().Add(time.Hour)}
}

func (p *passingDeadline) Deadline() (time.Time, bool) {
	p.mu.Lock()
	defer p.mu.Unlock()
	return p.dl, true
}
func (p *passingDeadline) Done() <-chan struct{} { return p.done }
func (p *passingDeadline) Err() error {
	p.mu.Lock()
	defer p.mu.Unlock()
	return p.err
}

// pass lets the deadline pass (err: what a stdlib context reports after its deadline, or context.Canceled at tear-down).
func (p *passingDeadline) pass(err error) {
	p.mu.Lock()
	defer p.mu.Unlock()
	if p.err == nil {
		p.err, p.dl = err, time.Now()
		close(p.done)
	}
}

type withCtx struct {
	h   http.Handler
	ctx context.Context
}

func (h withCtx) ServeHTTP(w http.ResponseWriter, r *http.Request) { h.h.ServeHTTP(w, r.WithContext(h.ctx)) }

// executeReal is execute with the request under test served under a context that ends inside one storage call (real != nil).
// The request runs on a goroutine of its own that is joined before executeReal returns.
func executeReal(c Case, faults []vkit.Fault, real *realEnd) outcome {
	w := newWorld(c)
	req, note := w.prepare()
	if req == nil {
		return outcome{setupNote: note}
	}
	w.st.SetFaults(faults...)
	var r *vkit.Resp
	if real == nil {
		r = req()
	} else {
		var ctx context.Context
		var end func()
		if real.Mode == "deadline" {
			p := newPassingDeadline()
			// what a stdlib context reports once its (here: 0 ns) deadline has passed
			expired, cancel := context.WithTimeout(context.Background(), 0)
			dlErr := expired.Err()
			cancel()
			ctx, end = p, func() { p.pass(dlErr) }
			defer p.pass(context.Canceled)
		} else {
			cctx, cancel := context.WithCancel(context.Background())
			ctx, end = cctx, cancel
			defer cancel()
		}
		w.sut.Handler = withCtx{h: w.sut.Handler, ctx: ctx}
		g := w.st.AddGate(real.Method, real.Nth, false) // counted from here on: the set-up is over
		done := make(chan *vkit.Resp, 1)
		go func() { done <- req() }()
		for r == nil {
			select {
			case r = <-done: // the call was never made (the re-run took another path): reported as fault-not-fired by the caller
			default:
				if g.WaitParked(200 * time.Microsecond) {
					end()
					g.Release()
					r = <-done
				}
			}
		}
		g.Release()
	}
	w.st.SetFaults()
	return outcome{resp: r, calls: w.st.CallsOf(r.Req), st: w.st}
}
