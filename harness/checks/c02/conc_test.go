package c02

// Concurrent verification: verifier objects are long-lived and shared by all requests of a server (one rp.IDTokenVerifier
// and one remote key set per relying party, one access-token / id_token_hint verifier and one key set per OP, one
// op.JWTProfileVerifier in a custom server, one provider behind the authorize endpoint). One case = ONE such instance
// (built as in the sequential check, key sets fixed) and 2-6 workers, released together by a barrier at the start of each
// of 1-3 rounds, each presenting its own 1-3 generated tokens: tokens of DIFFERENT clients / keys / key IDs / algorithms /
// verdicts, each with a payload mark of its own. The key lookups (storage, application key set, JWKS transport) yield
// (runtime.Gosched, a short sleep, or a short rendezvous of the callers inside the lookup) so that the calls overlap at
// the places where a verifier consults its key source. Every single result is judged by the per-token oracle of the
// sequential check (model.go): a forged token (e.g. iss = c1 signed with the key client c2 registered under the same kid)
// must never be accepted, a genuine one must be accepted, and the claims handed back must be the payload that token's
// signature covers (never those of the token another worker presented at the same time).
// TestConcurrent runs from a -race binary (check.json "race_tests"): a data race inside the library kills the process
// (GORACE=halt_on_error) and the driver reports the case on disk (Track); TestConcurrentFast runs more cases from the plain
// binary, where a cross-talk shows as a flipped verdict or as foreign claims.

import (
	"bytes"
	"context"
	"errors"
	"fmt"
	"io"
	"net/http"
	"net/url"
	"reflect"
	"runtime"
	"runtime/debug"
	"sort"
	"strings"
	"sync"
	"testing"
	"time"

	jose "github.com/go-jose/go-jose/v4"
	"github.com/zitadel/oidc/v3/pkg/client/rp"
	"github.com/zitadel/oidc/v3/pkg/oidc"
	"github.com/zitadel/oidc/v3/pkg/op"
	"pgregory.net/rapid"

	"verif/harness/vkit"
)

// Conc is the concurrent part of a case: Workers[g] lists the tokens worker g presents, in this order, in every round
// (Step.Tok and Step.Ver are used: a provider / an OP key set has two verifiers; Mut / Keys / From are not).
type Conc struct {
	Workers [][]Step `json:"workers"`
	Rounds  int      `json:"rounds"`
	Yield   string   `json:"yield,omitempty"`   // what a key lookup does before and after it answers: "" nothing | gosched | sleep | meet
	YieldN  int      `json:"yield_n,omitempty"` // gosched: calls; sleep: x 20 microseconds; meet: size of the group that waits for each other (at most 300 microseconds)
}

const (
	maxConcWorkers = 8
	maxConcTokens  = 4
	maxConcRounds  = 4
)

// concKinds: every verifier kind whose result can be attributed to the call that produced it (hint-end-http is observed
// through the storage's list of ended sessions only and stays with the sequential check; findkey has no instance).
var concKinds = []string{kRPStatic, kRPRemote, kOPAccess, kOPHint, kProvAcc, kProvHint, kAssert, kAssertKS, kReqObj, kReqHTTP, kHintHTTP}

// ---- yielding key sources ---------------------------------------------------------

// yielder widens the windows around a key lookup. It takes no decision: whatever the schedule, every result is judged.
type yielder struct {
	mode  string
	n     int
	mu    sync.Mutex
	wait  int
	ch    chan struct{}
	calls int
}

func (y *yielder) yield() {
	if y == nil {
		return
	}
	y.mu.Lock()
	y.calls++
	y.mu.Unlock()
	switch y.mode {
	case "gosched":
		for i := 0; i < y.n; i++ {
			runtime.Gosched()
		}
	case "sleep":
		time.Sleep(time.Duration(y.n) * 20 * time.Microsecond)
	case "meet":
		y.meet()
	}
}

// meet parks the caller until n callers are inside a lookup at the same time - or 300 microseconds have passed (a key set
// that serialises its lookups, or fewer callers than n, must not be held up; the time-out is no signal of anything).
func (y *yielder) meet() {
	y.mu.Lock()
	if y.ch == nil {
		y.ch = make(chan struct{})
	}
	ch := y.ch
	y.wait++
	if y.wait >= y.n {
		y.wait, y.ch = 0, nil
		close(ch)
		y.mu.Unlock()
		return
	}
	y.mu.Unlock()
	tm := time.NewTimer(300 * time.Microsecond)
	defer tm.Stop()
	select {
	case <-ch:
	case <-tm.C:
		y.mu.Lock()
		if y.ch == ch {
			y.wait--
		}
		y.mu.Unlock()
	}
}

func (y *yielder) lookups() int {
	if y == nil {
		return 0
	}
	y.mu.Lock()
	defer y.mu.Unlock()
	return y.calls / 2
}

// wrap: the storage whose key lookups yield (nil yielder: the storage itself).
func (y *yielder) wrap(s op.Storage) op.Storage {
	if y == nil {
		return s
	}
	return yieldStorage{Storage: s, y: y}
}

type yieldStorage struct {
	op.Storage
	y *yielder
}

func (s yieldStorage) KeySet(ctx context.Context) ([]op.Key, error) {
	s.y.yield()
	defer s.y.yield()
	return s.Storage.KeySet(ctx)
}

func (s yieldStorage) GetKeyByIDAndClientID(ctx context.Context, keyID, clientID string) (*jose.JSONWebKey, error) {
	s.y.yield()
	defer s.y.yield()
	return s.Storage.GetKeyByIDAndClientID(ctx, keyID, clientID)
}

// concTransport answers every JWKS request with the same document, in process; safe for concurrent use.
type concTransport struct {
	body []byte
	y    *yielder
	mu   sync.Mutex
	n    int
}

func (t *concTransport) RoundTrip(r *http.Request) (*http.Response, error) {
	t.y.yield()
	defer t.y.yield()
	t.mu.Lock()
	t.n++
	t.mu.Unlock()
	return &http.Response{
		StatusCode: 200, Status: "200 OK", Proto: "HTTP/1.1", ProtoMajor: 1, ProtoMinor: 1,
		Header: http.Header{"Content-Type": {"application/json"}}, Body: io.NopCloser(bytes.NewReader(t.body)),
		ContentLength: int64(len(t.body)), Request: r,
	}, nil
}

// ---- the shared instance ------------------------------------------------------------

// concKind: the verifier a worker's token goes to. A provider has two verifiers; so has an OP that builds an access-token
// and an id_token_hint verifier over ONE op.OpenIDKeySet (kinds op-access / op-hint).
func concKind(c Case, s Step) string {
	switch c.Kind {
	case kProvAcc, kProvHint:
		return stepKind(c, s)
	case kOPAccess, kOPHint:
		switch s.Ver {
		case "access":
			return kOPAccess
		case "hint":
			return kOPHint
		}
	}
	return c.Kind
}

// newConcInstance builds the one instance all workers of the case share; verify may be called from many goroutines.
func newConcInstance(c Case, y *yielder) func(kind, tok, who string, res *vkit.Result) outcome {
	ctx := context.Background()
	switch c.Kind {
	case kRPStatic, kRPRemote:
		var ks oidc.KeySet
		if c.Kind == kRPStatic {
			ks = &staticKeySet{keys: jwks(c.Keys), multi: c.MultiKS, y: y}
		} else {
			tmp := &jwksTransport{}
			tmp.set(c.Keys)
			hc := &http.Client{Transport: &concTransport{body: tmp.body, y: y}}
			if c.SkipRemote {
				ks = rp.NewRemoteKeySet(hc, issuer+"/keys", rp.SkipRemoteCheck())
			} else {
				ks = rp.NewRemoteKeySet(hc, issuer+"/keys")
			}
		}
		var opts []rp.VerifierOption
		if len(c.Algs) > 0 {
			opts = append(opts, rp.WithSupportedSigningAlgorithms(c.Algs...))
		}
		v := rp.NewIDTokenVerifier(issuer, rpClient, ks, opts...)
		return func(kind, tok, _ string, res *vkit.Result) outcome {
			claims, err := rp.VerifyIDToken[*oidc.IDTokenClaims](ctx, tok, v)
			o := outcome{Accepted: err == nil, Err: errStr(err)}
			if err == nil {
				o.View = viewOfObj(kind, claims)
			} else if !isNil(claims) {
				res.Fail("C02:claims-with-error:"+kind, "claims returned together with error %v", err)
			}
			return o
		}

	case kOPAccess, kOPHint, kProvAcc, kProvHint:
		st := newStore(c)
		st.NoJournal = true
		var accessV func() *op.AccessTokenVerifier
		var hintV func() *op.IDTokenHintVerifier
		if c.Kind == kOPAccess || c.Kind == kOPHint {
			ks := &op.OpenIDKeySet{Storage: y.wrap(st.Shaped(vkit.FullCaps))}
			var aopts []op.AccessTokenVerifierOpt
			var hopts []op.IDTokenHintVerifierOpt
			if len(c.Algs) > 0 {
				aopts = append(aopts, op.WithSupportedAccessTokenSigningAlgorithms(c.Algs...))
				hopts = append(hopts, op.WithSupportedIDTokenHintSigningAlgorithms(c.Algs...))
			}
			av, hv := op.NewAccessTokenVerifier(issuer, ks, aopts...), op.NewIDTokenHintVerifier(issuer, ks, hopts...)
			switch c.Stale {
			case "iat":
				hv.MaxAgeIAT = time.Hour
			case "auth":
				hv.MaxAge = time.Hour
			}
			accessV = func() *op.AccessTokenVerifier { return av }
			hintV = func() *op.IDTokenHintVerifier { return hv }
		} else {
			sut, _ := buildProviderFor(st, c, "provider", y)
			p := sut.Provider
			ctx = op.ContextWithIssuer(ctx, issuer)
			accessV = func() *op.AccessTokenVerifier { return p.AccessTokenVerifier(ctx) } // as the handlers obtain it, per request
			hintV = func() *op.IDTokenHintVerifier { return p.IDTokenHintVerifier(ctx) }
		}
		return func(kind, tok, _ string, res *vkit.Result) outcome {
			if kind == kOPAccess || kind == kProvAcc {
				claims, err := op.VerifyAccessToken[*oidc.AccessTokenClaims](ctx, tok, accessV())
				o := outcome{Accepted: err == nil, Err: errStr(err)}
				if err == nil {
					o.View = viewOfObj(kind, claims)
				} else if !isNil(claims) {
					res.Fail("C02:claims-with-error:"+kind, "claims returned together with error %v", err)
				}
				return o
			}
			claims, err := op.VerifyIDTokenHint[*oidc.IDTokenClaims](ctx, tok, hintV())
			expired := err != nil && errors.As(err, &op.IDTokenHintExpiredError{})
			o := outcome{Accepted: !isNil(claims) && (err == nil || expired), Err: errStr(err)}
			switch {
			case o.Accepted:
				o.View = viewOfObj(kind, claims)
				if expired {
					o.Note = "handed back with IDTokenHintExpiredError"
				}
			case err == nil:
				res.Fail("C02:nil-claims-without-error:"+kind, "VerifyIDTokenHint returned neither claims nor an error")
			case !isNil(claims):
				res.Fail("C02:claims-with-error:"+kind, "claims returned together with error %v", err)
			}
			return o
		}

	case kAssert, kAssertKS:
		var v *op.JWTProfileVerifier
		var vopts []op.JWTProfileVerifierOption
		if c.Delegation {
			vopts = append(vopts, op.SubjectCheck(func(*oidc.JWTTokenRequest) error { return nil }))
		}
		if c.Kind == kAssert {
			st := newStore(c)
			st.NoJournal = true
			// the documented way to verify assertions in a custom server: one verifier over the storage, used by every request
			v = op.NewJWTProfileVerifier(y.wrap(st.Shaped(vkit.FullCaps)), issuer, 0, 0, vopts...)
		} else {
			v = op.NewJWTProfileVerifierKeySet(&staticKeySet{keys: jwks(c.Keys), multi: c.MultiKS, y: y}, issuer, 0, 0, vopts...)
		}
		return func(kind, tok, _ string, res *vkit.Result) outcome {
			req, err := op.VerifyJWTAssertion(ctx, tok, v)
			o := outcome{Accepted: err == nil, Err: errStr(err)}
			if err == nil {
				o.View = viewOfObj(kind, req)
			} else if req != nil {
				res.Fail("C02:claims-with-error:"+kind, "request returned together with error %v", err)
			}
			return o
		}

	case kReqObj:
		st := newStore(c)
		st.NoJournal = true
		storage := y.wrap(st.Shaped(vkit.FullCaps))
		return func(kind, tok, who string, res *vkit.Result) outcome {
			ar := &oidc.AuthRequest{ClientID: who, RedirectURI: redirect, ResponseType: oidc.ResponseTypeCode,
				Scopes: oidc.SpaceDelimitedArray{"openid"}, State: qState, Nonce: qNonce, RequestParam: tok}
			err := op.ParseRequestObject(ctx, ar, storage, issuer)
			o := outcome{Accepted: err == nil, Err: errStr(err)}
			if err == nil {
				o.View = map[string]string{"state": ar.State, "nonce": ar.Nonce}
			} else if ar.State != qState || ar.Nonce != qNonce || ar.ClientID != who {
				res.Fail("C02:claims-with-error:"+kind, "request object refused (%v) but its claims were copied into the authorization request: state=%q nonce=%q client_id=%q", err, ar.State, ar.Nonce, ar.ClientID)
			}
			return o
		}

	case kReqHTTP, kHintHTTP:
		st := newStore(c)
		st.NoJournal = true
		sut, _ := buildProviderFor(st, c, c.Router, y)
		ag := vkit.NewAgent(sut) // (stateless: one for all workers)
		return func(kind, tok, who string, res *vkit.Result) outcome {
			q := url.Values{"redirect_uri": {redirect}, "response_type": {"code"}, "scope": {"openid"}, "state": {qState}, "nonce": {qNonce}}
			if kind == kReqHTTP {
				q.Set("client_id", who)
				q.Set("request", tok)
			} else {
				q.Set("client_id", "c1")
				q.Set("id_token_hint", tok)
			}
			resp := ag.Authorize(q)
			if resp.Panic != nil {
				res.Fail("C02:panic@"+resp.PanicFrame(), "authorize endpoint panicked: %v", resp.Panic)
				return outcome{Err: "panic"}
			}
			o := outcome{Note: fmt.Sprintf("status=%d", resp.Status)}
			id, ok := vkit.LoginRequestID(resp)
			if !ok {
				o.Err = clip(resp.Describe())
				return o
			}
			snap, ok := st.AuthReqSnapshot(id)
			if !ok {
				o.Err = "auth request " + id + " not in storage"
				return o
			}
			if kind == kReqHTTP {
				if snap.State == qState && snap.Nonce == qNonce {
					o.Note += " object-not-applied"
					return o
				}
				o.Accepted = true
				o.View = map[string]string{"state": snap.State, "nonce": snap.Nonce}
			} else {
				if snap.HintSubject == "" {
					o.Note += " hint-not-applied"
					return o
				}
				o.Accepted = true
				o.View = map[string]string{"sub": snap.HintSubject}
			}
			return o
		}
	}
	return nil
}

// ---- generator ----------------------------------------------------------------------

// swapClients: the token spec with the roles of c1 and c2 exchanged (per-client kinds).
func swapClients(tok TokSpec) TokSpec {
	sw := func(s string) string {
		switch s {
		case "c1":
			return "c2"
		case "c2":
			return "c1"
		}
		return s
	}
	tok.Iss, tok.Outer, tok.CID = sw(tok.Iss), sw(tok.Outer), sw(tok.CID)
	return tok
}

func genConc(t *rapid.T) Case {
	var c Case
	c.Kind = rapid.SampledFrom([]string{
		kAssert, kAssert, kAssert, kAssert, kReqObj, kReqObj, kReqHTTP, kRPRemote, kRPRemote, kRPStatic, kRPStatic,
		kOPAccess, kOPAccess, kOPHint, kProvAcc, kProvAcc, kProvHint, kAssertKS, kHintHTTP,
	}).Draw(t, "kind")
	if isHTTP(c.Kind) {
		c.Router = rapid.SampledFrom([]string{"provider", "legacy"}).Draw(t, "router")
	}
	switch c.Kind {
	case kRPStatic, kRPRemote, kOPAccess, kOPHint:
		c.Algs = rapid.SampledFrom(algLists).Draw(t, "algs")
	case kHintHTTP, kProvAcc, kProvHint:
		c.Algs = []string{rapid.SampledFrom(allAlgs).Draw(t, "hintalg")}
		genProvOpts(t, &c)
	}
	if c.Kind == kOPHint {
		c.Stale = rapid.SampledFrom([]string{"", "", "", "", "", "", "iat", "auth"}).Draw(t, "stale")
	}
	allowed := allowedAlgs(c)
	if c.Kind == kRPStatic || c.Kind == kAssertKS {
		c.MultiKS = rapid.IntRange(0, 2).Draw(t, "multiks") == 0
	}
	if c.Kind == kRPRemote {
		c.SkipRemote = rapid.IntRange(0, 3).Draw(t, "skipremote") == 0
	}
	if perClient(c.Kind) {
		c.Keys = genKeySet(t, "c1", allowed, true, 3)
		c.Keys2 = genKeySet(t, "c2", allowed, true, 3)
		// mostly: both clients registered a key under the SAME key ID (everybody calls the first key "k1"), and the keys
		// differ - a verifier that looks at the wrong client's registration then finds a key, and it is the wrong one
		if len(c.Keys) > 0 && len(c.Keys2) > 0 && rapid.IntRange(0, 3).Draw(t, "samekid") > 0 {
			kid := c.Keys[0].KID
			out := []KeyEntry{c.Keys2[0]}
			out[0].KID = kid
			for _, e := range c.Keys2[1:] {
				if e.KID != kid {
					out = append(out, e)
				}
			}
			if out[0].Key == c.Keys[0].Key {
				out[0].Key = otherKeyLike(c.Keys[0].Key, c.Keys)
			}
			c.Keys2 = out
		}
	} else {
		c.Keys = genKeySet(t, "ks", allowed, false, 4)
		if c.Prov != nil {
			genProvKeySets(t, &c)
		}
	}
	if c.Kind == kAssert || c.Kind == kAssertKS {
		c.Delegation = rapid.IntRange(0, 2).Draw(t, "delegation") == 0
	}
	cc := &Conc{}
	k := rapid.SampledFrom([]int{2, 2, 3, 3, 4, 4, 5, 6}).Draw(t, "workers")
	for g := 0; g < k; g++ {
		n := rapid.SampledFrom([]int{1, 1, 2, 2, 3}).Draw(t, fmt.Sprintf("w%dtokens", g))
		var steps []Step
		for j := 0; j < n; j++ {
			l := fmt.Sprintf("w%dt%d", g, j)
			var st Step
			kind := c.Kind
			switch c.Kind {
			case kProvAcc, kProvHint, kOPAccess, kOPHint:
				if rapid.IntRange(0, 2).Draw(t, l+"otherver") == 0 {
					if c.Kind == kProvAcc || c.Kind == kOPAccess {
						st.Ver = "hint"
					} else {
						st.Ver = "access"
					}
					kind = concKind(c, st)
				}
			}
			tmp := c
			tmp.Kind, tmp.Tok, tmp.Seq = kind, TokSpec{}, nil
			switch {
			case perClient(c.Kind):
				// workers alternate between the two clients (1/4: the other way round)
				swap := g%2 == 1
				if rapid.IntRange(0, 3).Draw(t, l+"swap") == 0 {
					swap = !swap
				}
				if swap {
					tmp.Keys, tmp.Keys2 = c.Keys2, c.Keys
				}
				genPerClient(t, &tmp, allowed)
				if swap {
					tmp.Tok = swapClients(tmp.Tok)
				}
				st.Tok = tmp.Tok
			case c.Prov != nil:
				st.Tok = genProvToken(t, &c, kind, keySets(c), l)
			default:
				genPublished(t, &tmp, allowedAlgs(tmp))
				st.Tok = tmp.Tok
			}
			st.Tok.Time = genTime(t, kind, l)
			if c.Delegation && rapid.IntRange(0, 2).Draw(t, l+"deleg") == 0 {
				st.Tok.Sub = rapid.SampledFrom([]string{"c1", "c2", "user-7"}).Draw(t, l+"sub")
				if st.Tok.Sub == st.Tok.Iss {
					st.Tok.Sub = ""
				}
			}
			st.Tok.Mark = fmt.Sprintf("w%dt%d", g, j)
			if rapid.IntRange(0, 4).Draw(t, l+"manip") == 0 {
				tmp.Keys, tmp.Keys2 = c.Keys, c.Keys2
				tmp.Tok = st.Tok
				st.Tok.Manips = []Manip{genManipOf(t, tmp, l+"m", rapid.SampledFrom(derivedManipKinds).Draw(t, l+"mkind"))}
			}
			steps = append(steps, st)
		}
		cc.Workers = append(cc.Workers, steps)
	}
	cc.Rounds = rapid.IntRange(1, 3).Draw(t, "rounds")
	cc.Yield = rapid.SampledFrom([]string{"", "gosched", "gosched", "sleep", "meet", "meet"}).Draw(t, "yield")
	switch cc.Yield {
	case "gosched":
		cc.YieldN = rapid.IntRange(1, 4).Draw(t, "yieldn")
	case "sleep":
		cc.YieldN = rapid.IntRange(1, 5).Draw(t, "yieldn")
	case "meet":
		cc.YieldN = rapid.IntRange(2, k).Draw(t, "yieldn")
	}
	c.Conc = cc
	c.Tok = cc.Workers[0][0].Tok // (mirror; the concurrent run does not use it)
	return c
}

// ---- run ------------------------------------------------------------------------------

func validConc(c Case) string {
	if !contains(concKinds, c.Kind) {
		return "kind has no concurrent sub-check"
	}
	cc := c.Conc
	if len(cc.Workers) < 1 || len(cc.Workers) > maxConcWorkers || cc.Rounds < 1 || cc.Rounds > maxConcRounds {
		return "workers / rounds out of range"
	}
	if !contains([]string{"", "gosched", "sleep", "meet"}, cc.Yield) || cc.YieldN < 0 || cc.YieldN > 16 {
		return "unknown yield"
	}
	if len(c.Seq) > 0 || c.Raw != nil {
		return "concurrent case with sequence / raw token"
	}
	marks := map[string]bool{}
	for _, w := range cc.Workers {
		if len(w) < 1 || len(w) > maxConcTokens {
			return "tokens per worker out of range"
		}
		for _, s := range w {
			if s.Ver != "" && (s.Ver != "access" && s.Ver != "hint" || !contains([]string{kProvAcc, kProvHint, kOPAccess, kOPHint}, c.Kind)) {
				return "step names a verifier the instance does not have"
			}
			if s.Mut != "" || s.From != 0 || len(s.Keys) > 0 || len(s.Keys2) > 0 {
				return "key-set change inside a concurrent run"
			}
			if s.Tok.Mark == "" || marks[s.Tok.Mark] {
				return "payload marks must be present and distinct"
			}
			marks[s.Tok.Mark] = true
			tmp := c
			tmp.Conc, tmp.Tok, tmp.Kind = nil, s.Tok, concKind(c, s)
			if tmp.Kind != c.Kind {
				tmp.Stale = "" // (a verifier age limit concerns op-hint only; validCase ties it to the kind)
			}
			if why := validCase(tmp); why != "" {
				return why
			}
		}
	}
	return ""
}

type concCall struct {
	g, j  int
	kind  string
	cc    Case
	b     *built
	v     verdict
	who   string
	outs  []outcome // one per round
	panic []string
}

func tokText(cl *concCall) string {
	t := cl.cc.Tok
	s := fmt.Sprintf("%s by %s kid=%q", t.Alg, t.Key, t.KID)
	if !t.HasKID {
		s = fmt.Sprintf("%s by %s no kid", t.Alg, t.Key)
	}
	if perClient(cl.cc.Kind) {
		s = "iss=" + who(cl.cc) + " " + s
		if r := requester(cl.cc); r != who(cl.cc) {
			s += " requester=" + r
		}
	}
	if len(t.Manips) > 0 {
		s += fmt.Sprintf(" %v", manipNamesOf(t))
	}
	return s
}

func runConc(c Case) (res *vkit.Result) {
	res = &vkit.Result{}
	defer func() {
		if p := recover(); p != nil {
			stack := string(debug.Stack())
			if s, ok := p.(string); ok && strings.HasPrefix(s, "harness:") {
				panic(p)
			}
			frame := vkit.FirstLibFrame(stack)
			if frame == "unknown" || frame == "" {
				panic(fmt.Sprintf("harness: panic outside the library: %v\n%s", p, stack))
			}
			res.Fail("C02:panic@"+frame, "verifier panicked: %v", p)
		}
	}()
	if why := validConc(c); why != "" {
		res.Grey = true
		res.Label("invalid-case")
		res.Info = why
		return res
	}
	cn := c.Conc
	res.Label("conc", "conc:kind:"+c.Kind, fmt.Sprintf("conc:workers=%d", len(cn.Workers)), fmt.Sprintf("conc:rounds=%d", cn.Rounds), "conc:yield:"+cn.Yield)
	if c.Router != "" {
		res.Label("router:" + c.Router)
	}

	// every token is built and its verdict computed before the first call
	sets := keySets(c)
	workers := make([][]*concCall, len(cn.Workers))
	var all []*concCall
	for g, w := range cn.Workers {
		for j, s := range w {
			kind := concKind(c, s)
			cc := c
			cc.Conc, cc.Seq = nil, nil
			cc.Kind, cc.Keys, cc.Keys2, cc.Tok = kind, sets[targetOf(c, kind)], c.Keys2, s.Tok
			if kind != kOPHint {
				cc.Stale = ""
			} else {
				cc.Stale = c.Stale
			}
			b, err := buildToken(cc)
			if err != nil {
				res.Grey = true
				res.Label("invalid-case")
				res.Info = err.Error()
				return res
			}
			cl := &concCall{g: g, j: j, kind: kind, cc: cc, b: b, v: model(cc, b), who: requester(cc), outs: make([]outcome, cn.Rounds)}
			workers[g] = append(workers[g], cl)
			all = append(all, cl)
		}
	}

	var y *yielder
	if cn.Yield != "" {
		y = &yielder{mode: cn.Yield, n: cn.YieldN}
	}
	verify := newConcInstance(c, y)

	// barrier: all workers start a round together
	results := make([]*vkit.Result, len(workers))
	starts := make([]chan struct{}, cn.Rounds)
	for r := range starts {
		starts[r] = make(chan struct{})
	}
	var ready, done sync.WaitGroup
	ready.Add(len(workers))
	for g := range workers {
		results[g] = &vkit.Result{}
		done.Add(1)
		go func(g int) {
			defer done.Done()
			for r := 0; r < cn.Rounds; r++ {
				ready.Done()
				<-starts[r]
				for _, cl := range workers[g] {
					func() {
						defer func() {
							if p := recover(); p != nil {
								stack := string(debug.Stack())
								cl.panic = append(cl.panic, fmt.Sprintf("%v", p), vkit.FirstLibFrame(stack), stack)
								cl.outs[r] = outcome{Err: "panic"}
							}
						}()
						cl.outs[r] = verify(cl.kind, cl.b.Token, cl.who, results[g])
					}()
				}
			}
		}(g)
	}
	for r := 0; r < cn.Rounds; r++ {
		ready.Wait() // every worker stands at the barrier of round r
		if r+1 < cn.Rounds {
			ready.Add(len(workers)) // (no worker can reach the next barrier before starts[r] is closed)
		}
		close(starts[r])
	}
	done.Wait()

	// judge: every presentation of every token against the verdict of ITS token
	others := func(cl *concCall) string {
		var parts []string
		for _, o := range all {
			if o.g != cl.g {
				parts = append(parts, fmt.Sprintf("w%d: %s => %s", o.g, tokText(o), verdictClass(o.v)))
			}
		}
		s := strings.Join(parts, "; ")
		if len(s) > 420 {
			s = s[:420] + "..."
		}
		return s
	}
	for g, r := range results {
		for _, v := range r.Viol {
			res.Viol = append(res.Viol, vkit.Violation{FP: v.FP, Msg: fmt.Sprintf("[%d concurrent workers on one %s instance; worker %d] %s", len(workers), c.Kind, g, v.Msg)})
		}
	}
	verdicts := map[string]bool{}
	signers := map[string]bool{}
	clients := map[string]bool{}
	nCalls := 0
	for _, cl := range all {
		v, b, kind := cl.v, cl.b, cl.kind
		if len(cl.panic) > 0 {
			frame := cl.panic[1]
			if frame == "unknown" || frame == "" {
				panic(fmt.Sprintf("harness: panic outside the library in worker %d: %s\n%s", cl.g, cl.panic[0], cl.panic[2]))
			}
			res.Fail("C02:panic@"+frame, "%s panicked with %d concurrent workers on one instance: %s (worker %d presenting %s)", kind, len(workers), cl.panic[0], cl.g, tokText(cl))
		}
		verdicts[verdictClass(v)] = true
		signers[cl.cc.Tok.Key+"/"+cl.cc.Tok.KID] = true
		clients[cl.who] = true
		want := viewOfJSON(kind, b.SignedP)
		var evil map[string]string
		if b.EvilP != nil {
			evil = viewOfJSON(kind, b.EvilP)
		}
		switch {
		case len(v.Reject) > 0:
			res.Label("must-reject", "conc:must-reject")
			if len(v.Reject) == 1 {
				res.Label("conc:sole-reason:" + v.Reject[0])
			}
		case len(v.Grey) > 0:
			res.Label("grey", "conc:grey")
		default:
			res.Label("must-accept", "conc:must-accept", "conc:must-accept:"+kind)
		}
		if kind != c.Kind {
			res.Label("conc:call-to-other-verifier")
		}
		for _, m := range cl.cc.Tok.Manips {
			res.Label("conc:manip:" + m.Kind)
		}
		for r, o := range cl.outs {
			nCalls++
			if o.Err == "panic" {
				continue
			}
			where := fmt.Sprintf(" [%d workers share one %s instance, yield %q/%d; worker %d, token %d (%s), round %d of %d; the other workers present: %s]", len(workers), c.Kind, cn.Yield, cn.YieldN, cl.g, cl.j+1, tokText(cl), r+1, cn.Rounds, others(cl))
			switch {
			case len(v.Reject) > 0 && o.Accepted:
				res.Fail("C02:conc:sound:"+kind+":"+strings.Join(v.Reject, "+"), "%s%s accepted a token that must be rejected (%v)%s while other callers used the same instance; believed %v%s; token %s", kind, concProvText(c, cl), v.Reject, dimText(cl.cc, o), o.View, where, clip(b.Token))
			case len(v.Reject) == 0 && len(v.Grey) == 0 && !o.Accepted:
				res.Fail("C02:conc:complete:"+kind+":"+v.AcceptClass, "%s%s rejected a genuine token signed with an allowed algorithm by a trusted key (%s) while other callers used the same instance: %s%s", kind, concProvText(c, cl), v.AcceptClass, o.Err, where)
			}
			if o.Accepted && !reflect.DeepEqual(o.View, want) {
				whose := "neither the signed nor the embedded payload"
				if evil != nil && reflect.DeepEqual(o.View, evil) {
					whose = "the attacker's embedded payload"
				}
				for _, x := range all {
					if x != cl && reflect.DeepEqual(o.View, viewOfJSON(x.kind, x.b.SignedP)) {
						whose = fmt.Sprintf("the payload of the token worker %d presented", x.g)
					}
				}
				res.Fail("C02:conc:claims-not-signed:"+kind, "%s handed back claims that are not the signed payload: got %v (%s), signed %v%s; token %s", kind, o.View, whose, want, where, clip(b.Token))
			}
			if o.Accepted {
				res.Label("conc:accepted")
			} else {
				res.Label("conc:rejected")
			}
		}
	}
	// classes: is there anything a cross-talk could flip?
	if len(verdicts) >= 2 {
		res.Label("conc:verdicts-differ")
	}
	if len(signers) >= 2 {
		res.Label("conc:signers-differ")
	}
	if perClient(c.Kind) {
		if len(clients) >= 2 {
			res.Label("conc:clients-differ")
		}
		m1, m2 := entryMap(c.Keys), entryMap(c.Keys2)
		for kid, kn := range m1 {
			if kn2, ok := m2[kid]; ok && kn2 != kn {
				res.Label("conc:same-kid-registered-by-both-clients-with-different-keys")
				// a token one client signed in the other's name under that kid, while the signer's own token is in flight
				forged, own := false, false
				for _, cl := range all {
					if cl.b.EffKID == kid && len(cl.cc.Tok.Manips) == 0 {
						reg := m1
						if cl.who == "c2" {
							reg = m2
						}
						if reg[kid] != cl.cc.Tok.Key && (m1[kid] == cl.cc.Tok.Key || m2[kid] == cl.cc.Tok.Key) {
							forged = true
						}
						if reg[kid] == cl.cc.Tok.Key {
							own = true
						}
					}
				}
				if forged && own {
					res.Label("conc:forged-under-shared-kid-next-to-signers-own-token")
				}
				break
			}
		}
	}
	if n := y.lookups(); n > 0 {
		res.Label("conc:lookups-yielded")
	}
	switch {
	case nCalls <= 4:
		res.Label("conc:calls<=4")
	case nCalls <= 12:
		res.Label("conc:calls=5-12")
	default:
		res.Label("conc:calls>12")
	}
	res.NonTrivial = len(workers) >= 2 && (len(verdicts) >= 2 || len(signers) >= 2 || len(clients) >= 2)
	var cells []string
	for _, cl := range all {
		cells = append(cells, fmt.Sprintf("%d:%s/%s/%v/%s/%v/%s/%s", cl.g, cl.kind, cl.cc.Tok.Alg, cl.cc.Tok.HasKID, cl.who, manipNamesOf(cl.cc.Tok), cl.cc.Tok.Time, verdictClass(cl.v)))
	}
	sort.Strings(cells)
	res.Key = fmt.Sprintf("conc|%s|%s|%s|%s|%v|%s|%d|%s%d|%s", c.Kind, c.Router, keySetShape(c.Keys), keySetShape(c.Keys2), c.Algs, provShape(c.Prov), cn.Rounds, cn.Yield, cn.YieldN, strings.Join(cells, ";"))
	var infos []map[string]any
	for _, cl := range all {
		infos = append(infos, map[string]any{"worker": cl.g, "token": tokText(cl), "model": verdictClass(cl.v), "outcomes": cl.outs})
	}
	res.Info = map[string]any{"workers": len(workers), "calls": nCalls, "lookups": y.lookups(), "tokens": infos}
	return res
}

// concProvText: how the provider is configured for the verifier of the call (for violation messages).
func concProvText(c Case, cl *concCall) string {
	if c.Prov == nil || !isProv(c.Kind) {
		return ""
	}
	return provText(c, call{Kind: cl.kind, Target: targetOf(c, cl.kind), Keys: cl.cc.Keys, Tok: cl.cc.Tok})
}

var propConc = vkit.Prop[Case]{
	ID: "C02",
	Rule: "concurrent sub-check: ONE long-lived instance of a verifier kind (rp verifier over a static / a remote key set, access-token and id_token_hint verifier over ONE op.OpenIDKeySet, both verifiers of ONE provider built by op.NewProvider with generated verification options, ONE op.JWTProfileVerifier over the storage (the custom-server way) / over a published key set, op.ParseRequestObject over one storage, " +
		"request object / id_token_hint through the authorize endpoint of one provider, both routers), key sets fixed, shared by 2-6 workers that a barrier releases together at the start of each of 1-3 rounds; each worker presents 1-3 generated tokens of its own: per-client kinds alternate between the two clients, which in 3/4 of the cases registered DIFFERENT keys under the SAME key ID (forged tokens: one client's name, the other client's registered key, that kid), " +
		"published-key kinds draw every token's relation to the key set independently (trusted / other key same kid / wrong kid / no kid / embedded jwk / key of the other verifier's set), 1/5 carry a manipulation, 1/3 of a provider's / OP key set's tokens go to its other verifier; every token has a payload mark of its own; the key lookups (storage KeySet / GetKeyByIDAndClientID, application key set, JWKS transport) yield before and after answering " +
		"(nothing / 1-4 runtime.Gosched / 20-100 microseconds sleep / rendezvous of 2-k callers inside the lookup for at most 300 microseconds). Every result of every round is judged by the per-token oracle of the sequential check (must-reject never accepted, must-accept accepted, claims handed back = the payload this token's signature covers, not another caller's); " +
		"TestConcurrent runs from a -race binary (a data race report kills the process; the case on disk is reported), TestConcurrentFast from the plain binary. non-trivial = at least two workers whose tokens differ in verdict, signer or client; distinct = (kind, router, key-set shapes, allowed list, provider options, rounds, yield, per token: worker, verifier, alg, kid presence, client, manipulations, time claims, verdict)",
	Gen:   genConc,
	Run:   run,
	Track: true,
}

func TestConcurrent(t *testing.T)     { propConc.Check(t) }
func TestConcurrentFast(t *testing.T) { propConc.Check(t) }
