//go:build verif

package c02

import "github.com/zitadel/oidc/v3/pkg/client/rp"

// The library (build tag verif) calls rp.VerifAfterInflightDone on the download goroutine of the remote key set right after the
// result of a finished download was handed to its waiters; the rotation sub-check (rot_test.go) listens there.
func init() {
	rp.VerifAfterInflightDone = rotHook
	rotHookInstalled = true
}
