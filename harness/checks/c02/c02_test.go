// Package c02: only payloads signed by a trusted key with an allowed algorithm are believed (property C02).
//
// One case = (verifier kind, key set, allowed-algorithm list, a genuinely signed token, 0-2 manipulations of it), optionally
// followed by up to 3 further calls on the SAME long-lived verifier / key-set / provider instance: before each of them the
// key set the storage / JWKS endpoint / application serves may change (key added, removed, replaced under the same kid, use
// or kid changed, emptied, restored), and the token presented is either freshly signed (against the key set in force or an
// earlier one) or DERIVED from the genuinely signed token of an earlier call (replayed as it is, or the same signature
// with another payload / header, the same payload with another signature, ...). Every call is judged by the same per-call
// oracle against the key set in force at the time of that call.
// The claims of most tokens are valid for the verifier in use and carry fixed far-away time stamps (iat 2020,
// exp 2100), so the signature / key / algorithm decision is the only thing that can reject such a token; soundness and
// completeness are judged in the same run. A share of the tokens (2/5 for the id_token_hint verifiers, 1/10 elsewhere)
// fails a time check instead (exp 2023 / exp absent / iat 2096, or - op-hint - a verifier with MaxAge / MaxAgeIAT of one
// hour): op.VerifyIDTokenHint documents that it hands the claims of such a hint back together with an
// IDTokenHintExpiredError "as signature and other verifications succeeded", and the authorize and end_session endpoints
// believe them - claims count as handed back whenever they come with no error OR with that error, and the same
// conditions apply. All time stamps are fixed and years away from now: no wall clock takes part in any decision.
// Request objects: the configured key set is the one registered for the client that makes the authorization request
// (the outer client_id); the object's own client_id member (absent / empty / requester / other client / unknown) and iss
// (requester / other registered client / unknown / absent) are generated independently of it and of the signing key.
package c02

import (
	"fmt"
	"sort"
	"strings"
	"testing"

	"pgregory.net/rapid"

	"verif/harness/vkit"
)

// ---- case -----------------------------------------------------------------------

// KeyEntry is one published key (or one registered client key): pool key name, key ID, declared use, alg member.
type KeyEntry struct {
	Key string `json:"key"`
	KID string `json:"kid"`
	Use string `json:"use"`
	Alg string `json:"alg,omitempty"`
}

// Manip is one manipulation of the genuinely signed token.
type Manip struct {
	Kind string `json:"kind"`
	Arg  string `json:"arg,omitempty"`
	N    int    `json:"n,omitempty"`
}

// TokSpec describes the genuinely signed token the case starts from.
type TokSpec struct {
	Alg      string  `json:"alg"`
	Key      string  `json:"key"` // pool key that signs
	KID      string  `json:"kid"`
	HasKID   bool    `json:"has_kid"`
	Iss      string  `json:"iss,omitempty"`       // per-client kinds: the client the token names (c1 | c2 | ghost)
	Sub      string  `json:"sub,omitempty"`       // assertions: subject if it differs from the issuer (needs Delegation)
	EmbedJWK bool    `json:"embed_jwk,omitempty"` // header carries the signer's public key as "jwk"
	Relation string  `json:"relation"`            // how signer / kid were derived from the key set (label only)
	Time     string  `json:"time,omitempty"`      // time claims: "" iat 2020 / exp 2100 | expired (exp 2023) | exp-missing | iat-future (iat 2096)
	Outer    string  `json:"outer,omitempty"`     // request objects: the client making the authorization request (outer client_id) if it is not Iss
	CID      string  `json:"cid,omitempty"`       // request objects: the object's client_id member: "" = Iss | absent | empty | c1 | c2 | ghost (Iss "absent": no iss member)
	Mark     string  `json:"mark,omitempty"`      // concurrent sub-check: the "mark" (and user) of the genuine payload, one per token, so that claims of ANOTHER caller's token are recognised ("" = "genuine")
	Manips   []Manip `json:"manips,omitempty"`
}

// FindKeySpec are the arguments of a direct oidc.FindMatchingKey call.
type FindKeySpec struct {
	KID string `json:"kid"`
	Alg string `json:"alg"`
}

// Step is one further call on the same instance (Case.Seq).
type Step struct {
	Mut   string     `json:"mut,omitempty"`   // key-set change applied before this call ("" none); Keys / Keys2 are then the sets in force from here on
	Keys  []KeyEntry `json:"keys,omitempty"`  // only meaningful with Mut != ""
	Keys2 []KeyEntry `json:"keys2,omitempty"` // only meaningful with Mut != ""
	From  int        `json:"from,omitempty"`  // 1 + index of the earlier call (0 = the case's first token) whose genuinely signed token is reused; 0: freshly signed
	Ver   string     `json:"ver,omitempty"`   // prov-access / prov-hint: this call goes to the OTHER verifier of the same provider ("access" | "hint"; "" the case's own); Mut / Keys then concern the key set configured for that verifier
	Tok   TokSpec    `json:"tok"`
}

// ProvOpts are the options of op.NewProvider that select keys / algorithms for verification (kinds prov-access, prov-hint,
// hint-http). The access-token verifier of the provider trusts the key set configured for access tokens (AccessKS, or what
// the storage publishes when the option is not given) and allows AccessAlgs (or the library default); the id_token_hint
// verifier likewise with HintKS / HintAlgs - never the other one's. nil (replay files of earlier rounds, 1/6 of the generated
// cases): the fixed option set of vkit.Build (no key-set option, both algorithm lists = the storage's signing algorithm).
type ProvOpts struct {
	HasAccessKS bool       `json:"has_access_ks,omitempty"` // op.WithAccessTokenKeySet(<application key set over AccessKS>)
	AccessKS    []KeyEntry `json:"access_ks,omitempty"`
	HasHintKS   bool       `json:"has_hint_ks,omitempty"` // op.WithIDTokenHintKeySet(<application key set over HintKS>)
	HintKS      []KeyEntry `json:"hint_ks,omitempty"`
	AccessAlgs  []string   `json:"access_algs,omitempty"` // op.WithAccessTokenVerifierOpts(op.WithSupportedAccessTokenSigningAlgorithms(...)); empty: option not given
	HintAlgs    []string   `json:"hint_algs,omitempty"`   // op.WithIDTokenHintVerifierOpts(op.WithSupportedIDTokenHintSigningAlgorithms(...)); empty: option not given
	Rev         bool       `json:"rev,omitempty"`         // options handed to op.NewProvider in reverse order
}

type Case struct {
	Kind       string       `json:"kind"`
	Router     string       `json:"router,omitempty"` // *-http kinds: provider | legacy
	Keys       []KeyEntry   `json:"keys"`             // published key set, or the keys registered for client c1
	Keys2      []KeyEntry   `json:"keys2,omitempty"`  // per-client kinds: keys registered for client c2
	Algs       []string     `json:"algs"`             // allowed list; empty: library default
	Tok        TokSpec      `json:"tok"`
	Delegation bool         `json:"delegation,omitempty"`  // assertions: verifier built with op.SubjectCheck that permits iss != sub
	MultiKS    bool         `json:"multi_ks,omitempty"`    // rp-static / jwt-assert-ks: the application's key set verifies with go-jose's VerifyMulti (tolerates several signatures itself)
	Warm       bool         `json:"warm,omitempty"`        // rp-remote: verify three times (cold, then cached)
	SkipRemote bool         `json:"skip_remote,omitempty"` // rp-remote: rp.SkipRemoteCheck()
	FK         *FindKeySpec `json:"fk,omitempty"`
	Raw        []byte       `json:"raw,omitempty"` // native fuzz: literal serialized token ($H $P $S $E placeholders), replaces manipulations
	Seq        []Step       `json:"seq,omitempty"` // further calls on the same verifier / key-set / provider instance
	Prov       *ProvOpts    `json:"prov,omitempty"` // prov-access / prov-hint / hint-http / hint-end-http: verification options of op.NewProvider; Keys stays what the storage publishes
	Conc       *Conc        `json:"conc,omitempty"`  // set: concurrent sub-check (TestConcurrent*, conc_test.go); Tok mirrors the first token, Seq unused
	Rot        *Rot         `json:"rot,omitempty"`   // set: rotation sub-check on the rp remote key set (TestRotation, rot_test.go): key sets published one after the other and a schedule of verifications / held downloads; Keys mirrors the first set, Tok the first token, Seq unused
	Stale      string       `json:"stale,omitempty"` // op-hint: the verifier has MaxAgeIAT ("iat") or MaxAge ("auth"; tokens carry auth_time 2020) of one hour: every token of the case fails a time check
}

// verifier kinds
const (
	kRPStatic  = "rp-static"     // rp.VerifyIDToken, harness key set over oidc.FindMatchingKey
	kRPRemote  = "rp-remote"     // rp.VerifyIDToken, rp.NewRemoteKeySet over an in-process RoundTripper
	kOPAccess  = "op-access"     // op.VerifyAccessToken, op.OpenIDKeySet over the vkit store
	kOPHint    = "op-hint"       // op.VerifyIDTokenHint, op.OpenIDKeySet over the vkit store
	kHintHTTP  = "hint-http"     // id_token_hint through the authorize endpoint
	kHintEnd   = "hint-end-http" // id_token_hint through the end_session endpoint
	kAssert    = "jwt-assert"    // op.VerifyJWTAssertion, per-client keys from storage
	kAssertKS  = "jwt-assert-ks" // op.VerifyJWTAssertion with NewJWTProfileVerifierKeySet (published set)
	kReqObj    = "reqobj"        // op.ParseRequestObject called directly
	kReqHTTP   = "reqobj-http"   // request object through the authorize endpoint
	kFindKey   = "findkey"       // oidc.FindMatchingKey directly
	kProvAcc   = "prov-access"   // op.VerifyAccessToken with Provider.AccessTokenVerifier of a provider built by op.NewProvider (default or configured key set / algorithms)
	kProvHint  = "prov-hint"     // op.VerifyIDTokenHint with Provider.IDTokenHintVerifier of a provider built by op.NewProvider (default or configured key set / algorithms)
)

var tokenKinds = []string{kRPStatic, kRPRemote, kOPAccess, kOPHint, kHintHTTP, kHintEnd, kAssert, kAssertKS, kReqObj, kReqHTTP, kProvAcc, kProvHint}

func perClient(kind string) bool { return kind == kAssert || kind == kReqObj || kind == kReqHTTP }
func isHTTP(kind string) bool    { return kind == kHintHTTP || kind == kReqHTTP || kind == kHintEnd }
func isReqObj(kind string) bool  { return kind == kReqObj || kind == kReqHTTP }
func isHint(kind string) bool {
	return kind == kOPHint || kind == kProvHint || kind == kHintHTTP || kind == kHintEnd
}

// time claims a token may carry (TokSpec.Time)
var timeKinds = []string{"", "expired", "exp-missing", "iat-future"}

// timeFails: the token fails a time check of its verifier (by years, whatever the clock says).
func timeFails(c Case) bool { return c.Tok.Time != "" || (c.Kind == kOPHint && c.Stale != "") }

// requester: the client that makes the authorization request a request object is part of (per-client kinds otherwise: the issuer).
func requester(c Case) string {
	if isReqObj(c.Kind) && c.Tok.Outer != "" {
		return c.Tok.Outer
	}
	return who(c)
}

// cidMember: the client_id member of a request object whose iss is (or would be) iss: value, present.
func cidMember(tok TokSpec, iss string) (string, bool) {
	switch tok.CID {
	case "":
		if iss == "absent" {
			return "", false
		}
		return iss, true
	case "absent":
		return "", false
	case "empty":
		return "", true
	}
	return tok.CID, true
}

var (
	allAlgs     = []string{"RS256", "RS384", "RS512", "PS256", "PS384", "PS512", "ES256", "ES384", "ES512", "EdDSA"}
	defaultAlgs = []string{"RS256", "ES256", "PS256"}
)

// allowedAlgs is the allowed-algorithm list in force for the case (from the statement / documented defaults).
func allowedAlgs(c Case) []string {
	switch c.Kind {
	case kRPStatic, kRPRemote, kOPAccess, kOPHint:
		if len(c.Algs) == 0 {
			return defaultAlgs
		}
		return c.Algs
	case kHintHTTP, kHintEnd, kProvAcc, kProvHint:
		if c.Prov != nil {
			l := c.Prov.HintAlgs
			if c.Kind == kProvAcc {
				l = c.Prov.AccessAlgs
			}
			if len(l) == 0 {
				return defaultAlgs
			}
			return l
		}
		return []string{hintAlg(c)}
	}
	return defaultAlgs // assertions and request objects: no option, documented default
}

// ---- provider options: which key set / algorithm list is configured for which verifier ------------

func isProv(kind string) bool {
	return kind == kHintHTTP || kind == kHintEnd || kind == kProvAcc || kind == kProvHint
}

// targetOf names the key set the verifier of `kind` is configured with: "storage" (what Storage.KeySet publishes; the
// default), "access" / "hint" (the application's key set handed to op.WithAccessTokenKeySet / op.WithIDTokenHintKeySet).
// Kinds without provider: "" (the one key set of the case).
func targetOf(c Case, kind string) string {
	if !isProv(kind) {
		return ""
	}
	if c.Prov != nil {
		if kind == kProvAcc && c.Prov.HasAccessKS {
			return "access"
		}
		if kind != kProvAcc && c.Prov.HasHintKS {
			return "hint"
		}
	}
	return "storage"
}

// keySets lists the key sets of the case by target name.
func keySets(c Case) map[string][]KeyEntry {
	if !isProv(c.Kind) {
		return map[string][]KeyEntry{"": c.Keys}
	}
	m := map[string][]KeyEntry{"storage": c.Keys}
	if c.Prov != nil && c.Prov.HasAccessKS {
		m["access"] = c.Prov.AccessKS
	}
	if c.Prov != nil && c.Prov.HasHintKS {
		m["hint"] = c.Prov.HintKS
	}
	return m
}

// stepKind: the verifier a further call goes to.
func stepKind(c Case, s Step) string {
	if c.Kind == kProvAcc || c.Kind == kProvHint {
		switch s.Ver {
		case "access":
			return kProvAcc
		case "hint":
			return kProvHint
		}
	}
	return c.Kind
}

func provShape(p *ProvOpts) string {
	if p == nil {
		return "fixed"
	}
	ks := "ks="
	switch {
	case p.HasAccessKS && p.HasHintKS:
		ks += "both"
	case p.HasAccessKS:
		ks += "access"
	case p.HasHintKS:
		ks += "hint"
	default:
		ks += "none"
	}
	return ks
}

// hintAlg: the provider is configured with exactly one id_token_hint algorithm (the one of its signing key).
func hintAlg(c Case) string {
	if len(c.Algs) > 0 && contains(allAlgs, c.Algs[0]) {
		return c.Algs[0]
	}
	return "RS256"
}

func contains(l []string, s string) bool {
	for _, x := range l {
		if x == s {
			return true
		}
	}
	return false
}

// ---- generator ------------------------------------------------------------------

var algLists = [][]string{
	nil, nil, nil, {"RS256"}, {"ES256", "EdDSA"}, {"PS256", "RS384"}, {"ES384", "ES512", "RS512", "PS384", "PS512"},
	{"EdDSA"}, {"RS256", "HS256"}, {"HS256", "HS384", "HS512", "none", "RS256", "ES256"}, {"RS256", "ES256", "PS256", "EdDSA", "ES384", "ES512"},
}

var allowListPool = []string{"RS256", "RS384", "RS512", "PS256", "PS384", "PS512", "ES256", "ES384", "ES512", "EdDSA",
	"HS256", "HS384", "HS512", "HS256", "none", "none", "HS512", "foo"}

var kidPool = []string{"k1", "k2", "k3", "", "k1", "k", "k11"}

func genKeySet(t *rapid.T, label string, allowed []string, unique bool, maxN int) []KeyEntry {
	n := rapid.SampledFrom([]int{1, 1, 1, 2, 2, 2, 3, 3, 4, 0}).Draw(t, label+"n")
	if n > maxN {
		n = maxN
	}
	// pool keys biased towards types that can produce an allowed algorithm (keeps the must-accept class large)
	var fitting []string
	for _, kn := range vkit.KeyNames {
		for _, a := range vkit.AlgsOf(vkit.Key(kn)) {
			if contains(allowed, a) {
				fitting = append(fitting, kn)
				break
			}
		}
	}
	var out []KeyEntry
	seen := map[string]bool{}
	for i := 0; i < n; i++ {
		var e KeyEntry
		if len(fitting) > 0 && rapid.IntRange(0, 3).Draw(t, fmt.Sprintf("%sfit%d", label, i)) > 0 {
			e.Key = rapid.SampledFrom(fitting).Draw(t, fmt.Sprintf("%skey%d", label, i))
		} else {
			e.Key = rapid.SampledFrom(vkit.KeyNames).Draw(t, fmt.Sprintf("%skey%d", label, i))
		}
		e.KID = rapid.SampledFrom(kidPool).Draw(t, fmt.Sprintf("%skid%d", label, i))
		if unique {
			if seen[e.KID] {
				continue
			}
			seen[e.KID] = true
			e.Use = "sig"
		} else {
			e.Use = rapid.SampledFrom([]string{"sig", "sig", "sig", "", "", "enc"}).Draw(t, fmt.Sprintf("%suse%d", label, i))
			if rapid.IntRange(0, 3).Draw(t, fmt.Sprintf("%salgm%d", label, i)) == 0 {
				e.Alg = rapid.SampledFrom(vkit.AlgsOf(vkit.Key(e.Key))).Draw(t, fmt.Sprintf("%salg%d", label, i))
			}
		}
		out = append(out, e)
	}
	return out
}

// pickAlg chooses a signing algorithm for key: mostly one the verifier allows.
func pickAlg(t *rapid.T, key string, allowed []string) string {
	algs := vkit.AlgsOf(vkit.Key(key))
	var ok []string
	for _, a := range algs {
		if contains(allowed, a) {
			ok = append(ok, a)
		}
	}
	if len(ok) > 0 && rapid.IntRange(0, 6).Draw(t, "algok") > 0 {
		return rapid.SampledFrom(ok).Draw(t, "alg")
	}
	return rapid.SampledFrom(algs).Draw(t, "alg")
}

// otherKeyLike returns a pool key of the same type that differs from name and is not in the set.
func otherKeyLike(name string, set []KeyEntry) string {
	in := map[string]bool{name: true}
	for _, e := range set {
		in[e.Key] = true
	}
	kind := vkit.Key(name).Kind
	for _, kn := range vkit.KeyNames {
		if !in[kn] && vkit.Key(kn).Kind == kind {
			return kn
		}
	}
	for _, kn := range vkit.KeyNames {
		if !in[kn] && strings.HasPrefix(vkit.Key(kn).Kind, kind[:1]) {
			return kn
		}
	}
	for _, kn := range vkit.KeyNames {
		if !in[kn] {
			return kn
		}
	}
	return name
}

func kidVariant(t *rapid.T, kid string) string {
	return rapid.SampledFrom([]string{"nope", kid + "1", kid + "x", strings.TrimSuffix(kid, kid[max(0, len(kid)-1):]), strings.ToUpper(kid) + "", " " + kid, "k", "k11"}).Draw(t, "kidvar")
}

func genCase(t *rapid.T) Case {
	var c Case
	c.Kind = rapid.SampledFrom([]string{
		kAssert, kAssert, kAssert, kRPRemote, kRPRemote, kRPRemote, kOPAccess, kOPAccess, kOPAccess, kReqObj, kReqObj, kOPHint, kOPHint,
		kRPStatic, kRPStatic, kRPStatic, kHintHTTP, kAssertKS, kReqHTTP, kReqHTTP, kFindKey, kFindKey, kFindKey, kProvAcc, kProvAcc, kProvHint,
		kHintEnd, kHintEnd, kProvHint,
	}).Draw(t, "kind")
	if isHTTP(c.Kind) {
		c.Router = rapid.SampledFrom([]string{"provider", "legacy"}).Draw(t, "router")
	}
	switch c.Kind {
	case kRPStatic, kRPRemote, kOPAccess, kOPHint:
		c.Algs = rapid.SampledFrom(algLists).Draw(t, "algs")
		if rapid.IntRange(0, 3).Draw(t, "algsfree") == 0 {
			// free-form allow-list: any subset of the asymmetric algorithms, the symmetric ones, "none" and an unknown name -
			// including lists that name nothing a public key can verify (the verifier must then believe nothing, not fall back)
			c.Algs = rapid.SliceOfNDistinct(rapid.SampledFrom(allowListPool), 1, 4, rapid.ID[string]).Draw(t, "algsfreelist")
		}
	case kHintHTTP, kHintEnd, kProvAcc, kProvHint:
		c.Algs = []string{rapid.SampledFrom(allAlgs).Draw(t, "hintalg")}
		genProvOpts(t, &c)
	}
	if c.Kind == kOPHint {
		c.Stale = rapid.SampledFrom([]string{"", "", "", "", "", "", "iat", "auth"}).Draw(t, "stale")
	}
	if c.Kind == kFindKey {
		return genFindKey(t, c)
	}
	allowed := allowedAlgs(c)
	if c.Kind == kRPStatic || c.Kind == kAssertKS {
		c.MultiKS = rapid.IntRange(0, 2).Draw(t, "multiks") == 0
	}
	if c.Kind == kRPRemote {
		c.Warm = rapid.Bool().Draw(t, "warm")
		c.SkipRemote = rapid.IntRange(0, 3).Draw(t, "skipremote") == 0
	}
	if perClient(c.Kind) {
		c.Keys = genKeySet(t, "c1", allowed, true, 3)
		c.Keys2 = genKeySet(t, "c2", allowed, true, 2)
		genPerClient(t, &c, allowed)
	} else {
		c.Keys = genKeySet(t, "ks", allowed, false, 4)
		if c.Prov != nil {
			genProvKeySets(t, &c)
			c.Tok = genProvToken(t, &c, c.Kind, keySets(c), "")
		} else {
			genPublished(t, &c, allowed)
		}
	}
	c.Tok.Time = genTime(t, c.Kind, "")
	if c.Kind == kAssert || c.Kind == kAssertKS {
		// a verifier that allows delegation (custom SubjectCheck): the subject may be another registered client or a user,
		// the key must still be one registered for the issuer
		c.Delegation = rapid.IntRange(0, 2).Draw(t, "delegation") == 0
		if c.Delegation {
			c.Tok.Sub = rapid.SampledFrom([]string{otherWho(who(c)), "", otherWho(who(c)), "user-7"}).Draw(t, "sub")
		}
	}
	// a sequence starts more often from a token the instance accepts (what it remembers is what later calls abuse)
	seqLen := rapid.SampledFrom([]int{0, 0, 0, 0, 1, 1, 2, 2, 3, 3}).Draw(t, "seqlen")
	nms := []int{0, 0, 0, 1, 1, 1, 1, 1, 2, 2}
	if seqLen > 0 {
		nms = []int{0, 0, 0, 0, 0, 0, 1, 1, 1, 2}
	}
	nm := rapid.SampledFrom(nms).Draw(t, "nmanip")
	for i := 0; i < nm; i++ {
		c.Tok.Manips = append(c.Tok.Manips, genManip(t, c, i))
	}
	genSeq(t, &c, allowed, seqLen)
	return c
}

// genTime draws the time claims of a freshly signed token: 2/5 of the id_token_hints and 1/10 of the other tokens fail a
// time check (request objects carry no time claims).
func genTime(t *rapid.T, kind, l string) string {
	if isReqObj(kind) {
		return ""
	}
	pool := []string{"", "", "", "", "", "", "", "", "", "", "", "", "", "", "", "", "", "", "expired", "iat-future"}
	if isHint(kind) {
		pool = []string{"", "", "", "", "", "", "expired", "expired", "exp-missing", "iat-future"}
	}
	return rapid.SampledFrom(pool).Draw(t, l+"time")
}

// genReqObjShape: half of the request objects are what a client library emits (iss = client_id = the requesting client);
// the others are used in the authorization request of ANOTHER client than their iss names (a registered one with its own
// keys, or an unknown one), and / or their client_id member is absent, empty, the requester, the other client or unknown,
// and now and then they have no iss. The signing key stays what the relation chose relative to iss (iss's key, the other
// registered client's key, an unregistered key).
func genReqObjShape(t *rapid.T, c *Case, l string) {
	tok := &c.Tok
	if rapid.IntRange(0, 9).Draw(t, l+"roshape") < 5 {
		return
	}
	switch rapid.SampledFrom([]string{"iss", "iss", "other", "other", "other", "ghost"}).Draw(t, l+"roouter") {
	case "other":
		tok.Outer = otherWho(tok.Iss)
	case "ghost":
		tok.Outer = "ghost"
	}
	if rapid.IntRange(0, 7).Draw(t, l+"ronoiss") == 0 {
		if tok.Outer == "" {
			tok.Outer = tok.Iss
		}
		tok.Iss = "absent"
	}
	req := tok.Outer
	if req == "" {
		req = tok.Iss
	}
	switch rapid.SampledFrom([]string{"absent", "absent", "absent", "empty", "requester", "iss", "other", "ghost"}).Draw(t, l+"rocid") {
	case "absent":
		tok.CID = "absent"
	case "empty":
		tok.CID = "empty"
	case "requester":
		tok.CID = req
	case "other":
		tok.CID = otherWho(req)
	case "ghost":
		tok.CID = "ghost"
	}
	if tok.Outer == tok.Iss {
		tok.Outer = ""
	}
	if tok.CID == tok.Iss {
		tok.CID = ""
	}
}

// ---- provider options -------------------------------------------------------------

func genProvAlgs(t *rapid.T, l string) []string {
	switch rapid.IntRange(0, 5).Draw(t, l+"mode") {
	case 0, 1:
		return nil // option not given: library default
	case 2:
		return []string{rapid.SampledFrom(allAlgs).Draw(t, l+"one")}
	case 3:
		return rapid.SliceOfNDistinct(rapid.SampledFrom(allowListPool), 1, 4, rapid.ID[string]).Draw(t, l+"free")
	}
	return append([]string{}, rapid.SampledFrom(algLists[3:]).Draw(t, l+"list")...)
}

// genProvOpts draws which verification options the provider is built with (the custom key sets follow in genProvKeySets,
// once the storage's published set is known). 1/6: nil = the fixed option set of vkit.Build.
func genProvOpts(t *rapid.T, c *Case) {
	if rapid.IntRange(0, 5).Draw(t, "provfixed") == 0 {
		return
	}
	p := &ProvOpts{}
	switch rapid.SampledFrom([]string{"none", "access", "access", "hint", "hint", "both", "both"}).Draw(t, "provks") {
	case "access":
		p.HasAccessKS = true
	case "hint":
		p.HasHintKS = true
	case "both":
		p.HasAccessKS, p.HasHintKS = true, true
	}
	p.AccessAlgs = genProvAlgs(t, "aalgs")
	p.HintAlgs = genProvAlgs(t, "halgs")
	if rapid.IntRange(0, 3).Draw(t, "provsamealgs") == 0 {
		p.HintAlgs = append([]string{}, p.AccessAlgs...)
	}
	p.Rev = rapid.Bool().Draw(t, "provrev")
	c.Prov = p
}

// genCustomKeySet: an application key set of pool keys; disjoint from, overlapping with or equal to the storage's published set.
func genCustomKeySet(t *rapid.T, l string, allowed []string, storage []KeyEntry) []KeyEntry {
	if len(storage) > 0 && rapid.IntRange(0, 9).Draw(t, l+"same") == 0 {
		return append([]KeyEntry{}, storage...)
	}
	out := genKeySet(t, l, allowed, false, 3)
	for i, e := range storage {
		switch rapid.IntRange(0, 7).Draw(t, fmt.Sprintf("%sovl%d", l, i)) {
		case 0: // the same key under the same kid
			out = append(out, e)
		case 1: // the same kid, another key
			x := e
			x.Key, x.Alg = otherKeyLike(e.Key, append(append([]KeyEntry{}, storage...), out...)), ""
			out = append(out, x)
		case 2: // the same key, another kid
			x := e
			x.KID = rapid.SampledFrom(kidPool).Draw(t, fmt.Sprintf("%sovlkid%d", l, i))
			out = append(out, x)
		}
	}
	if len(out) > 4 {
		out = out[:4]
	}
	return out
}

func genProvKeySets(t *rapid.T, c *Case) {
	p := c.Prov
	kindAllowed := func(kind string) []string {
		tmp := *c
		tmp.Kind = kind
		return allowedAlgs(tmp)
	}
	if p.HasAccessKS {
		p.AccessKS = genCustomKeySet(t, "aks", kindAllowed(kProvAcc), c.Keys)
	}
	if p.HasHintKS {
		p.HintKS = genCustomKeySet(t, "hks", kindAllowed(kProvHint), c.Keys)
		if p.HasAccessKS && rapid.IntRange(0, 5).Draw(t, "hkssame") == 0 {
			p.HintKS = append([]KeyEntry{}, p.AccessKS...)
		}
	}
}

// genProvToken signs a token for the provider's verifier of `kind`: mostly related to the key set configured for that
// verifier (sets[targetOf]), 1/4 to ANOTHER key set the provider knows (the storage's own keys while a custom set is
// configured for this verifier, the set configured for the other verifier), and now and then with an algorithm that only
// the other verifier's list allows. sets: the key sets in force by target name.
func genProvToken(t *rapid.T, c *Case, kind string, sets map[string][]KeyEntry, l string) TokSpec {
	tmp := *c
	tmp.Kind, tmp.Seq, tmp.Tok = kind, nil, TokSpec{}
	allowed := allowedAlgs(tmp)
	own := targetOf(*c, kind)
	tgt := own
	var others []string
	for _, n := range []string{"storage", "access", "hint"} {
		if _, ok := sets[n]; ok && n != own {
			others = append(others, n)
		}
	}
	if len(others) > 0 && rapid.IntRange(0, 3).Draw(t, l+"otherset") == 0 {
		tgt = rapid.SampledFrom(others).Draw(t, l+"tgt")
	}
	tmp.Keys = sets[tgt]
	genPublished(t, &tmp, allowed)
	tok := tmp.Tok
	if tgt != own {
		tok.Relation = "set-" + tgt + ":" + tok.Relation
	}
	if rapid.IntRange(0, 7).Draw(t, l+"otheralg") == 0 {
		o := tmp
		o.Kind = kProvAcc
		if kind == kProvAcc {
			o.Kind = kProvHint
		}
		var only []string
		for _, a := range vkit.AlgsOf(vkit.Key(tok.Key)) {
			if contains(allowedAlgs(o), a) && !contains(allowed, a) {
				only = append(only, a)
			}
		}
		if len(only) > 0 {
			tok.Alg = rapid.SampledFrom(only).Draw(t, l+"otheralgpick")
			tok.Relation = "alg-of-other-list:" + tok.Relation
		}
	}
	return tok
}

// ---- sequences on one instance ----------------------------------------------------

var derivedManipKinds = []string{
	"payload-edit", "payload-edit", "payload-edit", "payload-edit", "sig-flip", "sig-flip", "sig-other", "sig-other", "payload-reencode", "payload-reencode",
	"kid-edit", "alg-swap", "smuggle", "smuggle", "hs-pub", "alg-none", "strip-sig", "json-flat", "json-general", "json-2sig", "trunc", "b64-noncanon", "extra-seg",
}

// genKeyMut draws one change of a key set. unique: per-client registrations (kid unique, use always sig). focus is the
// pool key of the token presented last (the key an instance is most likely to remember), orig the set the case started with.
func genKeyMut(t *rapid.T, l string, keys, orig []KeyEntry, allowed []string, unique bool, focus string) (string, []KeyEntry) {
	out := append([]KeyEntry{}, keys...)
	if len(out) == 0 {
		op := rapid.SampledFrom([]string{"add", "add", "restore"}).Draw(t, l+"op0")
		if op == "restore" && len(orig) > 0 {
			return "restore", append([]KeyEntry{}, orig...)
		}
		n := genKeySet(t, l+"add", allowed, unique, 1)
		if len(n) == 0 {
			n = []KeyEntry{{Key: "rsa1", KID: "k1", Use: "sig"}}
		}
		return "add", n
	}
	i := rapid.IntRange(0, len(out)-1).Draw(t, l+"idx")
	if rapid.Bool().Draw(t, l+"focus") {
		for j, e := range out {
			if e.Key == focus {
				i = j
				break
			}
		}
	}
	kidFree := func(kid string, except int) bool {
		for j, e := range out {
			if j != except && e.KID == kid {
				return false
			}
		}
		return true
	}
	ops := []string{"remove", "remove", "remove", "replace-key", "replace-key", "add", "add", "set-kid", "clear", "restore", "set-use", "set-use"}
	op := rapid.SampledFrom(ops).Draw(t, l+"op")
	switch op {
	case "remove":
		out = append(out[:i], out[i+1:]...)
	case "replace-key": // another key published / registered under the same kid
		out[i].Key = otherKeyLike(out[i].Key, out)
		if out[i].Alg != "" && !vkit.AlgFitsKey(out[i].Alg, vkit.Key(out[i].Key)) {
			out[i].Alg = ""
		}
	case "add":
		if len(out) >= 4 {
			return "", keys
		}
		e := KeyEntry{Key: rapid.SampledFrom(vkit.KeyNames).Draw(t, l+"addkey"), KID: rapid.SampledFrom(kidPool).Draw(t, l+"addkid"), Use: "sig"}
		if rapid.Bool().Draw(t, l+"addlike") {
			e.Key = otherKeyLike(out[i].Key, out) // a further key of the same type (roll-over)
		}
		if unique {
			if !kidFree(e.KID, -1) {
				return "", keys
			}
		} else {
			e.Use = rapid.SampledFrom([]string{"sig", "sig", "", "enc"}).Draw(t, l+"adduse")
		}
		if rapid.Bool().Draw(t, l+"addfront") {
			out = append([]KeyEntry{e}, out...)
		} else {
			out = append(out, e)
		}
	case "set-kid":
		kid := rapid.SampledFrom(kidPool).Draw(t, l+"newkid")
		if kid == out[i].KID || (unique && !kidFree(kid, i)) {
			return "", keys
		}
		out[i].KID = kid
	case "set-use":
		if unique {
			return "", keys
		}
		use := rapid.SampledFrom([]string{"enc", "enc", "sig", ""}).Draw(t, l+"newuse")
		if use == out[i].Use {
			return "", keys
		}
		out[i].Use = use
	case "clear":
		out = nil
	case "restore":
		if sameKeys(out, orig) {
			return "", keys
		}
		out = append([]KeyEntry{}, orig...)
	}
	return op, out
}

func sameKeys(a, b []KeyEntry) bool {
	if len(a) != len(b) {
		return false
	}
	for i := range a {
		if a[i] != b[i] {
			return false
		}
	}
	return true
}

// genWithdrawSeq: the scenario "a key is withdrawn, and the token it signed comes back": before call 2 the signer of the first
// token disappears from the key set in force for the case's verifier (set emptied, entry removed, another key under the
// same kid, use changed to enc); then n-1 (0-2) calls with tokens the instance cannot have seen (another key; unknown kid,
// no kid or the signer's kid - what makes a caching key set look at its source again); finally the genuine first token is
// presented again (same signature bytes).
func genWithdrawSeq(t *rapid.T, c *Case, allowed []string, n int) {
	tg := targetOf(*c, c.Kind)
	keys, keys2 := keySets(*c)[tg], c.Keys2
	second := perClient(c.Kind) && requester(*c) == "c2"
	set := keys
	if second {
		set = keys2
	}
	signer := c.Tok.Key
	op := rapid.SampledFrom([]string{"clear", "clear", "remove", "remove", "replace-key", "set-use"}).Draw(t, "wdop")
	if op == "set-use" && perClient(c.Kind) {
		op = "remove"
	}
	var out []KeyEntry
	for _, e := range set {
		if e.Key != signer {
			if op != "clear" {
				out = append(out, e)
			}
			continue
		}
		switch op {
		case "replace-key":
			e.Key, e.Alg = otherKeyLike(signer, append(append([]KeyEntry{}, set...), out...)), ""
			out = append(out, e)
		case "set-use":
			e.Use = "enc"
			out = append(out, e)
		}
	}
	if op != "clear" && sameKeys(out, set) { // the signer was not in the set
		op, out = "clear", nil
	}
	mut := op
	if perClient(c.Kind) {
		mut = map[bool]string{false: "c1:", true: "c2:"}[second] + op
	}
	if second {
		keys2 = out
	} else {
		keys = out
	}
	for i := 0; i < n; i++ {
		l := fmt.Sprintf("w%d", i)
		var st Step
		if i == 0 {
			st.Mut, st.Keys, st.Keys2 = mut, keys, keys2
		}
		if i == n-1 {
			st.From = 1
			st.Tok = c.Tok
			st.Tok.Manips = nil
		} else {
			f := c.Tok
			f.Manips, f.EmbedJWK, f.Relation = nil, false, "unseen"
			f.Key = otherKeyLike(signer, append(append([]KeyEntry{}, set...), out...))
			f.KID = rapid.SampledFrom([]string{"k9", "k9", "", c.Tok.KID}).Draw(t, l+"kid")
			f.HasKID = f.KID != ""
			f.Alg = pickAlg(t, f.Key, allowed)
			st.Tok = f
		}
		c.Seq = append(c.Seq, st)
	}
}

// genSeq appends n further calls on the same instance.
func genSeq(t *rapid.T, c *Case, allowed []string, n int) {
	if n > 0 && rapid.IntRange(0, 4).Draw(t, "withdraw") == 0 {
		genWithdrawSeq(t, c, allowed, n)
		return
	}
	type version struct{ keys, keys2 []KeyEntry }
	// key sets by target name ("" for the kinds with one key set; storage / access / hint for a provider)
	orig := keySets(*c)
	cur := map[string]version{}
	versions := map[string][]version{}
	for tg, k := range orig {
		cur[tg] = version{k, c.Keys2}
		versions[tg] = []version{cur[tg]}
	}
	toks := []TokSpec{c.Tok}
	for i := 0; i < n; i++ {
		l := fmt.Sprintf("s%d", i)
		var st Step
		last := toks[len(toks)-1]
		// a provider has two verifiers: a later call may go to the other one (judged against what is configured for THAT one)
		kind := c.Kind
		if (c.Kind == kProvAcc || c.Kind == kProvHint) && rapid.IntRange(0, 2).Draw(t, l+"otherver") == 0 {
			if c.Kind == kProvAcc {
				kind, st.Ver = kProvHint, "hint"
			} else {
				kind, st.Ver = kProvAcc, "access"
			}
		}
		tg := targetOf(*c, kind)
		kc := *c
		kc.Kind = kind
		allowed := allowed
		if kind != c.Kind {
			allowed = allowedAlgs(kc)
		}
		if rapid.IntRange(0, 9).Draw(t, l+"mutate") < 6 {
			v := cur[tg]
			if perClient(c.Kind) {
				// mostly the registration of the client that presented the last token
				second := last.Iss == "c2"
				if rapid.IntRange(0, 4).Draw(t, l+"otherclient") == 0 {
					second = !second
				}
				if second {
					op, k := genKeyMut(t, l, v.keys2, c.Keys2, allowed, true, last.Key)
					if op != "" {
						st.Mut, v.keys2 = "c2:"+op, k
					}
				} else {
					op, k := genKeyMut(t, l, v.keys, c.Keys, allowed, true, last.Key)
					if op != "" {
						st.Mut, v.keys = "c1:"+op, k
					}
				}
			} else {
				op, k := genKeyMut(t, l, v.keys, orig[tg], allowed, false, last.Key)
				if op != "" {
					st.Mut, v.keys = op, k
				}
			}
			if st.Mut != "" {
				cur[tg] = v
				st.Keys, st.Keys2 = v.keys, v.keys2
				versions[tg] = append(versions[tg], v)
			}
		}
		if rapid.IntRange(0, 9).Draw(t, l+"derive") < 6 {
			// derived from the genuinely signed token of an earlier call: replayed as it is or manipulated
			j := rapid.SampledFrom([]int{0, len(toks) - 1, len(toks) - 1, rapid.IntRange(0, len(toks)-1).Draw(t, l+"fromany")}).Draw(t, l+"from")
			st.From = j + 1
			st.Tok = toks[j]
			st.Tok.Manips = nil
			tmp := kc
			tmp.Keys, tmp.Keys2, tmp.Tok = cur[tg].keys, cur[tg].keys2, st.Tok
			nm := rapid.SampledFrom([]int{0, 0, 0, 1, 1, 1, 1, 1, 2, 2}).Draw(t, l+"nmanip")
			for k := 0; k < nm; k++ {
				if rapid.IntRange(0, 3).Draw(t, fmt.Sprintf("%sgeneral%d", l, k)) == 0 {
					st.Tok.Manips = append(st.Tok.Manips, genManip(t, tmp, k))
				} else {
					st.Tok.Manips = append(st.Tok.Manips, genManipOf(t, tmp, fmt.Sprintf("%sm%d", l, k), rapid.SampledFrom(derivedManipKinds).Draw(t, fmt.Sprintf("%sm%dkind", l, k))))
				}
			}
		} else {
			// freshly signed, against the key set in force or (a key retired meanwhile) an earlier one
			v := cur[tg]
			old := false
			if len(versions[tg]) > 1 && rapid.IntRange(0, 2).Draw(t, l+"oldversion") == 0 {
				vi := rapid.IntRange(0, len(versions[tg])-2).Draw(t, l+"version")
				v, old = versions[tg][vi], true
			}
			tmp := kc
			tmp.Keys, tmp.Keys2, tmp.Tok = v.keys, v.keys2, TokSpec{}
			switch {
			case perClient(c.Kind):
				genPerClient(t, &tmp, allowed)
			case c.Prov != nil && !old:
				now := map[string][]KeyEntry{}
				for n, x := range cur {
					now[n] = x.keys
				}
				tmp.Tok = genProvToken(t, c, kind, now, l)
			default:
				genPublished(t, &tmp, allowed)
			}
			st.Tok = tmp.Tok
			st.Tok.Sub = c.Tok.Sub
			st.Tok.Time = genTime(t, kind, l)
			if old {
				st.Tok.Relation = "old:" + st.Tok.Relation
			}
			tmp.Keys, tmp.Keys2, tmp.Tok = cur[tg].keys, cur[tg].keys2, st.Tok
			nm := rapid.SampledFrom([]int{0, 0, 0, 0, 1, 1, 2}).Draw(t, l+"nmanip")
			for k := 0; k < nm; k++ {
				st.Tok.Manips = append(st.Tok.Manips, genManip(t, tmp, k))
			}
		}
		toks = append(toks, st.Tok)
		c.Seq = append(c.Seq, st)
	}
}

func genPublished(t *rapid.T, c *Case, allowed []string) {
	tok := &c.Tok
	if len(c.Keys) == 0 {
		tok.Relation = "empty-set"
		tok.Key = rapid.SampledFrom(vkit.KeyNames).Draw(t, "signer")
		tok.Alg = pickAlg(t, tok.Key, allowed)
		tok.HasKID = rapid.Bool().Draw(t, "haskid")
		if tok.HasKID {
			tok.KID = "k1"
		}
		return
	}
	i := rapid.IntRange(0, len(c.Keys)-1).Draw(t, "entry")
	e := c.Keys[i]
	tok.Relation = rapid.SampledFrom([]string{
		"trusted", "trusted", "trusted", "trusted", "trusted", "trusted", "trusted", "trusted", "trusted",
		"trusted-nokid", "trusted-nokid", "trusted-nokid", "other-key-same-kid", "other-key-same-kid", "other-key-nokid",
		"wrong-kid", "wrong-kid", "kid-of-other-entry", "embedded-jwk", "kid-for-kidless-key",
	}).Draw(t, "relation")
	tok.Key, tok.KID, tok.HasKID = e.Key, e.KID, e.KID != ""
	switch tok.Relation {
	case "kid-for-kidless-key":
		// the token names a kid nobody publishes; a published key without kid is the documented fallback
		for _, x := range c.Keys {
			if x.KID == "" {
				e = x
				break
			}
		}
		tok.Key, tok.KID, tok.HasKID = e.Key, rapid.SampledFrom([]string{"k9", "k1", "k2"}).Draw(t, "kid9"), true
	case "trusted-nokid":
		tok.KID, tok.HasKID = "", false
	case "other-key-same-kid":
		tok.Key = otherKeyLike(e.Key, c.Keys)
	case "other-key-nokid":
		tok.Key = otherKeyLike(e.Key, c.Keys)
		tok.KID, tok.HasKID = "", false
	case "wrong-kid":
		tok.KID, tok.HasKID = kidVariant(t, e.KID), true
	case "kid-of-other-entry":
		j := rapid.IntRange(0, len(c.Keys)-1).Draw(t, "entry2")
		tok.KID, tok.HasKID = c.Keys[j].KID, c.Keys[j].KID != ""
	case "embedded-jwk":
		tok.Key = otherKeyLike(e.Key, c.Keys)
		tok.EmbedJWK = true
	}
	tok.Alg = pickAlg(t, tok.Key, allowed)
}

func genPerClient(t *rapid.T, c *Case, allowed []string) {
	tok := &c.Tok
	tok.Iss = rapid.SampledFrom([]string{"c1", "c1", "c1", "c1", "c1", "c1", "c2", "ghost"}).Draw(t, "iss")
	own, foreign := c.Keys, c.Keys2
	if tok.Iss == "c2" {
		own, foreign = c.Keys2, c.Keys
	}
	if tok.Iss == "ghost" || len(own) == 0 {
		tok.Relation = "no-registered-key"
		src := append(append([]KeyEntry{}, c.Keys...), c.Keys2...)
		if len(src) > 0 {
			e := rapid.SampledFrom(src).Draw(t, "entry")
			tok.Key, tok.KID, tok.HasKID = e.Key, e.KID, e.KID != ""
		} else {
			tok.Key, tok.KID, tok.HasKID = rapid.SampledFrom(vkit.KeyNames).Draw(t, "signer"), "k1", true
		}
		tok.Alg = pickAlg(t, tok.Key, allowed)
		if isReqObj(c.Kind) {
			genReqObjShape(t, c, "")
		}
		return
	}
	e := rapid.SampledFrom(own).Draw(t, "entry")
	tok.Relation = rapid.SampledFrom([]string{
		"trusted", "trusted", "trusted", "trusted", "trusted", "trusted", "trusted", "trusted",
		"other-key-same-kid", "other-client-key", "other-client-key", "other-client-key", "wrong-kid", "trusted-nokid", "kid-of-other-entry", "embedded-jwk",
	}).Draw(t, "relation")
	tok.Key, tok.KID, tok.HasKID = e.Key, e.KID, e.KID != ""
	switch tok.Relation {
	case "other-key-same-kid":
		tok.Key = otherKeyLike(e.Key, own)
	case "other-client-key":
		if len(foreign) > 0 {
			f := rapid.SampledFrom(foreign).Draw(t, "foreign")
			tok.Key = f.Key
			if rapid.Bool().Draw(t, "foreignkid") {
				tok.KID, tok.HasKID = f.KID, f.KID != ""
			}
		} else {
			tok.Key = otherKeyLike(e.Key, own)
		}
	case "wrong-kid":
		tok.KID, tok.HasKID = kidVariant(t, e.KID), true
	case "trusted-nokid":
		tok.KID, tok.HasKID = "", false
	case "kid-of-other-entry":
		f := rapid.SampledFrom(own).Draw(t, "entry2")
		tok.KID, tok.HasKID = f.KID, f.KID != ""
	case "embedded-jwk":
		tok.Key = otherKeyLike(e.Key, own)
		tok.EmbedJWK = true
	}
	tok.Alg = pickAlg(t, tok.Key, allowed)
	if isReqObj(c.Kind) {
		genReqObjShape(t, c, "")
	}
}

var manipKinds = []string{
	"strip-sig", "alg-none", "alg-none", "hs-pub", "hs-pub", "hs-pub", "alg-swap", "alg-swap", "kid-edit", "payload-reencode", "payload-reencode",
	"payload-edit", "payload-edit", "sig-flip", "sig-other", "trunc", "trunc", "b64-noncanon", "extra-seg", "ws", "json-flat", "json-general", "json-2sig", "json-2sig",
	"smuggle", "smuggle", "smuggle", "smuggle", "smuggle", "smuggle",
}

func genManip(t *rapid.T, c Case, i int) Manip {
	l := fmt.Sprintf("m%d", i)
	return genManipOf(t, c, l, rapid.SampledFrom(manipKinds).Draw(t, l+"kind"))
}

func genManipOf(t *rapid.T, c Case, l, kind string) Manip {
	m := Manip{Kind: kind}
	switch m.Kind {
	case "strip-sig":
		m.Arg = rapid.SampledFrom([]string{"empty", "two-segments"}).Draw(t, l+"arg")
	case "alg-none":
		m.Arg = rapid.SampledFrom([]string{"none", "None", "NONE", "nOnE"}).Draw(t, l+"arg")
	case "hs-pub":
		m.Arg = rapid.SampledFrom([]string{"pem", "der", "jwk", "pkcs1pem"}).Draw(t, l+"arg")
		m.N = rapid.IntRange(0, 2).Draw(t, l+"n")
	case "alg-swap":
		m.Arg = rapid.SampledFrom(append(append([]string{}, allAlgs...), "HS256")).Draw(t, l+"arg")
	case "kid-edit":
		m.Arg = rapid.SampledFrom([]string{"k1", "k2", "", "zz"}).Draw(t, l+"arg")
	case "payload-reencode":
		m.N = rapid.IntRange(0, 3).Draw(t, l+"n")
	case "payload-edit":
		m.N = rapid.IntRange(0, 1).Draw(t, l+"n") // 0: same length, 1: other length
	case "sig-flip":
		m.N = rapid.IntRange(0, 4095).Draw(t, l+"n")
	case "sig-other":
		m.N = rapid.IntRange(0, 2).Draw(t, l+"n")
	case "trunc":
		m.Arg = rapid.SampledFrom([]string{"h", "p", "s", "s"}).Draw(t, l+"arg")
		m.N = rapid.SampledFrom([]int{1, 2, 3, 4, 5, 16, 1000}).Draw(t, l+"n")
	case "b64-noncanon":
		m.Arg = rapid.SampledFrom([]string{"h", "p", "s"}).Draw(t, l+"arg")
	case "extra-seg":
		m.Arg = rapid.SampledFrom([]string{"append", "prepend", "append-empty", "prepend-empty"}).Draw(t, l+"arg")
	case "ws":
		m.Arg = rapid.SampledFrom([]string{" ", "\n", "\t", "\r\n"}).Draw(t, l+"arg")
		m.N = rapid.IntRange(0, 2000).Draw(t, l+"n")
	case "json-flat":
		m.Arg = rapid.SampledFrom([]string{"plain", "hdr"}).Draw(t, l+"arg")
	case "json-2sig":
		m.Arg = rapid.SampledFrom([]string{"dup", "junk", "other"}).Draw(t, l+"arg")
		m.N = rapid.IntRange(0, 3).Draw(t, l+"n") // bit0: dotted header (token passes the three-part split), bit1: genuine signature second
	case "smuggle":
		m.Arg = rapid.SampledFrom([]string{"hdr-x", "hdr-x", "hdr-kid", "top", "general"}).Draw(t, l+"arg")
		// 0: evil payload of another length, 1: evil payload of the same length, 2: evil payload naming another client / user, 3: the genuine payload (benign)
		m.N = rapid.SampledFrom([]int{0, 0, 1, 1, 2, 3}).Draw(t, l+"n")
	}
	return m
}

func genFindKey(t *rapid.T, c Case) Case {
	c.Algs = nil
	c.Keys = genKeySet(t, "ks", allAlgs, false, 4)
	fk := &FindKeySpec{}
	fk.Alg = rapid.SampledFrom(append(append([]string{}, allAlgs...), "RS256", "ES256", "HS256", "none", "")).Draw(t, "fkalg")
	kids := []string{"", "", "nope", "k", "k11", "k1"}
	for _, e := range c.Keys {
		kids = append(kids, e.KID, e.KID)
		if len(e.KID) > 1 {
			kids = append(kids, e.KID[:len(e.KID)-1])
		}
		kids = append(kids, e.KID+"1")
		// prefer an algorithm that fits at least one key
		if rapid.IntRange(0, 2).Draw(t, "fkfit") == 0 {
			fk.Alg = rapid.SampledFrom(vkit.AlgsOf(vkit.Key(e.Key))).Draw(t, "fkalg2")
		}
	}
	fk.KID = rapid.SampledFrom(kids).Draw(t, "fkkid")
	c.FK = fk
	return c
}

// ---- property -------------------------------------------------------------------

func manipNames(c Case) []string { return manipNamesOf(c.Tok) }

func manipNamesOf(tok TokSpec) []string {
	var out []string
	for _, m := range tok.Manips {
		n := m.Kind
		switch m.Kind {
		case "smuggle":
			n += ":" + m.Arg + fmt.Sprintf(":%d", m.N)
		case "trunc", "b64-noncanon", "extra-seg", "json-2sig", "json-flat", "hs-pub", "strip-sig":
			n += ":" + m.Arg
		}
		out = append(out, n)
	}
	sort.Strings(out)
	return out
}

func keySetShape(keys []KeyEntry) string {
	var parts []string
	for _, e := range keys {
		kid := "kid"
		if e.KID == "" {
			kid = "nokid"
		}
		parts = append(parts, vkit.Key(e.Key).Kind+"/"+kid+"/"+e.Use)
	}
	return strings.Join(parts, ",")
}

var prop = vkit.Prop[Case]{
	ID: "C02",
	Rule: "cases = verifier kind (rp.VerifyIDToken with static and remote key set, op.VerifyAccessToken / VerifyIDTokenHint over op.OpenIDKeySet and over the verifiers of a provider built by op.NewProvider, id_token_hint and request object through the authorize endpoint and id_token_hint through the end_session endpoint of both routers, " +
		"op.VerifyJWTAssertion with per-client and published keys, op.ParseRequestObject, oidc.FindMatchingKey) x key set (0-4 keys, kid present/absent/duplicate/prefix-related, use sig/enc/empty, RSA/EC/Ed mixed) x allowed-alg list (default, explicit, misconfigured with HS*/none) " +
		"x genuinely signed token (trusted / other key same kid / wrong kid / no kid / embedded jwk) with 0-2 manipulations (unsigned, alg=none, HS with public key, header/payload/signature tampering, signature of another payload, re-encoding, truncation, extra segment, whitespace, JSON flattened/general, two signatures, dotted unprotected header smuggling an evil payload); " +
		"60% of the token cases continue with 1-3 further calls on the SAME verifier / key set / provider / storage instance: before a call the served key set may change (remove, add, replace key under the same kid, change kid / use, clear, restore; per-client kinds: the registration of either client), the token is freshly signed (against the set in force or an earlier one) or derived from the genuinely signed token of an earlier call (same signature bytes: replayed, or 1-2 manipulations); every call is judged against the key set in force at that call; 1/5 of the sequences are the scenario 'the signer of the first token is withdrawn (set emptied / entry removed / other key under its kid / use enc), 0-2 calls with tokens of an unseen key (unknown, absent or the same kid), then the genuine first token again' " +
		"(rp remote key set: rejection / acceptance demanded only if the set served now and the last two downloaded answers agree - its cache refresh is C13's subject). " +
		"provider kinds (prov-access, prov-hint, hint-http): the verification options of op.NewProvider are generated - none / WithAccessTokenKeySet / WithIDTokenHintKeySet / both (each custom set: 0-4 pool keys, disjoint from / overlapping with / equal to the set the storage publishes), WithSupportedAccessTokenSigningAlgorithms and WithSupportedIDTokenHintSigningAlgorithms each absent (library default) or a generated list, option order - and every verifier is judged against the key set and the algorithm list configured for IT (the storage's set / the default list when the option is absent), never the other verifier's; " +
		"3/4 of the tokens relate to the set in force for the verifier, 1/4 to another set the provider knows (storage set while a custom one is configured, the other verifier's set), 1/8 use an algorithm only the other verifier's list allows; in a sequence 1/3 of the further calls go to the OTHER verifier of the same provider and key-set changes hit the set in force for the verifier called (1/6 of the provider cases keep the fixed option set of vkit.Build); " +
		"time claims: fixed far time stamps (iat 2020, exp 2100) so that the signature decision is the only thing that can reject - except for 2/5 of the id_token_hints and 1/10 of the other tokens (request objects have none), which fail a time check by years (exp 2023, exp absent, iat 2096; op-hint also: verifier with MaxAgeIAT / MaxAge of one hour): crossed with every key relation and manipulation; op.VerifyIDTokenHint hands claims back with nil error OR with an IDTokenHintExpiredError (what the authorize and end_session endpoints believe) and both count as accepted for soundness and for claims = signed payload (acceptance of a token that fails a time check is never demanded); id_token_hint also through the end_session endpoint of both routers (believed = the subject whose session is ended); " +
		"request objects: half are ordinary (iss = client_id = requesting client), the others cross the requesting client (outer client_id: the client iss names / the other registered client / unknown) x iss (a registered client / unknown / absent) x client_id member (absent / empty / requester / other client / unknown) x signing key (iss's, the other client's, unregistered): the configured key set is what is registered for the REQUESTING client, acceptance is demanded only when iss = client_id = requester (the agreement rules themselves are C14's) and the claims of a refused object must not be copied; (no wall clock in any decision). labels count calls. non-trivial = >=1 manipulation or >=2 candidate keys or >=2 calls (findkey: >=2 keys); distinct = (kind, router, manipulation set, key-set shape, allowed list, token alg/kid relation, time claims, request-object shape, verdict, provider options (which key-set options, shapes of the custom sets, both algorithm lists, order); per further call: key-set change, source call, manipulation set, key-set shape, alg, verdict, verifier called)",
	Gen: genCase,
	Run: run,
}

func TestRapid(t *testing.T)  { prop.Check(t) }
func TestReplay(t *testing.T) { prop.Replay(t) }
