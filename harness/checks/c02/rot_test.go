package c02

// Key rotation under harness-owned interleavings (rp remote key set): the JWKS transport behind rp.NewRemoteKeySet is the
// harness's, so it can HOLD every download and decide when it is answered and with which key set - the one the OP
// published when the download STARTED or the one published when it is RELEASED. One case = ONE rp.IDTokenVerifier over ONE
// remote key set, a list of key sets the OP publishes one after the other (rotations: old key withdrawn and a new one
// published under another / the same / no kid, overlap periods, removals), and a schedule (data): verifications (tokens of
// the old key / the new key / no kid, genuine and forged, each with a payload mark of its own) that start while downloads
// are held, publications in between, releases of the held downloads in generated order, and - after everything was
// released - sequential verifications of tokens signed with keys that were withdrawn meanwhile.
//
// Techniques (as in the C13 check): the caller's context counts Done() evaluations (a caller that waits for a download
// evaluates it in the select of keysFromRemote); the library's verif hook (rp.VerifAfterInflightDone) reports on the
// download goroutine that the result of a download is in the cache and was handed to its waiters; a goroutine dump
// (runtime.Stack) tells whether a goroutine the library spawned has not reached the transport yet and whether a caller is
// parked in a select - so every event of the schedule is applied to a world at rest, and the schedule replays.
//
// Oracle (schedule-independent, from the statement "verifies under a key of the configured key set"): the configured key set
// of a remote key set is what the OP publishes, as far as the RP can know it. A verification V may be decided under
//   * a key set that was published at some time between V's start and V's return,
//   * the answer of a download that was under way at some time between V's start and V's return (V may have waited for it),
//   * the NEWEST key set (in the OP's order of publication) that any download completed before V started has delivered -
//     what a cache legitimately holds: the RP has seen that set, anything older has been superseded for it.
// must-reject = the per-token model (model.go) demands rejection under every one of these sets; must-accept = it demands
// acceptance under every one of them; everything else is grey. In particular a token signed with a key the OP withdrew is
// still allowed while the RP cannot know better (the download that is answered last started before the rotation), but not
// from the cache once a download that was completed earlier has delivered the rotated set. On the unchanged tree downloads
// never overlap, so their answers arrive in the OP's order of publication and the cache always holds the newest one.

import (
	"bytes"
	"fmt"
	"io"
	"net/http"
	"reflect"
	"runtime"
	"runtime/debug"
	"sort"
	"strconv"
	"strings"
	"sync"
	"testing"
	"time"

	"github.com/zitadel/oidc/v3/pkg/client/rp"
	"github.com/zitadel/oidc/v3/pkg/oidc"
	"pgregory.net/rapid"

	"verif/harness/vkit"
)

// ---- case ---------------------------------------------------------------------------

// RotEv is one event of the schedule.
type RotEv struct {
	Op  string `json:"op"`            // verify | publish | release | close | open
	Tok int    `json:"tok,omitempty"` // verify: index into Rot.Toks
	D   int    `json:"d,omitempty"`   // release: which of the downloads held now, in order of arrival (modulo their number; none held: nothing happens)
	At  string `json:"at,omitempty"`  // release / open: the answer is the key set published when the download "start"ed, else the one published at the release
	Rev bool   `json:"rev,omitempty"` // open: the downloads still held are released in reverse order of arrival
}

// RotTok is one token of the schedule: drawn against the key set Sets[Set] (how signer / kid relate to it is Tok.Relation).
type RotTok struct {
	Set int     `json:"set"`
	Tok TokSpec `json:"tok"`
}

// Rot: Sets[0] is published when the case starts, every "publish" event moves on to the next set. The endpoint answers at
// once until a "close" event; from then on every download that arrives is held until a "release" / "open" event.
type Rot struct {
	Sets   [][]KeyEntry `json:"sets"`
	Toks   []RotTok     `json:"toks"`
	Events []RotEv      `json:"events"`
}

const (
	maxRotSets   = 4
	maxRotToks   = 12
	maxRotEvents = 28
	maxRotDL     = 40
	rotDeadline  = 15 * time.Second
)

// ---- generator -----------------------------------------------------------------------

func freshKID(t *rapid.T, l string, used [][]KeyEntry) string {
	in := map[string]bool{}
	for _, s := range used {
		for _, e := range s {
			in[e.KID] = true
		}
	}
	var free []string
	for _, k := range []string{"k1", "k2", "k3", "k4", "k5", "k11", "k"} {
		if !in[k] {
			free = append(free, k)
		}
	}
	if len(free) == 0 {
		return "k9"
	}
	return rapid.SampledFrom(free).Draw(t, l)
}

// genRotNext: the key set the OP publishes next.
func genRotNext(t *rapid.T, l string, sets [][]KeyEntry, allowed []string) []KeyEntry {
	cur := sets[len(sets)-1]
	out := append([]KeyEntry{}, cur...)
	var all []KeyEntry
	for _, s := range sets {
		all = append(all, s...)
	}
	if len(out) == 0 {
		n := genKeySet(t, l+"add", allowed, false, 1)
		if len(n) == 0 {
			n = []KeyEntry{{Key: "rsa1", KID: "k1", Use: "sig"}}
		}
		return n
	}
	i := 0
	if rapid.IntRange(0, 2).Draw(t, l+"first") == 0 {
		i = rapid.IntRange(0, len(out)-1).Draw(t, l+"idx")
	}
	switch rapid.SampledFrom([]string{"rotate", "rotate", "rotate", "rotate", "rotate-same-kid", "rotate-nokid", "add-new", "remove", "mut", "restore"}).Draw(t, l+"op") {
	case "rotate": // the key is withdrawn, its successor is published under a kid of its own
		out[i] = KeyEntry{Key: otherKeyLike(out[i].Key, all), KID: freshKID(t, l+"kid", sets), Use: out[i].Use}
	case "rotate-same-kid":
		out[i].Key, out[i].Alg = otherKeyLike(out[i].Key, all), ""
	case "rotate-nokid":
		out[i] = KeyEntry{Key: otherKeyLike(out[i].Key, all), KID: "", Use: out[i].Use}
	case "add-new": // overlap period: the successor is published next to the key in use
		if len(out) < 4 {
			out = append(out, KeyEntry{Key: otherKeyLike(out[i].Key, all), KID: freshKID(t, l+"kid", sets), Use: "sig"})
		}
	case "remove":
		out = append(out[:i], out[i+1:]...)
	case "mut":
		_, out = genKeyMut(t, l+"m", cur, sets[0], allowed, false, cur[i].Key)
	case "restore":
		if len(sets) >= 2 {
			out = append([]KeyEntry{}, sets[len(sets)-2]...)
		} else {
			out = append(out[:i], out[i+1:]...)
		}
	}
	return out
}

// genRotTok draws a token against Sets[k].
func genRotTok(t *rapid.T, l string, c *Case, k int, allowed []string, trustedBias bool) RotTok {
	tmp := *c
	tmp.Rot, tmp.Tok, tmp.Keys = nil, TokSpec{}, c.Rot.Sets[k]
	genPublished(t, &tmp, allowed)
	tok := tmp.Tok
	if trustedBias && len(tmp.Keys) > 0 && tok.Relation != "trusted" && rapid.Bool().Draw(t, l+"trusted") {
		e := tmp.Keys[0]
		tok = TokSpec{Relation: "trusted", Key: e.Key, KID: e.KID, HasKID: e.KID != "", Alg: tok.Alg}
		if !vkit.AlgFitsKey(tok.Alg, vkit.Key(tok.Key)) {
			tok.Alg = vkit.AlgsOf(vkit.Key(tok.Key))[0]
			for _, a := range vkit.AlgsOf(vkit.Key(tok.Key)) {
				if contains(allowed, a) {
					tok.Alg = a
					break
				}
			}
		}
	}
	if rapid.IntRange(0, 19).Draw(t, l+"timed") == 0 {
		tok.Time = rapid.SampledFrom([]string{"expired", "iat-future"}).Draw(t, l+"time")
	}
	if rapid.IntRange(0, 6).Draw(t, l+"manip") == 0 {
		tmp.Tok = tok
		tok.Manips = []Manip{genManipOf(t, tmp, l+"m", rapid.SampledFrom(derivedManipKinds).Draw(t, l+"mkind"))}
	}
	return RotTok{Set: k, Tok: tok}
}

func genRot(t *rapid.T) Case {
	var c Case
	c.Kind = kRPRemote
	c.Algs = rapid.SampledFrom([][]string{nil, nil, nil, nil, {"RS256"}, {"ES256", "EdDSA"}, {"RS256", "ES256", "PS256", "EdDSA", "ES384", "ES512"}, {"PS256", "RS384"}}).Draw(t, "algs")
	c.SkipRemote = rapid.IntRange(0, 4).Draw(t, "skipremote") == 0
	allowed := allowedAlgs(c)
	r := &Rot{}
	c.Rot = r
	first := genKeySet(t, "ks", allowed, false, 3)
	if len(first) == 0 && rapid.IntRange(0, 3).Draw(t, "nonempty") > 0 {
		first = []KeyEntry{{Key: "rsa1", KID: "k1", Use: "sig"}}
	}
	r.Sets = [][]KeyEntry{first}
	nPub := rapid.SampledFrom([]int{1, 1, 1, 2, 2, 3}).Draw(t, "publishes")
	for i := 0; i < nPub; i++ {
		r.Sets = append(r.Sets, genRotNext(t, fmt.Sprintf("p%d", i), r.Sets, allowed))
	}
	c.Keys = r.Sets[0]

	ver := 0 // the set that is published at this point of the schedule (in generation order)
	addTok := func(l string, trusted bool) int {
		// mostly a token of the key set in force or of its neighbours (the rotation is what the case is about)
		k := ver
		switch rapid.IntRange(0, 9).Draw(t, l+"rel") {
		case 0, 1:
			k = ver - 1
		case 2:
			k = ver + 1
		case 3:
			k = rapid.IntRange(0, len(r.Sets)-1).Draw(t, l+"any")
		}
		if k < 0 {
			k = 0
		}
		if k >= len(r.Sets) {
			k = len(r.Sets) - 1
		}
		rt := genRotTok(t, l, &c, k, allowed, trusted)
		rt.Tok.Mark = fmt.Sprintf("r%d", len(r.Toks))
		r.Toks = append(r.Toks, rt)
		return len(r.Toks) - 1
	}
	at := func(l string) string { return rapid.SampledFrom([]string{"start", "start", "release"}).Draw(t, l) }

	// warm-up: the endpoint answers at once
	for i, n := 0, rapid.SampledFrom([]int{0, 0, 0, 1, 1, 2}).Draw(t, "warm"); i < n; i++ {
		r.Events = append(r.Events, RotEv{Op: "verify", Tok: addTok(fmt.Sprintf("w%d", i), true)})
	}
	// held phase
	r.Events = append(r.Events, RotEv{Op: "close"})
	nVer := rapid.SampledFrom([]int{2, 2, 2, 3, 3, 4}).Draw(t, "held")
	pubLeft := nPub
	if nPub > 1 && rapid.IntRange(0, 2).Draw(t, "latepub") == 0 {
		pubLeft = nPub - 1 // one publication is kept for the time after the held phase
	}
	late := nPub - pubLeft
	held := 0
	for step := 0; (nVer > 0 || pubLeft > 0) && step < 16; step++ {
		l := fmt.Sprintf("h%d", step)
		var ops []string
		if nVer > 0 {
			ops = append(ops, "verify", "verify", "verify")
		}
		if pubLeft > 0 && held > 0 {
			ops = append(ops, "publish", "publish", "publish")
		} else if pubLeft > 0 {
			ops = append(ops, "publish")
		}
		if held > 0 {
			ops = append(ops, "release")
		}
		switch rapid.SampledFrom(ops).Draw(t, l+"op") {
		case "verify":
			r.Events = append(r.Events, RotEv{Op: "verify", Tok: addTok(l, true)})
			nVer--
			held++ // (an upper bound: the call may be answered from the cache or join a download)
		case "publish":
			r.Events = append(r.Events, RotEv{Op: "publish"})
			pubLeft--
			ver++
		case "release":
			r.Events = append(r.Events, RotEv{Op: "release", D: rapid.IntRange(0, held-1).Draw(t, l+"d"), At: at(l + "at")})
			held--
		}
	}
	for i, n := 0, rapid.IntRange(0, 2).Draw(t, "releases"); i < n && held > 0; i++ {
		l := fmt.Sprintf("x%d", i)
		r.Events = append(r.Events, RotEv{Op: "release", D: rapid.IntRange(0, held-1).Draw(t, l+"d"), At: at(l + "at")})
		held--
	}
	r.Events = append(r.Events, RotEv{Op: "open", At: at("openat"), Rev: rapid.Bool().Draw(t, "openrev")})
	// afterwards: sequential verifications, half of them of a token seen before (or of its signer)
	for i, n := 0, rapid.SampledFrom([]int{1, 2, 2, 3, 3}).Draw(t, "after"); i < n; i++ {
		l := fmt.Sprintf("a%d", i)
		if late > 0 && rapid.Bool().Draw(t, l+"pub") {
			r.Events = append(r.Events, RotEv{Op: "publish"})
			late--
			ver++
		}
		if len(r.Toks) > 0 && rapid.IntRange(0, 2).Draw(t, l+"again") == 0 {
			r.Events = append(r.Events, RotEv{Op: "verify", Tok: rapid.IntRange(0, len(r.Toks)-1).Draw(t, l+"which")})
			continue
		}
		// a token of a key set that was withdrawn / of the one in force
		save := ver
		if ver > 0 && rapid.IntRange(0, 2).Draw(t, l+"old") > 0 {
			ver = rapid.IntRange(0, ver-1).Draw(t, l+"oldver")
		}
		ti := addTok(l, true)
		ver = save
		r.Events = append(r.Events, RotEv{Op: "verify", Tok: ti})
	}
	if len(r.Toks) > 0 {
		c.Tok = r.Toks[0].Tok // (mirror; the run does not use it)
	}
	return c
}

// ---- world ------------------------------------------------------------------------------

// rotGo: id of a goroutine that is inside the harness's JWKS transport or came back from it -> its download.
var rotGo sync.Map

// rotHookInstalled: the library was built with the verif tag and calls rotHook (rothook_test.go).
var rotHookInstalled bool

// rotHook is called by the library on the download goroutine right after the result of a finished download was stored in the
// cache and handed to its waiters.
func rotHook() {
	v, ok := rotGo.LoadAndDelete(goid())
	if !ok {
		return // not a download of a rotation case
	}
	d := v.(*rotDL)
	w := d.w
	w.mu.Lock()
	w.tick++
	d.done, d.tEnd = true, w.tick
	w.logf("download #%d is finished: its answer (key set %d) is in the cache and with its waiters", d.id, d.ansVer)
	w.note(fmt.Sprintf("d%d done(set %d)", d.id, d.ansVer))
	w.cond.Broadcast()
	w.mu.Unlock()
}

// goid: the id of the calling goroutine ("goroutine 123 [running]:" is the first line of its stack).
func goid() uint64 {
	var buf [64]byte
	n := runtime.Stack(buf[:], false)
	var id uint64
	for _, c := range buf[len("goroutine "):n] {
		if c < '0' || c > '9' {
			break
		}
		id = id*10 + uint64(c-'0')
	}
	return id
}

type goInfo struct {
	state string
	lib   bool // a frame of the rp package is on its stack (or it was created there)
}

var rotStackBuf = make([]byte, 256<<10)

// dumpGoroutines: every goroutine of the process with its scheduling state. (Cases run one after the other: one buffer.)
func dumpGoroutines() map[uint64]goInfo {
	var n int
	for {
		n = runtime.Stack(rotStackBuf, true)
		if n < len(rotStackBuf) {
			break
		}
		rotStackBuf = make([]byte, 2*len(rotStackBuf))
	}
	out := map[uint64]goInfo{}
	for _, blk := range strings.Split(string(rotStackBuf[:n]), "\n\n") {
		if !strings.HasPrefix(blk, "goroutine ") {
			continue
		}
		head := blk
		if i := strings.IndexByte(blk, '\n'); i >= 0 {
			head = blk[:i]
		}
		f := strings.SplitN(head[len("goroutine "):], " ", 2)
		id, err := strconv.ParseUint(f[0], 10, 64)
		if err != nil || len(f) < 2 {
			continue
		}
		out[id] = goInfo{state: strings.Trim(f[1], "[]:"), lib: strings.Contains(blk, "/pkg/client/rp.")}
	}
	return out
}

// rotProbe is the context of one verification; Done() evaluations are counted (the channel never closes).
type rotProbe struct {
	w     *rotWorld
	ch    chan struct{}
	calls int // guarded by w.mu
}

func (p *rotProbe) Deadline() (time.Time, bool) { return time.Time{}, false }
func (p *rotProbe) Err() error                  { return nil }
func (p *rotProbe) Value(any) any               { return nil }
func (p *rotProbe) Done() <-chan struct{} {
	p.w.mu.Lock()
	p.calls++
	p.w.cond.Broadcast()
	p.w.mu.Unlock()
	return p.ch
}

type rotDL struct {
	w        *rotWorld
	id       int
	gid      uint64
	verStart int // key set published when the request arrived
	ansVer   int // key set it is answered with (-1: not decided yet)
	tStart   int
	tEnd     int
	gate     chan struct{}
	released bool
	done     bool // the hook was passed: answer in the cache and with the waiters
}

type rotCall struct {
	idx      int
	phase    string // warm | held | after
	ev, tok  int
	gid      uint64
	probe    *rotProbe
	tStart   int
	tEnd     int
	verStart int
	verEnd   int
	returned bool
	held     bool // started while the endpoint was holding downloads
	dlBefore int  // downloads that had arrived when the call started
	out      outcome
	pan      []string
	vr       *vkit.Result
}

type rotWorld struct {
	mu     sync.Mutex
	cond   *sync.Cond
	ver    int
	bodies [][]byte
	closed bool
	dls    []*rotDL
	calls  []*rotCall
	tick   int
	flood  bool
	trace  []string
	brief  []string // the same events in a few characters each (violation messages are clipped by the driver)

	timedOut bool
	armSeq   int
}

func (w *rotWorld) note(s string) {
	if len(w.brief) < 80 {
		w.brief = append(w.brief, s)
	}
}

func (w *rotWorld) logf(format string, a ...any) {
	if len(w.trace) < 200 {
		w.trace = append(w.trace, fmt.Sprintf(format, a...))
	}
}

// await (w.mu held) blocks until pred holds (true) or nothing happened in the world for rotDeadline (false).
func (w *rotWorld) await(pred func() bool) bool {
	for !pred() {
		if w.timedOut {
			return false
		}
		w.armSeq++
		seq := w.armSeq
		tm := time.AfterFunc(rotDeadline, func() {
			w.mu.Lock()
			if w.armSeq == seq {
				w.timedOut = true
				w.cond.Broadcast()
			}
			w.mu.Unlock()
		})
		w.cond.Wait()
		tm.Stop()
	}
	return true
}

// quiesce (w.mu held) waits until the world is at rest: every call has returned or is parked in a select, every goroutine the
// library spawned is known to the transport and either waits there for its release or has passed the hook, and no released
// download is still on its way. Nothing is decided by the waiting; a world that does not come to rest is reported.
func (w *rotWorld) quiesce() bool {
	limit := time.Now().Add(rotDeadline)
	for i := 0; ; i++ {
		ok := !w.timedOut
		for _, d := range w.dls {
			if d.released && !d.done {
				ok = false
			}
		}
		if ok {
			w.mu.Unlock()
			gs := dumpGoroutines()
			w.mu.Lock()
			callers := map[uint64]bool{}
			for _, cl := range w.calls {
				callers[cl.gid] = true
				if cl.returned {
					continue
				}
				if g, found := gs[cl.gid]; cl.gid == 0 || !found || !strings.HasPrefix(g.state, "select") {
					ok = false
				}
			}
			byGid := map[uint64]*rotDL{}
			for _, d := range w.dls {
				byGid[d.gid] = d
			}
			for id, g := range gs {
				if !g.lib || callers[id] {
					continue
				}
				d := byGid[id]
				if d == nil || (d.released && !d.done) {
					ok = false // spawned by the library and not at the endpoint yet / on its way back
				}
			}
		}
		if ok {
			return true
		}
		if w.timedOut || time.Now().After(limit) {
			w.timedOut = true
			return false
		}
		w.mu.Unlock()
		if i < 10 {
			runtime.Gosched()
		} else {
			time.Sleep(time.Duration(min(i, 40)) * 50 * time.Microsecond)
		}
		w.mu.Lock()
	}
}

// gone waits until the download goroutines of the case have ended (no goroutine outlives the case).
func (w *rotWorld) gone() {
	mine := map[uint64]bool{}
	w.mu.Lock()
	for _, d := range w.dls {
		mine[d.gid] = true
	}
	w.mu.Unlock()
	for i := 0; i < 2000; i++ {
		alive := false
		for id := range dumpGoroutines() {
			alive = alive || mine[id]
		}
		if !alive {
			return
		}
		if i < 10 {
			runtime.Gosched()
		} else {
			time.Sleep(100 * time.Microsecond)
		}
	}
}

type rotTransport struct{ w *rotWorld }

func (t *rotTransport) RoundTrip(r *http.Request) (*http.Response, error) {
	w := t.w
	gid := goid()
	w.mu.Lock()
	w.tick++
	d := &rotDL{w: w, id: len(w.dls), gid: gid, verStart: w.ver, ansVer: -1, tStart: w.tick, gate: make(chan struct{})}
	if len(w.dls) >= maxRotDL {
		w.flood = true
	}
	flood := w.flood
	if !w.closed || flood {
		d.ansVer, d.released = w.ver, true
		close(d.gate)
	}
	w.dls = append(w.dls, d)
	rotGo.Store(gid, d)
	held := 0
	for _, x := range w.dls {
		if !x.released {
			held++
		}
	}
	w.logf("download #%d arrives at the endpoint (key set %d is published; held now: %d)", d.id, w.ver, held)
	w.note(fmt.Sprintf("d%d starts", d.id))
	w.cond.Broadcast()
	w.mu.Unlock()
	<-d.gate
	w.mu.Lock()
	body := w.bodies[d.ansVer]
	w.mu.Unlock()
	return &http.Response{
		StatusCode: 200, Status: "200 OK", Proto: "HTTP/1.1", ProtoMajor: 1, ProtoMinor: 1,
		Header: http.Header{"Content-Type": {"application/json"}}, Body: io.NopCloser(bytes.NewReader(body)),
		ContentLength: int64(len(body)), Request: r,
	}, nil
}

// ---- run ----------------------------------------------------------------------------------

func validRot(c Case) string {
	r := c.Rot
	if c.Kind != kRPRemote {
		return "rotation schedule on another kind than rp-remote"
	}
	if len(c.Seq) > 0 || c.Raw != nil || c.Conc != nil {
		return "rotation case with sequence / raw token / workers"
	}
	if len(r.Sets) < 1 || len(r.Sets) > maxRotSets || len(r.Toks) > maxRotToks || len(r.Events) > maxRotEvents {
		return "rotation case out of range"
	}
	for _, s := range r.Sets {
		if len(s) > 6 {
			return "key set too large"
		}
		for _, e := range s {
			if !knownKey(e.Key) {
				return "unknown pool key"
			}
		}
	}
	marks := map[string]bool{}
	for _, rt := range r.Toks {
		if rt.Set < 0 || rt.Set >= len(r.Sets) {
			return "token of an unknown key set"
		}
		if rt.Tok.Mark == "" || !validMark(rt.Tok.Mark) || marks[rt.Tok.Mark] {
			return "payload marks must be present and distinct"
		}
		marks[rt.Tok.Mark] = true
		tmp := c
		tmp.Rot, tmp.Tok, tmp.Keys = nil, rt.Tok, r.Sets[rt.Set]
		if why := validCase(tmp); why != "" {
			return why
		}
	}
	for _, e := range r.Events {
		switch e.Op {
		case "verify":
			if e.Tok < 0 || e.Tok >= len(r.Toks) {
				return "verify event without token"
			}
		case "release":
			if e.D < 0 {
				return "release of a negative index"
			}
		case "publish", "close", "open":
		default:
			return "unknown event"
		}
		if e.At != "" && e.At != "start" && e.At != "release" {
			return "unknown answer mode"
		}
	}
	return ""
}

func clipN(s string, n int) string {
	if len(s) > n {
		return s[:n-3] + "..."
	}
	return s
}

func rotTokText(t TokSpec) string {
	s := fmt.Sprintf("%s by %s kid=%q", t.Alg, t.Key, t.KID)
	if !t.HasKID {
		s = fmt.Sprintf("%s by %s no kid", t.Alg, t.Key)
	}
	if len(t.Manips) > 0 {
		s += fmt.Sprintf(" %v", manipNamesOf(t))
	}
	if t.Time != "" {
		s += " time:" + t.Time
	}
	return s
}

func runRot(c Case) (res *vkit.Result) {
	res = &vkit.Result{}
	if why := validRot(c); why != "" {
		res.Grey = true
		res.Label("invalid-case")
		res.Info = why
		return res
	}
	if !rotHookInstalled {
		panic("harness: the rotation sub-check needs the library's verif hook (build with -tags verif)")
	}
	r := c.Rot
	res.Label("rot", fmt.Sprintf("rot:sets=%d", len(r.Sets)))
	if c.SkipRemote {
		res.Label("rot:skip-remote-check")
	}

	// every token is built and modelled against every key set before the first event
	type tokRT struct {
		cc Case
		b  *built
		vs []verdict // per key set
	}
	toks := make([]*tokRT, len(r.Toks))
	for i, rt := range r.Toks {
		cc := c
		cc.Rot, cc.Tok, cc.Keys = nil, rt.Tok, r.Sets[rt.Set]
		b, err := buildToken(cc)
		if err != nil {
			res.Grey = true
			res.Label("invalid-case")
			res.Info = err.Error()
			return res
		}
		tr := &tokRT{cc: cc, b: b}
		for _, s := range r.Sets {
			mc := cc
			mc.Keys = s
			tr.vs = append(tr.vs, model(mc, b))
		}
		toks[i] = tr
	}

	w := &rotWorld{}
	w.cond = sync.NewCond(&w.mu)
	for _, s := range r.Sets {
		tmp := &jwksTransport{}
		tmp.set(s)
		w.bodies = append(w.bodies, tmp.body)
	}
	hc := &http.Client{Transport: &rotTransport{w: w}}
	var ks oidc.KeySet
	if c.SkipRemote {
		ks = rp.NewRemoteKeySet(hc, issuer+"/keys", rp.SkipRemoteCheck())
	} else {
		ks = rp.NewRemoteKeySet(hc, issuer+"/keys")
	}
	var opts []rp.VerifierOption
	if len(c.Algs) > 0 {
		opts = append(opts, rp.WithSupportedSigningAlgorithms(c.Algs...))
	}
	verifier := rp.NewIDTokenVerifier(issuer, rpClient, ks, opts...)

	stuck := func(stage string) {
		tr := w.trace
		if len(tr) > 40 {
			tr = tr[len(tr)-40:]
		}
		in := 0
		for _, cl := range w.calls {
			if !cl.returned {
				in++
			}
		}
		res.Fail("C02:rot:stuck", "rp remote key set: no progress within %v while waiting for %s (verifications that have not returned: %d, downloads: %d); trace:\n%s", rotDeadline, stage, in, len(w.dls), strings.Join(tr, "\n"))
		// let everything go
		for _, d := range w.dls {
			if !d.released {
				d.released, d.ansVer = true, w.ver
				close(d.gate)
			}
		}
	}
	heldNow := func() []*rotDL {
		var out []*rotDL
		for _, d := range w.dls {
			if !d.released {
				out = append(out, d)
			}
		}
		return out
	}
	maxHeld, pubWhileHeld, staleAnswers := 0, 0, 0
	release := func(d *rotDL, at string) bool {
		d.ansVer = w.ver
		if at == "start" {
			d.ansVer = d.verStart
		}
		if d.ansVer != w.ver {
			staleAnswers++
		}
		d.released = true
		w.logf("download #%d is released: answered with key set %d (published when it %s)", d.id, d.ansVer, map[bool]string{true: "started", false: "is released"}[at == "start"])
		close(d.gate)
		if !w.await(func() bool { return d.done }) {
			stuck(fmt.Sprintf("download #%d to finish", d.id))
			return false
		}
		if !w.quiesce() {
			stuck("the world to come to rest after a release")
			return false
		}
		return true
	}

	w.mu.Lock()
	alive, opened := true, false
	for ei, ev := range r.Events {
		if !alive {
			break
		}
		switch ev.Op {
		case "close":
			w.closed = true
			w.logf("the endpoint holds every download from now on")
			w.note("hold")
		case "publish":
			if w.ver+1 < len(r.Sets) {
				w.ver++
				if len(heldNow()) > 0 {
					pubWhileHeld++
				}
				w.logf("the OP publishes key set %d: %s (was: %s)", w.ver, keySetText(r.Sets[w.ver]), keySetText(r.Sets[w.ver-1]))
				w.note(fmt.Sprintf("publish set %d", w.ver))
			}
		case "release":
			if h := heldNow(); len(h) > 0 {
				alive = release(h[ev.D%len(h)], ev.At)
			}
		case "open":
			h := heldNow()
			if ev.Rev {
				for i, j := 0, len(h)-1; i < j; i, j = i+1, j-1 {
					h[i], h[j] = h[j], h[i]
				}
			}
			for _, d := range h {
				if alive {
					alive = release(d, ev.At)
				}
			}
			w.closed, opened = false, true
			w.logf("the endpoint answers at once from now on")
			w.note("no hold")
			if alive && !w.await(func() bool {
				for _, cl := range w.calls {
					if !cl.returned {
						return false
					}
				}
				return true
			}) {
				stuck("every verification to return after all downloads were answered")
				alive = false
			}
		case "verify":
			tr := toks[ev.Tok]
			w.tick++
			phase := "warm"
			switch {
			case w.closed:
				phase = "held"
			case opened:
				phase = "after"
			}
			cl := &rotCall{idx: len(w.calls), phase: phase, ev: ei, tok: ev.Tok, probe: &rotProbe{w: w, ch: make(chan struct{})}, tStart: w.tick, verStart: w.ver, held: w.closed, dlBefore: len(w.dls), vr: &vkit.Result{}}
			w.calls = append(w.calls, cl)
			w.logf("verification %d starts: %s (key set %d is published; held downloads: %d)", len(w.calls)-1, rotTokText(tr.cc.Tok), w.ver, len(heldNow()))
			w.note(fmt.Sprintf("v%d starts", cl.idx))
			go func() {
				gid := goid()
				w.mu.Lock()
				cl.gid = gid
				w.mu.Unlock()
				var o outcome
				func() {
					defer func() {
						if p := recover(); p != nil {
							stack := string(debug.Stack())
							cl.pan = []string{fmt.Sprint(p), vkit.FirstLibFrame(stack), stack}
							o = outcome{Err: "panic"}
						}
					}()
					claims, err := rp.VerifyIDToken[*oidc.IDTokenClaims](cl.probe, tr.b.Token, verifier)
					o = outcome{Accepted: err == nil, Err: errStr(err)}
					if err == nil {
						o.View = viewOfObj(kRPRemote, claims)
					} else if !isNil(claims) {
						cl.vr.Fail("C02:claims-with-error:"+kRPRemote, "claims returned together with error %v", err)
					}
				}()
				w.mu.Lock()
				w.tick++
				cl.tEnd, cl.verEnd, cl.out, cl.returned = w.tick, w.ver, o, true
				if o.Accepted {
					w.logf("verification %d returns: accepted", cl.idx)
					w.note(fmt.Sprintf("v%d accepted", cl.idx))
				} else {
					w.logf("verification %d returns: %s", cl.idx, o.Err)
					w.note(fmt.Sprintf("v%d refused", cl.idx))
				}
				w.cond.Broadcast()
				w.mu.Unlock()
			}()
			if !w.await(func() bool { return cl.returned || (cl.gid != 0 && cl.probe.calls > 0) }) {
				stuck("a verification to return or to wait for a download")
				alive = false
				break
			}
			if !w.quiesce() {
				stuck("the world to come to rest after a verification started")
				alive = false
				break
			}
			if !w.closed && !cl.returned {
				// nothing is held: the call has to come back
				if !w.await(func() bool { return cl.returned }) || !w.quiesce() {
					stuck("a verification to return while the endpoint answers at once")
					alive = false
				}
			}
		}
		if n := len(heldNow()); n > maxHeld {
			maxHeld = n
		}
	}
	if alive {
		// implicit end: everything is released, everybody returns
		for _, d := range heldNow() {
			if alive {
				alive = release(d, "release")
			}
		}
		if alive && !w.await(func() bool {
			for _, cl := range w.calls {
				if !cl.returned {
					return false
				}
			}
			return true
		}) {
			stuck("every verification to return at the end of the schedule")
			alive = false
		}
	}
	calls := append([]*rotCall{}, w.calls...)
	dls := append([]*rotDL{}, w.dls...)
	flood := w.flood
	trace := append([]string{}, w.trace...)
	brief := strings.Join(w.brief, ", ")
	w.mu.Unlock()
	if alive {
		w.gone()
	}
	if flood {
		res.Fail("C02:rot:download-flood", "rp remote key set started more than %d downloads in one schedule of %d verifications", maxRotDL, len(calls))
	}
	if !alive {
		res.Label("rot:stuck")
		return res
	}

	// ---- judge: every verification under the key sets it may legitimately have been decided under
	// the driver prints 600 characters of a message (fingerprint included): the schedule is appended as far as it fits, the
	// full trace is in the Info of the replayed case
	fit := func(fp, msg string) string {
		room := 570 - len(fp) - len(msg)
		if room < 30 {
			return msg
		}
		b := brief
		if len(b) > room {
			b = b[:room/2-3] + " ... " + b[len(b)-room/2+3:]
		}
		return msg + "; schedule: " + b
	}
	overlapDL := false
	for i, d := range dls {
		for _, e := range dls[:i] {
			if e.tEnd > d.tStart {
				overlapDL = true // (never on the unchanged tree: one download at a time)
			}
		}
	}
	var infos []map[string]any
	var cells []string
	allGrey := true
	asserted := 0
	for ci, cl := range calls {
		tr := toks[cl.tok]
		if len(cl.pan) > 0 {
			if cl.pan[1] == "unknown" || cl.pan[1] == "" {
				panic(fmt.Sprintf("harness: panic outside the library in verification %d: %s\n%s", ci, cl.pan[0], cl.pan[2]))
			}
			res.Fail("C02:panic@"+cl.pan[1], "rp-remote panicked in a rotation schedule: %s (verification %d: %s)", cl.pan[0], ci, rotTokText(tr.cc.Tok))
			continue
		}
		for _, v := range cl.vr.Viol {
			res.Viol = append(res.Viol, v)
		}
		may := map[int]string{}
		for v := cl.verStart; v <= cl.verEnd; v++ {
			may[v] = "published while it ran"
		}
		newest := -1
		for _, d := range dls {
			if d.tEnd < cl.tStart && d.ansVer > newest {
				newest = d.ansVer
			}
			if d.tStart <= cl.tEnd && d.tEnd >= cl.tStart {
				if _, ok := may[d.ansVer]; !ok {
					may[d.ansVer] = fmt.Sprintf("answer of d%d, under way while it ran", d.id)
				}
			}
		}
		if newest >= 0 {
			if _, ok := may[newest]; !ok {
				may[newest] = "newest set delivered by downloads completed before"
			}
		}
		var vers []int
		for v := range may {
			vers = append(vers, v)
		}
		sort.Ints(vers)
		// (the set published at the start first: its reasons are the ones reported)
		vs := []verdict{tr.vs[cl.verStart]}
		for _, v := range vers {
			if v != cl.verStart {
				vs = append(vs, tr.vs[v])
			}
		}
		v := vs[0]
		if len(vs) > 1 {
			v = combine(vs)
		}
		phase := cl.phase
		fetched := 0 // downloads under way at some time while the verification ran
		for _, d := range dls {
			if d.tStart <= cl.tEnd && d.tEnd >= cl.tStart {
				fetched++
			}
		}
		// was the signer trusted under an earlier key set and withdrawn since (the class the sub-check exists for)?
		withdrawn := false
		if len(tr.b.Reject) == 0 {
			for k := 0; k < cl.verStart; k++ {
				if len(tr.vs[k].Reject) == 0 && len(tr.vs[cl.verStart].Reject) > 0 {
					withdrawn = true
				}
			}
		}
		class := "grey"
		switch {
		case len(v.Reject) > 0:
			class = "must-reject"
			allGrey = false
			asserted++
		case len(v.Grey) == 0:
			class = "must-accept"
			allGrey = false
			asserted++
		}
		res.Label(class, "rot:"+phase+":"+class)
		if withdrawn {
			res.Label("rot:" + phase + ":token-of-withdrawn-key:" + class)
			if phase == "after" && fetched == 0 {
				res.Label("rot:after:token-of-withdrawn-key:decided-without-download:" + class)
			}
		}
		if len(vers) > 1 {
			res.Label("rot:several-key-sets-may-decide")
		}
		if cl.out.Accepted {
			res.Label("rot:accepted")
		} else {
			res.Label("rot:rejected")
		}
		for _, m := range tr.cc.Tok.Manips {
			res.Label("rot:manip:" + m.Kind)
		}
		var mayText []string
		for _, k := range vers {
			mayText = append(mayText, fmt.Sprintf("set %d %s (%s)", k, keySetText(r.Sets[k]), may[k]))
		}
		where := fmt.Sprintf(" [rotation schedule, v%d (%s phase): %s; may decide: %s; downloads under way while it ran: %d]", ci, phase, rotTokText(tr.cc.Tok), clipN(strings.Join(mayText, "; "), 200), fetched)
		want := viewOfJSON(kRPRemote, tr.b.SignedP)
		switch {
		case len(v.Reject) > 0 && cl.out.Accepted:
			fp := "C02:rot:sound:" + strings.Join(v.Reject, "+")
			if withdrawn && fetched == 0 {
				fp = "C02:rot:sound:withdrawn-key-accepted-from-cache-after-newer-set-was-seen"
			}
			res.Fail(fp, "%s", fit(fp, fmt.Sprintf("rp-remote accepted a token that must be rejected (%v) under every key set the verification may be decided under%s; believed mark %q", v.Reject, where, cl.out.View["mark"])))
		case len(v.Reject) == 0 && len(v.Grey) == 0 && !cl.out.Accepted:
			fp := "C02:rot:complete:" + v.AcceptClass
			res.Fail(fp, "%s", fit(fp, fmt.Sprintf("rp-remote rejected a genuine token that every key set the verification may be decided under trusts (%s): %s%s", v.AcceptClass, clipN(cl.out.Err, 90), where)))
		}
		if cl.out.Accepted && !reflect.DeepEqual(cl.out.View, want) {
			whose := "neither the signed nor an embedded payload"
			if tr.b.EvilP != nil && reflect.DeepEqual(cl.out.View, viewOfJSON(kRPRemote, tr.b.EvilP)) {
				whose = "the attacker's embedded payload"
			}
			for oi, o := range calls {
				if o.tok != cl.tok && reflect.DeepEqual(cl.out.View, viewOfJSON(kRPRemote, toks[o.tok].b.SignedP)) {
					whose = fmt.Sprintf("the payload of the token of verification %d", oi)
				}
			}
			res.Fail("C02:rot:claims-not-signed", "rp-remote handed back claims that are not the signed payload: got %v (%s), signed %v%s", cl.out.View, whose, want, where)
		}
		infos = append(infos, map[string]any{"verification": ci, "phase": phase, "token": rotTokText(tr.cc.Tok), "may": vers, "model": verdictClass(v), "outcome": cl.out})
		cells = append(cells, fmt.Sprintf("%s/%s/%s/%v/%v/%d/%s", phase, tr.cc.Tok.Relation, tr.cc.Tok.Alg, tr.cc.Tok.HasKID, manipNamesOf(tr.cc.Tok), len(vers), verdictClass(v)))
	}
	res.Label(fmt.Sprintf("rot:max-held-downloads=%d", maxHeld))
	if overlapDL {
		res.Label("rot:downloads-overlap")
	}
	if pubWhileHeld > 0 {
		res.Label("rot:published-while-a-download-is-held")
	}
	if staleAnswers > 0 {
		res.Label("rot:download-answered-with-a-set-withdrawn-meanwhile")
	}
	switch n := len(dls); {
	case n <= 2:
		res.Label(fmt.Sprintf("rot:downloads=%d", n))
	case n <= 5:
		res.Label("rot:downloads=3-5")
	default:
		res.Label("rot:downloads>5")
	}
	res.Grey = allGrey
	res.NonTrivial = len(calls) >= 2 && pubWhileHeld > 0 && asserted > 0
	var evs []string
	for _, e := range r.Events {
		s := e.Op
		if e.Op == "release" {
			s += fmt.Sprintf("%d%s", e.D, e.At)
		}
		if e.Op == "open" {
			s += fmt.Sprintf("%v%s", e.Rev, e.At)
		}
		evs = append(evs, s)
	}
	var shapes []string
	for _, s := range r.Sets {
		shapes = append(shapes, keySetShape(s))
	}
	res.Key = fmt.Sprintf("rot|%v|%v|%s|%s|%s", c.Algs, c.SkipRemote, strings.Join(shapes, ">"), strings.Join(evs, ","), strings.Join(cells, ";"))
	if len(trace) > 30 {
		trace = trace[:30]
	}
	res.Info = map[string]any{"verifications": infos, "downloads": len(dls), "trace": trace}
	return res
}

var propRot = vkit.Prop[Case]{
	ID: "C02",
	Rule: "rotation sub-check (rp remote key set): ONE rp.IDTokenVerifier over ONE rp.NewRemoteKeySet (allowed list default / explicit, 1/5 SkipRemoteCheck) whose JWKS transport is the harness's; the OP publishes 2-4 key sets one after the other (first: 0-3 generated keys; next: key withdrawn and successor published under a new / the same / no kid, successor added next to the key in use, key removed, generic change, previous set restored); " +
		"schedule as data: 0-2 warm-up verifications while the endpoint answers at once, then the endpoint HOLDS every download: 2-4 verifications start (token drawn against the set in force or a neighbouring one: trusted / no kid / other key same kid / wrong kid / embedded jwk ..., 1/7 manipulated, every token with its own payload mark), 1-3 publications and releases of held downloads in generated order in between (each released download is answered with the set published when it STARTED (2/3) or when it is RELEASED), " +
		"the rest is released in arrival or reverse order, then 1-3 sequential verifications (a token seen before, or one of a withdrawn / the current set), possibly after a late publication. Every event is applied to a world at rest (callers parked in the select of keysFromRemote or returned - Done() count and goroutine dump -, downloads at the transport or past the library's verif hook). " +
		"oracle: a verification may be decided under a set published while it ran, under the answer of a download under way while it ran, or under the NEWEST set (order of publication) delivered by downloads completed before it started; must-reject / must-accept only if the per-token model says so under all of these, claims = signed payload. " +
		"non-trivial = at least two verifications, a publication while a download was held and at least one verification with a demanded verdict; distinct = (allowed list, skip option, key-set shapes, events, per verification: phase, relation, alg, kid presence, manipulations, number of deciding sets, verdict)",
	Gen: genRot,
	Run: run,
}

func TestRotation(t *testing.T) {
	if !rotHookInstalled {
		t.Skip("needs the library's verif hook (build with -tags verif)")
	}
	propRot.Check(t)
}
