package c02

import (
	"bytes"
	"encoding/json"
	"fmt"
	"strings"

	"verif/harness/vkit"
)

const (
	issuer   = "https://op.example.com"
	rpClient = "rp-client"
	redirect = "https://rp.example.com/cb"
	expFar   = 4102444800 // 2100-01-01
	iatPast  = 1600000000 // 2020-09-13
	expPast  = 1700000000 // 2023-11-14 (TokSpec.Time "expired")
	iatFar   = 4000000000 // 2096-10-02 (TokSpec.Time "iat-future")
	qState   = "q-state"
	qNonce   = "q-nonce"
)

func js(s string) string {
	b, _ := json.Marshal(s)
	return string(b)
}

// payloadFor renders the claims of a token for the verifier kind with a fixed member order (bytes are deterministic).
// mark distinguishes the genuine payload from an attacker's; who is the client / user the payload names.
func payloadFor(c Case, who, mark string) []byte {
	var b strings.Builder
	kind := c.Kind
	sub := who
	if c.Tok.Sub != "" {
		sub = c.Tok.Sub
	}
	times := timeMembers(c)
	switch kind {
	case kRPStatic, kRPRemote:
		fmt.Fprintf(&b, `{"iss":%s,"sub":%s,"aud":[%s],%s,"mark":%s}`, js(issuer), js("user-"+mark), js(rpClient), times, js(mark))
	case kOPAccess, kProvAcc:
		fmt.Fprintf(&b, `{"iss":%s,"sub":%s,"aud":["api"],%s,"jti":%s,"mark":%s}`, js(issuer), js("user-"+mark), times, js("tok-"+mark), js(mark))
	case kOPHint, kHintHTTP, kHintEnd, kProvHint:
		fmt.Fprintf(&b, `{"iss":%s,"sub":%s,"aud":["c1"],%s,"mark":%s}`, js(issuer), js("user-"+mark), times, js(mark))
	case kAssert, kAssertKS:
		fmt.Fprintf(&b, `{"iss":%s,"sub":%s,"aud":[%s],%s,"mark":%s}`, js(who), js(sub), js(issuer), times, js(mark))
	case kReqObj, kReqHTTP:
		// iss / client_id members as the case names them (ordinary object: both = who)
		b.WriteString("{")
		if who != "absent" {
			fmt.Fprintf(&b, `"iss":%s,`, js(who))
		}
		if cid, ok := cidMember(c.Tok, who); ok {
			fmt.Fprintf(&b, `"client_id":%s,`, js(cid))
		}
		fmt.Fprintf(&b, `"aud":[%s],"response_type":"code","redirect_uri":%s,"scope":"openid","state":%s,"nonce":%s,"mark":%s}`,
			js(issuer), js(redirect), js("st-"+mark), js("n-"+mark), js(mark))
	}
	return []byte(b.String())
}

// timeMembers renders the time claims of the case's token (fixed values, years away from any clock reading).
func timeMembers(c Case) string {
	exp, iat := int64(expFar), int64(iatPast)
	switch c.Tok.Time {
	case "expired":
		exp = expPast
	case "iat-future":
		iat = iatFar
	}
	s := fmt.Sprintf(`"exp":%d,"iat":%d`, exp, iat)
	if c.Tok.Time == "exp-missing" {
		s = fmt.Sprintf(`"iat":%d`, iat)
	}
	if c.Kind == kOPHint && c.Stale == "auth" {
		s += fmt.Sprintf(`,"auth_time":%d`, iatPast)
	}
	return s
}

// believed-claims view: the members by which "whose payload was believed" is recognised, per kind
func viewKeys(kind string) []string {
	switch kind {
	case kOPAccess, kProvAcc:
		return []string{"iss", "sub", "jti", "mark"}
	case kHintHTTP, kHintEnd:
		return []string{"sub"}
	case kReqObj, kReqHTTP:
		return []string{"state", "nonce"}
	}
	return []string{"iss", "sub", "mark"}
}

func viewOfJSON(kind string, raw []byte) map[string]string {
	var m map[string]any
	if json.Unmarshal(raw, &m) != nil {
		return nil
	}
	out := map[string]string{}
	for _, k := range viewKeys(kind) {
		if s, ok := m[k].(string); ok {
			out[k] = s
		}
	}
	return out
}

func headerJSON(alg string, hasKID bool, kid string, jwk []byte) []byte {
	var b strings.Builder
	fmt.Fprintf(&b, `{"alg":%s,"typ":"JWT"`, js(alg))
	if hasKID {
		fmt.Fprintf(&b, `,"kid":%s`, js(kid))
	}
	if jwk != nil {
		fmt.Fprintf(&b, `,"jwk":%s`, jwk)
	}
	b.WriteString("}")
	return []byte(b.String())
}

// built is the serialized token plus what the oracle needs to know about how it was made.
type built struct {
	Token    string
	SignedP  []byte   // payload bytes the genuine signature covers
	EvilP    []byte   // attacker payload embedded by a smuggle manipulation (nil: none)
	Reject   []string // manipulations after which the statement demands rejection
	Grey     []string // manipulations after which acceptance is allowed but not demanded
	Form     string   // compact | json-flat | json-general | json-2sig | smuggle:<pos>
	SplitsTo int      // number of dot-separated parts of the final string
	EffKID   string   // key ID the final token presents (protected header, else unprotected)
	HasEffKID bool
	Genuine  vkit.Token // the genuinely signed token before any manipulation (later calls of a sequence derive from it)
}

func who(c Case) string {
	if perClient(c.Kind) {
		if c.Tok.Iss == "" {
			return "c1"
		}
		return c.Tok.Iss
	}
	if c.Kind == kAssertKS {
		return "svc-client"
	}
	return ""
}

func otherWho(w string) string {
	if w == "c1" {
		return "c2"
	}
	return "c1"
}

// markOf: the mark of the genuine payload ("genuine"; the concurrent sub-check gives every token a mark of its own).
func markOf(c Case) string {
	if c.Tok.Mark != "" {
		return c.Tok.Mark
	}
	return "genuine"
}

// validMark: lower-case letters and digits with at least one letter (so that the upper-case form differs), never a mark
// the attacker payloads use.
func validMark(m string) bool {
	if m == "" {
		return true
	}
	if len(m) > 16 || m == "evil" || m == "admin" || m == "sigsrc" || m == "genuine" {
		return false
	}
	letter := false
	for _, r := range m {
		switch {
		case r >= 'a' && r <= 'z':
			letter = true
		case r >= '0' && r <= '9':
		default:
			return false
		}
	}
	return letter
}

// evilPayload is the payload an attacker wants believed: the genuine one with another mark (and with another principal).
func evilPayload(c Case, variant int) []byte {
	switch variant {
	case 1:
		return payloadFor(c, who(c), strings.ToUpper(markOf(c))) // same length as the genuine payload
	case 2:
		if perClient(c.Kind) {
			return payloadFor(c, otherWho(who(c)), "evil")
		}
		return payloadFor(c, who(c), "admin")
	case 3:
		return payloadFor(c, who(c), markOf(c)) // byte-identical: benign
	}
	return payloadFor(c, who(c), "evil")
}

func reencode(p []byte, n int) []byte {
	if len(p) < 2 {
		return p
	}
	switch n % 4 {
	case 0:
		return append([]byte("{ "), p[1:]...)
	case 1:
		return append(append([]byte{}, p...), '\n')
	case 2:
		var m map[string]any
		d := json.NewDecoder(bytes.NewReader(p))
		d.UseNumber()
		if d.Decode(&m) == nil {
			if b, err := json.Marshal(m); err == nil { // sorted member order
				return b
			}
		}
		return p
	}
	return bytes.Replace(p, []byte(`":`), []byte(`": `), 1)
}

func flipBit(sigB64 string, n int) string {
	raw, err := vkit.UnB64(sigB64)
	if err != nil || len(raw) == 0 {
		return sigB64
	}
	i := n % (len(raw) * 8)
	raw[i/8] ^= 1 << (i % 8)
	return vkit.B64(raw)
}

const b64alpha = "ABCDEFGHIJKLMNOPQRSTUVWXYZabcdefghijklmnopqrstuvwxyz0123456789-_"

// nonCanonical changes the unused trailing bits of the last base64 character (decoded bytes stay the same).
func nonCanonical(seg string) string {
	r := len(seg) % 4
	if r != 2 && r != 3 {
		return seg
	}
	i := strings.IndexByte(b64alpha, seg[len(seg)-1])
	if i < 0 {
		return seg
	}
	return seg[:len(seg)-1] + string(b64alpha[i|1])
}

func cut(s string, n int) string {
	if n >= len(s) {
		return ""
	}
	return s[:len(s)-n]
}

// buildToken signs the genuine token and applies the manipulations.
func buildToken(c Case) (*built, error) { return buildTokenFrom(c, nil) }

// sameSigning: two token specs describe the same genuinely signed token (header and payload bytes agree)
func sameSigning(a, b TokSpec) bool {
	return a.Alg == b.Alg && a.Key == b.Key && a.KID == b.KID && a.HasKID == b.HasKID && a.Iss == b.Iss && a.Sub == b.Sub && a.EmbedJWK == b.EmbedJWK &&
		a.Time == b.Time && a.CID == b.CID && a.Mark == b.Mark
}

// buildTokenFrom: as buildToken; if base is given it is the genuinely signed token of an earlier call of the same case
// (same header and payload bytes) and its signature is reused instead of signing again (randomised algorithms would
// otherwise yield another signature), so that the manipulations are derived from a token the verifier has seen.
func buildTokenFrom(c Case, base *vkit.Token) (*built, error) {
	signer := vkit.Key(c.Tok.Key)
	p0 := payloadFor(c, who(c), markOf(c))
	var jwk []byte
	if c.Tok.EmbedJWK {
		j := signer.JWK(c.Tok.KID, "sig", c.Tok.Alg)
		jwk, _ = j.MarshalJSON()
	}
	h0 := headerJSON(c.Tok.Alg, c.Tok.HasKID, c.Tok.KID, jwk)
	t := vkit.Token{Header: vkit.B64(h0), Payload: vkit.B64(p0)}
	if base != nil && base.Header == t.Header && base.Payload == t.Payload && base.Sig != "" {
		t.Sig = base.Sig
	} else {
		sig, err := vkit.SignRaw(c.Tok.Alg, signer, t.SigningInput())
		if err != nil {
			return nil, err
		}
		t.Sig = vkit.B64(sig)
	}
	b := &built{SignedP: p0, Form: "compact", EffKID: c.Tok.KID, HasEffKID: c.Tok.HasKID, Genuine: t}
	if !c.Tok.HasKID {
		b.EffKID = ""
	}
	if c.Raw != nil {
		r := strings.NewReplacer("$H", t.Header, "$P", t.Payload, "$S", t.Sig, "$E", vkit.B64(evilPayload(c, 0)))
		b.Token = r.Replace(string(c.Raw))
		b.Form = "raw"
		b.SplitsTo = strings.Count(b.Token, ".") + 1
		return b, nil
	}
	// tampering reasons are kept per segment and only count if the final segment really differs from the signed one
	// (two manipulations may cancel each other, e.g. an algorithm swapped forth and back)
	segReason := map[string][]string{}
	rej := func(s string) { b.Reject = append(b.Reject, s) }
	rejSeg := func(seg, s string) { segReason[seg] = append(segReason[seg], s) }
	gry := func(s string) { b.Grey = append(b.Grey, s) }
	orig := t
	twoSegments := false
	var form Manip
	var post []Manip
	setHeader := func(alg string, hasKID bool, kid string) bool {
		nh := vkit.B64(headerJSON(alg, hasKID, kid, jwk))
		changed := nh != t.Header
		t.Header = nh
		return changed
	}
	curAlg, curHasKID, curKID := c.Tok.Alg, c.Tok.HasKID, c.Tok.KID
	for _, m := range c.Tok.Manips {
		switch m.Kind {
		case "strip-sig":
			t.Sig = ""
			twoSegments = m.Arg == "two-segments"
			rej("unsigned")
		case "alg-none":
			curAlg = m.Arg
			setHeader(curAlg, curHasKID, curKID)
			t.Sig = ""
			rej("alg-none")
		case "hs-pub":
			// HMAC keyed with a public key of the key set (the trusted key an attacker knows)
			target := signer
			if len(c.Keys) > 0 {
				target = vkit.Key(c.Keys[0].Key)
				curHasKID, curKID = c.Keys[0].KID != "", c.Keys[0].KID
			}
			ser := vkit.PublicKeyBytes(target)
			secret, ok := ser[m.Arg]
			if !ok {
				secret = ser["der"]
			}
			curAlg = []string{"HS256", "HS384", "HS512"}[m.N%3]
			setHeader(curAlg, curHasKID, curKID)
			t.Sig = vkit.B64(vkit.HMACSig(curAlg, secret, t.SigningInput()))
			b.EffKID, b.HasEffKID = curKID, curHasKID
			rej("hs-pub-key")
		case "alg-swap":
			curAlg = m.Arg
			setHeader(curAlg, curHasKID, curKID)
			rejSeg("h", "header-tampered")
		case "kid-edit":
			curHasKID, curKID = true, m.Arg
			setHeader(curAlg, curHasKID, curKID)
			rejSeg("h", "header-tampered")
			b.EffKID, b.HasEffKID = curKID, true
		case "payload-reencode":
			cur, _ := vkit.UnB64(t.Payload)
			np := reencode(cur, m.N)
			t.Payload = vkit.B64(np)
			rejSeg("p", "payload-reencoded")
		case "payload-edit":
			t.Payload = vkit.B64(evilPayload(c, 1-m.N%2))
			rejSeg("p", "payload-tampered")
		case "sig-flip":
			t.Sig = flipBit(t.Sig, m.N)
			rejSeg("s", "sig-tampered")
		case "sig-other":
			// the same key's genuine signature over ANOTHER payload (same header): a real signature, but not of this payload
			// (a payload no other manipulation can put into the payload segment, so the result never is a genuine token)
			o := vkit.Token{Header: t.Header, Payload: vkit.B64(payloadFor(c, who(c), "sigsrc"))}
			if s2, err := vkit.SignRaw(c.Tok.Alg, signer, o.SigningInput()); err == nil && len(s2) > 0 {
				t.Sig = vkit.B64(s2)
			} else {
				t.Sig = flipBit(t.Sig, 7)
			}
			rejSeg("s", "sig-of-other-payload")
		case "trunc":
			n := m.N
			if n < 1 {
				n = 1
			}
			var seg *string
			switch m.Arg {
			case "h":
				seg = &t.Header
			case "p":
				seg = &t.Payload
			default:
				seg = &t.Sig
			}
			*seg = cut(*seg, n)
			name := "s"
			if m.Arg == "h" || m.Arg == "p" {
				name = m.Arg
			}
			rejSeg(name, "truncated")
		case "b64-noncanon":
			var seg *string
			switch m.Arg {
			case "h":
				seg = &t.Header
			case "p":
				seg = &t.Payload
			default:
				seg = &t.Sig
			}
			if ns := nonCanonical(*seg); ns != *seg {
				*seg = ns
				gry("b64-noncanonical")
			}
		case "json-flat", "json-general", "json-2sig", "smuggle":
			form = m
		case "extra-seg", "ws":
			post = append(post, m)
		}
	}
	for _, sg := range []struct{ name, was, is string }{{"h", orig.Header, t.Header}, {"p", orig.Payload, t.Payload}, {"s", orig.Sig, t.Sig}} {
		wb, _ := vkit.UnB64(sg.was)
		ib, err := vkit.UnB64(sg.is)
		if err == nil && bytes.Equal(wb, ib) {
			continue // segment carries the signed bytes: manipulations of it cancelled out
		}
		if len(segReason[sg.name]) == 0 {
			segReason[sg.name] = []string{"segment-" + sg.name + "-changed"}
		}
		b.Reject = append(b.Reject, segReason[sg.name]...)
	}
	// serialisation
	switch form.Kind {
	case "json-flat":
		if form.Arg == "hdr" {
			b.Token = vkit.JSONFlattened(t, map[string]any{"x": "y"})
		} else {
			b.Token = vkit.JSONFlattened(t, nil)
		}
		b.Form = "json-flat"
		gry("json-form")
	case "json-general":
		b.Token = vkit.JSONGeneral(t.Payload, []vkit.Token{t}, nil)
		b.Form = "json-general"
		gry("json-form")
	case "json-2sig":
		second := t
		switch form.Arg {
		case "junk":
			second.Sig = "AAAA"
		case "other":
			ok := vkit.Key(otherKeyLike(c.Tok.Key, nil))
			alg := vkit.AlgsOf(ok)[0]
			second.Header = vkit.B64(headerJSON(alg, true, "other", nil))
			s2, err := vkit.SignRaw(alg, ok, second.SigningInput())
			if err != nil {
				return nil, err
			}
			second.Sig = vkit.B64(s2)
		}
		first, sec := t, second
		if form.N&2 != 0 {
			first, sec = second, t
		}
		hdr := ""
		if form.N&1 != 0 {
			hdr = `,"header":{"x":".` + t.Payload + `."}` // dotted, so that the three-part split sees the genuine payload
		}
		b.Token = `{"payload":"` + t.Payload + `","signatures":[{"protected":"` + first.Header + `","signature":"` + first.Sig + `"` + hdr + `},{"protected":"` + sec.Header + `","signature":"` + sec.Sig + `"}]}`
		b.Form = "json-2sig"
		rej("multi-sig")
	case "smuggle":
		evil := evilPayload(c, form.N)
		e := vkit.B64(evil)
		switch form.Arg {
		case "hdr-kid":
			b.Token = `{"payload":"` + t.Payload + `","protected":"` + t.Header + `","signature":"` + t.Sig + `","header":{"kid":".` + e + `."}}`
			// go-jose merges the unprotected header into the protected one member by member; a protected "kid" that is
			// absent or the empty string leaves the unprotected value in force
			if !b.HasEffKID || b.EffKID == "" {
				b.EffKID, b.HasEffKID = "."+e+".", true
			}
		case "top":
			b.Token = `{"zz":".` + e + `.","payload":"` + t.Payload + `","protected":"` + t.Header + `","signature":"` + t.Sig + `"}`
		case "general":
			b.Token = `{"payload":"` + t.Payload + `","signatures":[{"protected":"` + t.Header + `","signature":"` + t.Sig + `","header":{"x":".` + e + `."}}]}`
		default:
			b.Token = `{"payload":"` + t.Payload + `","protected":"` + t.Header + `","signature":"` + t.Sig + `","header":{"x":".` + e + `."}}`
		}
		b.Form = "smuggle:" + form.Arg
		cur, _ := vkit.UnB64(t.Payload)
		if bytes.Equal(evil, cur) {
			gry("json-dotted-benign")
		} else {
			b.EvilP = evil
			rej("smuggled-payload")
		}
	default:
		if twoSegments {
			b.Token = t.Header + "." + t.Payload
		} else {
			b.Token = t.Compact()
		}
	}
	for _, m := range post {
		switch m.Kind {
		case "extra-seg":
			switch m.Arg {
			case "append":
				b.Token += ".AAAA"
			case "prepend":
				b.Token = "AAAA." + b.Token
			case "append-empty":
				b.Token += "."
			default:
				b.Token = "." + b.Token
			}
			rej("extra-segment")
		case "ws":
			i := m.N % (len(b.Token) + 1)
			b.Token = b.Token[:i] + m.Arg + b.Token[i:]
			gry("whitespace")
		}
	}
	b.SplitsTo = strings.Count(b.Token, ".") + 1
	return b, nil
}
