package c02

import (
	"bytes"
	"context"
	"encoding/json"
	"errors"
	"fmt"
	"io"
	"net/http"
	"net/url"
	"reflect"
	"runtime/debug"
	"strings"

	jose "github.com/go-jose/go-jose/v4"
	"github.com/zitadel/oidc/v3/pkg/client/rp"
	"github.com/zitadel/oidc/v3/pkg/oidc"
	"github.com/zitadel/oidc/v3/pkg/op"

	"verif/harness/vkit"
)

// ---- key sets -------------------------------------------------------------------

func jwks(keys []KeyEntry) []jose.JSONWebKey {
	out := make([]jose.JSONWebKey, 0, len(keys))
	for _, e := range keys {
		out = append(out, vkit.Key(e.Key).JWK(e.KID, e.Use, e.Alg))
	}
	return out
}

// staticKeySet is what an application with a fixed key list writes: select with oidc.FindMatchingKey, verify with go-jose.
type staticKeySet struct {
	keys  []jose.JSONWebKey
	multi bool // verify with VerifyMulti: "exactly one signature" is then enforced by the library's CheckSignature alone
}

func (s *staticKeySet) VerifySignature(ctx context.Context, jws *jose.JSONWebSignature) ([]byte, error) {
	kid, alg := oidc.GetKeyIDAndAlg(jws)
	key, err := oidc.FindMatchingKey(kid, oidc.KeyUseSignature, alg, s.keys...)
	if err != nil {
		return nil, err
	}
	if s.multi {
		_, _, payload, err := jws.VerifyMulti(&key)
		return payload, err
	}
	return jws.Verify(&key)
}

// jwksTransport answers every request with the JWKS document, in process.
type jwksTransport struct {
	body []byte
	n    int
}

func (t *jwksTransport) RoundTrip(r *http.Request) (*http.Response, error) {
	t.n++
	return &http.Response{
		StatusCode: 200, Status: "200 OK", Proto: "HTTP/1.1", ProtoMajor: 1, ProtoMinor: 1,
		Header: http.Header{"Content-Type": {"application/json"}}, Body: io.NopCloser(bytes.NewReader(t.body)),
		ContentLength: int64(len(t.body)), Request: r,
	}, nil
}

func newStore(c Case) *vkit.Store {
	mk := func(id string, keys []KeyEntry) *vkit.ClientSpec {
		return &vkit.ClientSpec{ID: id, Secret: "secret-" + id, AppType: "web", AuthMethod: "client_secret_basic",
			GrantTypes: []string{vkit.GCode, vkit.GBearer}, ResponseTypes: []string{"code"}, RedirectURIs: []string{redirect}, Keys: entryMap(keys)}
	}
	var c1keys, c2keys []KeyEntry
	if perClient(c.Kind) {
		c1keys, c2keys = c.Keys, c.Keys2
	}
	alg := hintAlg(c)
	signer := "rsa1"
	for _, kn := range vkit.KeyNames {
		if vkit.AlgFitsKey(alg, vkit.Key(kn)) {
			signer = kn
			break
		}
	}
	st := vkit.NewStore([]*vkit.ClientSpec{mk("c1", c1keys), mk("c2", c2keys)}, vkit.SignKeySpec{KeyName: signer, Alg: alg, KID: "op-signing-key"}, vkit.StorePolicy{})
	if !perClient(c.Kind) {
		st.PubKeys = nil
		for _, e := range c.Keys {
			st.PubKeys = append(st.PubKeys, vkit.PubKeySpec{KeyName: e.Key, Alg: e.Alg, KID: e.KID, Use: e.Use})
		}
	}
	return st
}

// ---- execution ------------------------------------------------------------------

// outcome of one verification call
type outcome struct {
	Accepted bool              `json:"accepted"`
	View     map[string]string `json:"believed,omitempty"`
	Err      string            `json:"err,omitempty"`
	Note     string            `json:"note,omitempty"`
}

func viewOfObj(kind string, obj any) map[string]string {
	b, err := json.Marshal(obj)
	if err != nil {
		return map[string]string{"marshal-error": err.Error()}
	}
	return viewOfJSON(kind, b)
}

func errStr(err error) string {
	if err == nil {
		return ""
	}
	s := err.Error()
	if len(s) > 160 {
		s = s[:160]
	}
	return s
}

func isNil(v any) bool {
	if v == nil {
		return true
	}
	rv := reflect.ValueOf(v)
	return rv.Kind() == reflect.Ptr && rv.IsNil()
}

func execute(c Case, tok string, res *vkit.Result) []outcome {
	ctx := context.Background()
	switch c.Kind {
	case kRPStatic, kRPRemote:
		var ks oidc.KeySet
		var tr *jwksTransport
		calls := 1
		if c.Kind == kRPStatic {
			ks = &staticKeySet{keys: jwks(c.Keys), multi: c.MultiKS}
		} else {
			body, err := json.Marshal(jose.JSONWebKeySet{Keys: jwks(c.Keys)})
			if err != nil {
				panic("harness: marshal jwks: " + err.Error())
			}
			tr = &jwksTransport{body: body}
			hc := &http.Client{Transport: tr}
			if c.SkipRemote {
				ks = rp.NewRemoteKeySet(hc, issuer+"/keys", rp.SkipRemoteCheck())
			} else {
				ks = rp.NewRemoteKeySet(hc, issuer+"/keys")
			}
			if c.Warm {
				calls = 3
			}
		}
		var opts []rp.VerifierOption
		if len(c.Algs) > 0 {
			opts = append(opts, rp.WithSupportedSigningAlgorithms(c.Algs...))
		}
		v := rp.NewIDTokenVerifier(issuer, rpClient, ks, opts...)
		var outs []outcome
		for i := 0; i < calls; i++ {
			before := 0
			if tr != nil {
				before = tr.n
			}
			claims, err := rp.VerifyIDToken[*oidc.IDTokenClaims](ctx, tok, v)
			o := outcome{Accepted: err == nil, Err: errStr(err)}
			if err == nil {
				o.View = viewOfObj(c.Kind, claims)
			} else if !isNil(claims) {
				res.Fail("C02:claims-with-error:"+c.Kind, "claims returned together with error %v", err)
			}
			if tr != nil {
				o.Note = fmt.Sprintf("call=%d fetches=%d", i, tr.n-before)
				if i > 0 && tr.n == before {
					res.Label("remote:served-from-cache")
				} else {
					res.Label("remote:fetched")
				}
			}
			outs = append(outs, o)
		}
		return outs

	case kOPAccess:
		st := newStore(c)
		ks := &op.OpenIDKeySet{Storage: st.Shaped(vkit.FullCaps)}
		var opts []op.AccessTokenVerifierOpt
		if len(c.Algs) > 0 {
			opts = append(opts, op.WithSupportedAccessTokenSigningAlgorithms(c.Algs...))
		}
		v := op.NewAccessTokenVerifier(issuer, ks, opts...)
		claims, err := op.VerifyAccessToken[*oidc.AccessTokenClaims](ctx, tok, v)
		o := outcome{Accepted: err == nil, Err: errStr(err)}
		if err == nil {
			o.View = viewOfObj(c.Kind, claims)
		} else if !isNil(claims) {
			res.Fail("C02:claims-with-error:"+c.Kind, "claims returned together with error %v", err)
		}
		return []outcome{o}

	case kOPHint:
		st := newStore(c)
		ks := &op.OpenIDKeySet{Storage: st.Shaped(vkit.FullCaps)}
		var opts []op.IDTokenHintVerifierOpt
		if len(c.Algs) > 0 {
			opts = append(opts, op.WithSupportedIDTokenHintSigningAlgorithms(c.Algs...))
		}
		v := op.NewIDTokenHintVerifier(issuer, ks, opts...)
		claims, err := op.VerifyIDTokenHint[*oidc.IDTokenClaims](ctx, tok, v)
		o := outcome{Accepted: err == nil, Err: errStr(err)}
		if err == nil {
			o.View = viewOfObj(c.Kind, claims)
		} else if !isNil(claims) {
			// claims + IDTokenHintExpiredError is a documented combination, but nothing here is expired
			res.Fail("C02:claims-with-error:"+c.Kind, "claims returned together with error %v", err)
		}
		return []outcome{o}

	case kAssert, kAssertKS:
		var v *op.JWTProfileVerifier
		var vopts []op.JWTProfileVerifierOption
		if c.Delegation {
			vopts = append(vopts, op.SubjectCheck(func(*oidc.JWTTokenRequest) error { return nil }))
		}
		if c.Kind == kAssert {
			v = op.NewJWTProfileVerifier(newStore(c), issuer, 0, 0, vopts...)
		} else {
			v = op.NewJWTProfileVerifierKeySet(&staticKeySet{keys: jwks(c.Keys), multi: c.MultiKS}, issuer, 0, 0, vopts...)
		}
		req, err := op.VerifyJWTAssertion(ctx, tok, v)
		o := outcome{Accepted: err == nil, Err: errStr(err)}
		if err == nil {
			o.View = viewOfObj(c.Kind, req)
		} else if req != nil {
			res.Fail("C02:claims-with-error:"+c.Kind, "request returned together with error %v", err)
		}
		return []outcome{o}

	case kReqObj:
		st := newStore(c)
		ar := &oidc.AuthRequest{ClientID: who(c), RedirectURI: redirect, ResponseType: oidc.ResponseTypeCode,
			Scopes: oidc.SpaceDelimitedArray{"openid"}, State: qState, Nonce: qNonce, RequestParam: tok}
		err := op.ParseRequestObject(ctx, ar, st.Shaped(vkit.FullCaps), issuer)
		o := outcome{Accepted: err == nil, Err: errStr(err)}
		if err == nil {
			o.View = map[string]string{"state": ar.State, "nonce": ar.Nonce}
		}
		return []outcome{o}

	case kReqHTTP, kHintHTTP:
		st := newStore(c)
		sut, err := vkit.Build(vkit.DefaultProviderSpec(c.Router), st)
		if err != nil {
			panic("harness: build provider: " + err.Error())
		}
		ag := vkit.NewAgent(sut)
		q := url.Values{"redirect_uri": {redirect}, "response_type": {"code"}, "scope": {"openid"}, "state": {qState}, "nonce": {qNonce}}
		if c.Kind == kReqHTTP {
			q.Set("client_id", who(c))
			q.Set("request", tok)
		} else {
			q.Set("client_id", "c1")
			q.Set("id_token_hint", tok)
		}
		resp := ag.Authorize(q)
		if resp.Panic != nil {
			res.Fail("C02:panic@"+resp.PanicFrame(), "authorize endpoint panicked: %v", resp.Panic)
			return nil
		}
		o := outcome{Note: fmt.Sprintf("status=%d", resp.Status)}
		id, ok := vkit.LoginRequestID(resp)
		if !ok {
			o.Err = resp.Describe()
			if len(o.Err) > 200 {
				o.Err = o.Err[:200]
			}
			return []outcome{o}
		}
		snap, ok := st.AuthReqSnapshot(id)
		if !ok {
			o.Err = "auth request " + id + " not in storage"
			return []outcome{o}
		}
		if c.Kind == kReqHTTP {
			if snap.State == qState && snap.Nonce == qNonce {
				o.Note += " object-not-applied"
				return []outcome{o}
			}
			o.Accepted = true
			o.View = map[string]string{"state": snap.State, "nonce": snap.Nonce}
		} else {
			if snap.HintSubject == "" {
				o.Note += " hint-not-applied"
				return []outcome{o}
			}
			o.Accepted = true
			o.View = map[string]string{"sub": snap.HintSubject}
		}
		return []outcome{o}
	}
	return nil
}

func validCase(c Case) string {
	ok := false
	for _, k := range tokenKinds {
		ok = ok || k == c.Kind
	}
	if !ok && c.Kind != kFindKey {
		return "unknown kind"
	}
	for _, e := range append(append([]KeyEntry{}, c.Keys...), c.Keys2...) {
		if !knownKey(e.Key) {
			return "unknown pool key"
		}
	}
	if c.Kind == kFindKey {
		if c.FK == nil {
			return "findkey without arguments"
		}
		return ""
	}
	if !knownKey(c.Tok.Key) || !vkit.AlgFitsKey(c.Tok.Alg, vkit.Key(c.Tok.Key)) {
		return "signing key does not fit algorithm"
	}
	if isHTTP(c.Kind) && c.Router != "provider" && c.Router != "legacy" {
		return "unknown router"
	}
	return ""
}

func run(c Case) (res *vkit.Result) {
	res = &vkit.Result{}
	defer func() {
		if p := recover(); p != nil {
			stack := string(debug.Stack())
			if s, ok := p.(string); ok && strings.HasPrefix(s, "harness:") {
				panic(p)
			}
			frame := vkit.FirstLibFrame(stack)
			if frame == "unknown" || frame == "" {
				panic(fmt.Sprintf("harness: panic outside the library: %v\n%s", p, stack)) // a bug of the check, not a finding
			}
			res.Fail("C02:panic@"+frame, "verifier panicked: %v", p)
		}
	}()
	if why := validCase(c); why != "" {
		res.Grey = true
		res.Label("invalid-case")
		res.Info = why
		return res
	}
	res.Label("kind:" + c.Kind)
	if c.Kind == kFindKey {
		runFindKey(c, res)
		return res
	}
	if c.Router != "" {
		res.Label("router:" + c.Router)
	}
	b, err := buildToken(c)
	if err != nil {
		res.Grey = true
		res.Label("invalid-case")
		res.Info = err.Error()
		return res
	}
	v := model(c, b)
	outs := execute(c, b.Token, res)
	want := viewOfJSON(c.Kind, b.SignedP)
	var evil map[string]string
	if b.EvilP != nil {
		evil = viewOfJSON(c.Kind, b.EvilP)
	}

	// (the evidence keeps the 80 most frequent labels: relation / form / single manipulations are part of Key and Info only)
	if c.MultiKS {
		res.Label("keyset:verify-multi")
	}
	if c.Delegation {
		res.Label("delegation:sub=" + map[bool]string{true: "issuer", false: "other"}[c.Tok.Sub == ""])
	}
	baseOK := len(v.Reject) == len(uniq(append([]string{}, b.Reject...))) // nothing but the manipulations speaks against the token
	if baseOK && c.Raw == nil {
		res.Label("base-acceptable")
		for _, m := range c.Tok.Manips {
			res.Label("attack:" + m.Kind) // manipulation applied to a token that would otherwise be accepted
		}
	}
	if b.EvilP != nil && b.SplitsTo == 3 {
		res.Label("smuggle-armed") // the three-part split of the serialized token yields the attacker's payload
	}
	switch {
	case len(v.Reject) > 0:
		res.Label("must-reject")
		if len(v.Reject) == 1 {
			res.Label("sole-reason:" + v.Reject[0]) // everything else about the token is fine: the class that decides sensitivity
		}
	case len(v.Grey) > 0:
		res.Label("grey")
		for _, g := range v.Grey {
			res.Label("grey:" + g)
		}
		res.Grey = true
	default:
		res.Label("must-accept", "must-accept:"+c.Kind, "accept:"+v.AcceptClass)
	}
	for i, o := range outs {
		call := ""
		if len(outs) > 1 {
			call = fmt.Sprintf(" (call %d of %d on the same key set)", i+1, len(outs))
		}
		switch {
		case len(v.Reject) > 0 && o.Accepted:
			res.Fail("C02:sound:"+c.Kind+":"+strings.Join(v.Reject, "+"), "%s accepted a token that must be rejected (%v)%s; believed %v; token %s", c.Kind, v.Reject, call, o.View, clip(b.Token))
		case len(v.Reject) == 0 && len(v.Grey) == 0 && !o.Accepted:
			res.Fail("C02:complete:"+c.Kind+":"+v.AcceptClass, "%s rejected a genuine token signed with an allowed algorithm by a trusted key (%s)%s: %s", c.Kind, v.AcceptClass, call, o.Err)
		}
		if o.Accepted && !reflect.DeepEqual(o.View, want) {
			whose := "neither the signed nor the embedded payload"
			if evil != nil && reflect.DeepEqual(o.View, evil) {
				whose = "the attacker's embedded payload"
			}
			res.Fail("C02:claims-not-signed:"+c.Kind, "%s handed back claims that are not the signed payload%s: got %v (%s), signed %v; token %s", c.Kind, call, o.View, whose, want, clip(b.Token))
		}
	}
	res.Info = map[string]any{"model": v, "outcomes": outs, "form": b.Form, "parts": b.SplitsTo, "kid": b.EffKID}
	res.NonTrivial = len(c.Tok.Manips) > 0 || c.Raw != nil || v.Candidates >= 2
	vc := "accept:" + v.AcceptClass
	if len(v.Reject) > 0 {
		vc = "reject:" + strings.Join(v.Reject, "+")
	} else if len(v.Grey) > 0 {
		vc = "grey:" + strings.Join(v.Grey, "+")
	}
	res.Key = fmt.Sprintf("%s|%s|%v|%s|%s|%v|%s|%s|%v|%s|%v%v", c.Kind, c.Router, manipNames(c), keySetShape(c.Keys), keySetShape(c.Keys2), c.Algs, c.Tok.Alg, c.Tok.Relation, c.Tok.HasKID, vc, c.Warm, c.SkipRemote) + "|" + c.Tok.Sub + fmt.Sprint(c.MultiKS)
	if c.Raw != nil {
		res.Key += "|" + string(c.Raw)
	}
	return res
}

func clip(s string) string {
	if len(s) > 700 {
		return s[:700] + "..."
	}
	return s
}

// ---- oidc.FindMatchingKey directly ------------------------------------------------

func runFindKey(c Case, res *vkit.Result) {
	keys := jwks(c.Keys)
	tk, alg := c.FK.KID, c.FK.Alg
	got, err := oidc.FindMatchingKey(tk, oidc.KeyUseSignature, alg, keys...)

	// model
	var cand, exact, kidless []int
	for i, e := range c.Keys {
		if useOK(e) && vkit.AlgFamilyFitsKey(alg, vkit.Key(e.Key)) {
			cand = append(cand, i)
			if tk != "" && e.KID == tk {
				exact = append(exact, i)
			}
			if e.KID == "" {
				kidless = append(kidless, i)
			}
		}
	}
	inSet := func(idx []int) bool {
		for _, i := range idx {
			e := c.Keys[i]
			if got.KeyID == e.KID && got.Use == e.Use && reflect.DeepEqual(got.Key, vkit.Key(e.Key).Pub) {
				return true
			}
		}
		return false
	}
	if len(cand) >= 2 {
		res.Label("findkey:candidates>=2")
	}
	if tk == "" {
		res.Label("findkey:no-kid")
	}
	if err == nil {
		res.Label("findkey:returned-key")
		switch {
		case !inSet(cand):
			res.Fail("C02:findkey:unfit-key", "FindMatchingKey(%q, sig, %q) returned key kid=%q use=%q type %T which is not a key of the set whose use permits signatures and whose type fits the algorithm", tk, alg, got.KeyID, got.Use, got.Key)
		case tk == "" && len(cand) > 1:
			res.Fail("C02:findkey:guessed-no-kid", "FindMatchingKey without key ID returned kid=%q although %d keys match (ambiguity must be reported)", got.KeyID, len(cand))
		case tk != "" && got.KeyID != tk && got.KeyID != "":
			res.Fail("C02:findkey:kid-inconsistent", "FindMatchingKey(%q) returned a key with kid %q", tk, got.KeyID)
		case tk != "" && got.KeyID == "" && len(kidless) > 1:
			res.Fail("C02:findkey:guessed-kidless", "FindMatchingKey(%q) returned one of %d matching keys without kid", tk, len(kidless))
		}
	} else {
		res.Label("findkey:error")
		switch {
		case len(exact) > 0:
			res.Fail("C02:findkey:complete:exact-kid", "FindMatchingKey(%q, sig, %q) failed (%v) although the set has a fitting signature key with that kid", tk, alg, err)
		case tk == "" && len(cand) == 1:
			res.Fail("C02:findkey:complete:unique-no-kid", "FindMatchingKey(\"\", sig, %q) failed (%v) although exactly one key matches", alg, err)
		case tk != "" && len(kidless) == 1:
			res.Fail("C02:findkey:complete:kidless-fallback", "FindMatchingKey(%q, sig, %q) failed (%v) although exactly one fitting key without kid is published", tk, alg, err)
		case tk == "" && len(cand) > 1 && !errors.Is(err, oidc.ErrKeyMultiple):
			res.Fail("C02:findkey:ambiguity-not-reported", "FindMatchingKey without key ID and %d matching keys failed with %v instead of reporting ambiguity", len(cand), err)
		}
	}
	res.Info = map[string]any{"err": errStr(err), "returned_kid": got.KeyID, "candidates": len(cand), "exact": len(exact), "kidless": len(kidless)}
	res.NonTrivial = len(c.Keys) >= 2
	res.Key = fmt.Sprintf("findkey|%s|%s|kid=%q|%d/%d/%d|%v", keySetShape(c.Keys), alg, tk, len(cand), len(exact), len(kidless), err == nil)
}
