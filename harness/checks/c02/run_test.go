package c02

import (
	"bytes"
	"context"
	"encoding/json"
	"errors"
	"fmt"
	"io"
	"net/http"
	"net/url"
	"reflect"
	"runtime/debug"
	"strings"
	"time"

	jose "github.com/go-jose/go-jose/v4"
	"github.com/zitadel/oidc/v3/pkg/client/rp"
	"github.com/zitadel/oidc/v3/pkg/oidc"
	"github.com/zitadel/oidc/v3/pkg/op"

	"verif/harness/vkit"
)

// ---- key sets -------------------------------------------------------------------

func jwks(keys []KeyEntry) []jose.JSONWebKey {
	out := make([]jose.JSONWebKey, 0, len(keys))
	for _, e := range keys {
		out = append(out, vkit.Key(e.Key).JWK(e.KID, e.Use, e.Alg))
	}
	return out
}

// staticKeySet is what an application with a fixed key list writes: select with oidc.FindMatchingKey, verify with go-jose.
type staticKeySet struct {
	keys  []jose.JSONWebKey
	multi bool // verify with VerifyMulti: "exactly one signature" is then enforced by the library's CheckSignature alone
	y     *yielder // concurrent sub-check: the lookup yields (nil: not)
}

func (s *staticKeySet) VerifySignature(ctx context.Context, jws *jose.JSONWebSignature) ([]byte, error) {
	s.y.yield()
	defer s.y.yield()
	kid, alg := oidc.GetKeyIDAndAlg(jws)
	key, err := oidc.FindMatchingKey(kid, oidc.KeyUseSignature, alg, s.keys...)
	if err != nil {
		return nil, err
	}
	if s.multi {
		_, _, payload, err := jws.VerifyMulti(&key)
		return payload, err
	}
	return jws.Verify(&key)
}

// jwksTransport answers every request with the JWKS document in force, in process, and remembers what it served.
type jwksTransport struct {
	body   []byte
	cur    []KeyEntry
	n      int
	served [][]KeyEntry // key set answered per fetch
}

func (t *jwksTransport) set(keys []KeyEntry) {
	body, err := json.Marshal(jose.JSONWebKeySet{Keys: jwks(keys)})
	if err != nil {
		panic("harness: marshal jwks: " + err.Error())
	}
	t.body, t.cur = body, keys
}

func (t *jwksTransport) RoundTrip(r *http.Request) (*http.Response, error) {
	t.n++
	t.served = append(t.served, t.cur)
	return &http.Response{
		StatusCode: 200, Status: "200 OK", Proto: "HTTP/1.1", ProtoMajor: 1, ProtoMinor: 1,
		Header: http.Header{"Content-Type": {"application/json"}}, Body: io.NopCloser(bytes.NewReader(t.body)),
		ContentLength: int64(len(t.body)), Request: r,
	}, nil
}

func newStore(c Case) *vkit.Store {
	mk := func(id string, keys []KeyEntry) *vkit.ClientSpec {
		return &vkit.ClientSpec{ID: id, Secret: "secret-" + id, AppType: "web", AuthMethod: "client_secret_basic",
			GrantTypes: []string{vkit.GCode, vkit.GBearer}, ResponseTypes: []string{"code"}, RedirectURIs: []string{redirect}, Keys: entryMap(keys)}
	}
	var c1keys, c2keys []KeyEntry
	if perClient(c.Kind) {
		c1keys, c2keys = c.Keys, c.Keys2
	}
	alg := hintAlg(c)
	signer := "rsa1"
	for _, kn := range vkit.KeyNames {
		if vkit.AlgFitsKey(alg, vkit.Key(kn)) {
			signer = kn
			break
		}
	}
	st := vkit.NewStore([]*vkit.ClientSpec{mk("c1", c1keys), mk("c2", c2keys)}, vkit.SignKeySpec{KeyName: signer, Alg: alg, KID: "op-signing-key"}, vkit.StorePolicy{})
	if !perClient(c.Kind) {
		storeKeys(st, c.Kind, c.Keys, nil)
	}
	return st
}

// storeKeys puts the key sets in force into the storage (what Storage.KeySet / GetKeyByIDAndClientID answer from now on).
func storeKeys(st *vkit.Store, kind string, keys, keys2 []KeyEntry) {
	if perClient(kind) {
		st.Clients["c1"].Keys = entryMap(keys)
		st.Clients["c2"].Keys = entryMap(keys2)
		return
	}
	st.PubKeys = nil
	for _, e := range keys {
		st.PubKeys = append(st.PubKeys, vkit.PubKeySpec{KeyName: e.Key, Alg: e.Alg, KID: e.KID, Use: e.Use})
	}
}

// ---- execution ------------------------------------------------------------------

// outcome of one verification call
type outcome struct {
	Accepted bool              `json:"accepted"`
	View     map[string]string `json:"believed,omitempty"`
	Err      string            `json:"err,omitempty"`
	Note     string            `json:"note,omitempty"`
}

func viewOfObj(kind string, obj any) map[string]string {
	b, err := json.Marshal(obj)
	if err != nil {
		return map[string]string{"marshal-error": err.Error()}
	}
	return viewOfJSON(kind, b)
}

func errStr(err error) string {
	if err == nil {
		return ""
	}
	s := err.Error()
	if len(s) > 160 {
		s = s[:160]
	}
	return s
}

func isNil(v any) bool {
	if v == nil {
		return true
	}
	rv := reflect.ValueOf(v)
	return rv.Kind() == reflect.Ptr && rv.IsNil()
}

// instance is ONE long-lived verifier / key set / provider; every call of a case goes to it.
type instance struct {
	// setKeys: the key set the application / JWKS endpoint / storage serves from now on (target: which of the key sets
	// of a provider - storage | access | hint -, "" for the kinds with one key set)
	setKeys func(target string, keys, keys2 []KeyEntry)
	// verify presents the token to the verifier of `kind` (the case's kind; a provider has two verifiers and a later call
	// may go to the other one) (times: how often in a row; >1 only for the warm rp-remote calls)
	verify func(kind, tok string, who string, times int, res *vkit.Result) []outcome
	// mayHold (rp-remote): key sets the instance may still verify against besides the one served now (documented cache)
	mayHold func() [][]KeyEntry
}

func newInstance(c Case) *instance {
	ctx := context.Background()
	one := func(o outcome) []outcome { return []outcome{o} }
	switch c.Kind {
	case kRPStatic, kRPRemote:
		var ks oidc.KeySet
		var tr *jwksTransport
		in := &instance{}
		if c.Kind == kRPStatic {
			sks := &staticKeySet{keys: jwks(c.Keys), multi: c.MultiKS}
			ks = sks
			in.setKeys = func(_ string, keys, _ []KeyEntry) { sks.keys = jwks(keys) }
		} else {
			tr = &jwksTransport{}
			tr.set(c.Keys)
			hc := &http.Client{Transport: tr}
			if c.SkipRemote {
				ks = rp.NewRemoteKeySet(hc, issuer+"/keys", rp.SkipRemoteCheck())
			} else {
				ks = rp.NewRemoteKeySet(hc, issuer+"/keys")
			}
			in.setKeys = func(_ string, keys, _ []KeyEntry) { tr.set(keys) }
			// The cache holds the answer of the last download. The goroutine that stores it (and retires the finished
			// download) may lag behind the caller it woke up: the answer before the last one may then still be in the
			// cache, and the last answer - even one without keys - may be handed out once more instead of a new download
			// (observed under load). Both answers count as "may hold"; how the cache is refreshed is property C13's subject.
			in.mayHold = func() [][]KeyEntry {
				var out [][]KeyEntry
				for i := len(tr.served) - 1; i >= 0 && i >= len(tr.served)-2; i-- {
					out = append(out, tr.served[i])
				}
				return out
			}
		}
		var opts []rp.VerifierOption
		if len(c.Algs) > 0 {
			opts = append(opts, rp.WithSupportedSigningAlgorithms(c.Algs...))
		}
		v := rp.NewIDTokenVerifier(issuer, rpClient, ks, opts...)
		in.verify = func(_, tok, _ string, times int, res *vkit.Result) []outcome {
			var outs []outcome
			for i := 0; i < times; i++ {
				before := 0
				if tr != nil {
					before = tr.n
				}
				claims, err := rp.VerifyIDToken[*oidc.IDTokenClaims](ctx, tok, v)
				o := outcome{Accepted: err == nil, Err: errStr(err)}
				if err == nil {
					o.View = viewOfObj(c.Kind, claims)
				} else if !isNil(claims) {
					res.Fail("C02:claims-with-error:"+c.Kind, "claims returned together with error %v", err)
				}
				if tr != nil {
					o.Note = fmt.Sprintf("call=%d fetches=%d", i, tr.n-before)
					if tr.n == before {
						res.Label("remote:served-from-cache")
					} else {
						res.Label("remote:fetched")
					}
					if tr.n-before > 1 {
						res.Label("remote:fetched>1")
					}
				}
				outs = append(outs, o)
			}
			return outs
		}
		return in

	case kOPAccess, kOPHint, kProvAcc, kProvHint:
		st := newStore(c)
		// one provider (or one pair of stand-alone verifiers over one op.OpenIDKeySet); a call goes to its access-token or
		// to its id_token_hint verifier
		var accessV func() *op.AccessTokenVerifier
		var hintV func() *op.IDTokenHintVerifier
		setKeys := func(_ string, keys, keys2 []KeyEntry) { storeKeys(st, c.Kind, keys, keys2) }
		if c.Kind == kOPAccess || c.Kind == kOPHint {
			ks := &op.OpenIDKeySet{Storage: st.Shaped(vkit.FullCaps)}
			var aopts []op.AccessTokenVerifierOpt
			var hopts []op.IDTokenHintVerifierOpt
			if len(c.Algs) > 0 {
				aopts = append(aopts, op.WithSupportedAccessTokenSigningAlgorithms(c.Algs...))
				hopts = append(hopts, op.WithSupportedIDTokenHintSigningAlgorithms(c.Algs...))
			}
			av, hv := op.NewAccessTokenVerifier(issuer, ks, aopts...), op.NewIDTokenHintVerifier(issuer, ks, hopts...)
			switch c.Stale { // (the verifier type has no option for these; an application sets the fields)
			case "iat":
				hv.MaxAgeIAT = time.Hour
			case "auth":
				hv.MaxAge = time.Hour
			}
			accessV = func() *op.AccessTokenVerifier { return av }
			hintV = func() *op.IDTokenHintVerifier { return hv }
		} else {
			sut, set := buildProviderFor(st, c, "provider", nil)
			p := sut.Provider
			ctx = op.ContextWithIssuer(ctx, issuer)
			accessV = func() *op.AccessTokenVerifier { return p.AccessTokenVerifier(ctx) } // as the handlers obtain it, per request
			hintV = func() *op.IDTokenHintVerifier { return p.IDTokenHintVerifier(ctx) }
			setKeys = set
		}
		return &instance{
			setKeys: setKeys,
			verify: func(kind, tok, _ string, _ int, res *vkit.Result) []outcome {
				var o outcome
				if kind == kOPAccess || kind == kProvAcc {
					claims, err := op.VerifyAccessToken[*oidc.AccessTokenClaims](ctx, tok, accessV())
					o = outcome{Accepted: err == nil, Err: errStr(err)}
					if err == nil {
						o.View = viewOfObj(kind, claims)
					} else if !isNil(claims) {
						res.Fail("C02:claims-with-error:"+kind, "claims returned together with error %v", err)
					}
				} else {
					claims, err := op.VerifyIDTokenHint[*oidc.IDTokenClaims](ctx, tok, hintV())
					// claims + IDTokenHintExpiredError is the documented "expired, but signature and other verifications
					// succeeded" answer (the authorize and end_session endpoints believe such claims): handed back as well
					expired := err != nil && errors.As(err, &op.IDTokenHintExpiredError{})
					o = outcome{Accepted: !isNil(claims) && (err == nil || expired), Err: errStr(err)}
					switch {
					case o.Accepted:
						o.View = viewOfObj(kind, claims)
						if expired {
							o.Note = "handed back with IDTokenHintExpiredError"
							res.Label("hint:handed-back-as-expired")
						}
					case err == nil:
						res.Fail("C02:nil-claims-without-error:"+kind, "VerifyIDTokenHint returned neither claims nor an error")
					case !isNil(claims):
						res.Fail("C02:claims-with-error:"+kind, "claims returned together with error %v", err)
					}
				}
				return one(o)
			}}

	case kAssert, kAssertKS:
		var v *op.JWTProfileVerifier
		var vopts []op.JWTProfileVerifierOption
		if c.Delegation {
			vopts = append(vopts, op.SubjectCheck(func(*oidc.JWTTokenRequest) error { return nil }))
		}
		in := &instance{}
		if c.Kind == kAssert {
			st := newStore(c)
			v = op.NewJWTProfileVerifier(st, issuer, 0, 0, vopts...)
			in.setKeys = func(_ string, keys, keys2 []KeyEntry) { storeKeys(st, c.Kind, keys, keys2) }
		} else {
			sks := &staticKeySet{keys: jwks(c.Keys), multi: c.MultiKS}
			v = op.NewJWTProfileVerifierKeySet(sks, issuer, 0, 0, vopts...)
			in.setKeys = func(_ string, keys, _ []KeyEntry) { sks.keys = jwks(keys) }
		}
		in.verify = func(_, tok, _ string, _ int, res *vkit.Result) []outcome {
			req, err := op.VerifyJWTAssertion(ctx, tok, v)
			o := outcome{Accepted: err == nil, Err: errStr(err)}
			if err == nil {
				o.View = viewOfObj(c.Kind, req)
			} else if req != nil {
				res.Fail("C02:claims-with-error:"+c.Kind, "request returned together with error %v", err)
			}
			return one(o)
		}
		return in

	case kReqObj:
		st := newStore(c)
		storage := st.Shaped(vkit.FullCaps)
		return &instance{
			setKeys: func(_ string, keys, keys2 []KeyEntry) { storeKeys(st, c.Kind, keys, keys2) },
			verify: func(_, tok, who string, _ int, res *vkit.Result) []outcome {
				ar := &oidc.AuthRequest{ClientID: who, RedirectURI: redirect, ResponseType: oidc.ResponseTypeCode,
					Scopes: oidc.SpaceDelimitedArray{"openid"}, State: qState, Nonce: qNonce, RequestParam: tok}
				err := op.ParseRequestObject(ctx, ar, storage, issuer)
				o := outcome{Accepted: err == nil, Err: errStr(err)}
				if err == nil {
					o.View = map[string]string{"state": ar.State, "nonce": ar.Nonce}
				} else if ar.State != qState || ar.Nonce != qNonce || ar.ClientID != who {
					res.Fail("C02:claims-with-error:"+c.Kind, "request object refused (%v) but its claims were copied into the authorization request: state=%q nonce=%q client_id=%q", err, ar.State, ar.Nonce, ar.ClientID)
				}
				return one(o)
			}}

	case kHintEnd:
		// the end_session endpoint believes the subject of the hint: it ends that user's session
		st := newStore(c)
		sut, setKeys := buildProviderFor(st, c, c.Router, nil)
		ag := vkit.NewAgent(sut)
		return &instance{
			setKeys: setKeys,
			verify: func(_, tok, _ string, _ int, res *vkit.Result) []outcome {
				before := len(st.Ended)
				resp := ag.EndSession(url.Values{"id_token_hint": {tok}})
				if resp.Panic != nil {
					res.Fail("C02:panic@"+resp.PanicFrame(), "end_session endpoint panicked: %v", resp.Panic)
					return nil
				}
				o := outcome{Note: fmt.Sprintf("status=%d", resp.Status)}
				if len(st.Ended) == before {
					o.Err = resp.Describe()
					if len(o.Err) > 200 {
						o.Err = o.Err[:200]
					}
					return one(o)
				}
				o.Accepted = true
				o.View = map[string]string{"sub": st.Ended[len(st.Ended)-1][0]}
				return one(o)
			}}

	case kReqHTTP, kHintHTTP:
		st := newStore(c)
		sut, setKeys := buildProviderFor(st, c, c.Router, nil)
		ag := vkit.NewAgent(sut)
		return &instance{
			setKeys: setKeys,
			verify: func(_, tok, who string, _ int, res *vkit.Result) []outcome {
				q := url.Values{"redirect_uri": {redirect}, "response_type": {"code"}, "scope": {"openid"}, "state": {qState}, "nonce": {qNonce}}
				if c.Kind == kReqHTTP {
					q.Set("client_id", who)
					q.Set("request", tok)
				} else {
					q.Set("client_id", "c1")
					q.Set("id_token_hint", tok)
				}
				resp := ag.Authorize(q)
				if resp.Panic != nil {
					res.Fail("C02:panic@"+resp.PanicFrame(), "authorize endpoint panicked: %v", resp.Panic)
					return nil
				}
				o := outcome{Note: fmt.Sprintf("status=%d", resp.Status)}
				id, ok := vkit.LoginRequestID(resp)
				if !ok {
					o.Err = resp.Describe()
					if len(o.Err) > 200 {
						o.Err = o.Err[:200]
					}
					return one(o)
				}
				snap, ok := st.AuthReqSnapshot(id)
				if !ok {
					o.Err = "auth request " + id + " not in storage"
					return one(o)
				}
				if c.Kind == kReqHTTP {
					if snap.State == qState && snap.Nonce == qNonce {
						o.Note += " object-not-applied"
						return one(o)
					}
					o.Accepted = true
					o.View = map[string]string{"state": snap.State, "nonce": snap.Nonce}
				} else {
					if snap.HintSubject == "" {
						o.Note += " hint-not-applied"
						return one(o)
					}
					o.Accepted = true
					o.View = map[string]string{"sub": snap.HintSubject}
				}
				return one(o)
			}}
	}
	return nil
}

func buildProvider(st *vkit.Store, router string, y *yielder) *vkit.SUT {
	spec := vkit.DefaultProviderSpec(router)
	if y != nil {
		spec.WrapStorage = y.wrap
	}
	sut, err := vkit.Build(spec, st)
	if err != nil {
		panic("harness: build provider: " + err.Error())
	}
	return sut
}

// buildProviderFor builds the provider of a case. Without Case.Prov: vkit.Build with its fixed option set. With it:
// op.NewProvider with exactly the verification options the case names (key set per verifier, allowed algorithms per
// verifier; none of them when the case names none), everything else as vkit.Build does it. The returned function changes the
// key set `target` in force: what the storage publishes, or the application's key set object handed to the option.
// y (concurrent sub-check only, else nil): the key lookups of the storage and of the application key sets yield.
func buildProviderFor(st *vkit.Store, c Case, router string, y *yielder) (*vkit.SUT, func(target string, keys, keys2 []KeyEntry)) {
	sut := buildProvider(st, router, y) // paths, host, spec (and the provider of the fixed option set)
	toStorage := func(keys, keys2 []KeyEntry) { storeKeys(st, c.Kind, keys, keys2) }
	if c.Prov == nil || !isProv(c.Kind) {
		return sut, func(_ string, keys, keys2 []KeyEntry) { toStorage(keys, keys2) }
	}
	po := c.Prov
	var aks, hks *staticKeySet
	opts := []op.Option{op.WithLogger(vkit.DiscardLogger())}
	if po.HasAccessKS {
		aks = &staticKeySet{keys: jwks(po.AccessKS), y: y}
		opts = append(opts, op.WithAccessTokenKeySet(aks))
	}
	if len(po.AccessAlgs) > 0 {
		opts = append(opts, op.WithAccessTokenVerifierOpts(op.WithSupportedAccessTokenSigningAlgorithms(po.AccessAlgs...)))
	}
	if po.HasHintKS {
		hks = &staticKeySet{keys: jwks(po.HintKS), y: y}
		opts = append(opts, op.WithIDTokenHintKeySet(hks))
	}
	if len(po.HintAlgs) > 0 {
		opts = append(opts, op.WithIDTokenHintVerifierOpts(op.WithSupportedIDTokenHintSigningAlgorithms(po.HintAlgs...)))
	}
	if po.Rev {
		for i, j := 0, len(opts)-1; i < j; i, j = i+1, j-1 {
			opts[i], opts[j] = opts[j], opts[i]
		}
	}
	spec := sut.Spec
	cfg := &op.Config{
		DefaultLogoutRedirectURI: spec.DefaultLogoutURI,
		CodeMethodS256:           spec.S256,
		AuthMethodPost:           spec.Post,
		AuthMethodPrivateKeyJWT:  spec.PKJWT,
		GrantTypeRefreshToken:    spec.Refresh,
		RequestObjectSupported:   spec.ReqObj,
		DeviceAuthorization: op.DeviceAuthorizationConfig{
			Lifetime: time.Duration(spec.Device.LifetimeS) * time.Second, PollInterval: time.Duration(spec.Device.PollS) * time.Second,
			UserFormPath: spec.Device.UserFormPath, UserFormURL: spec.Device.UserFormURL,
			UserCode: op.UserCodeConfig{CharSet: spec.Device.CharSet, CharAmount: spec.Device.CharAmount, DashInterval: spec.Device.DashInterval},
		},
	}
	for i := range cfg.CryptoKey {
		cfg.CryptoKey[i] = byte(i*7+3) ^ spec.CryptoKey
	}
	p, err := op.NewProvider(cfg, y.wrap(st.Shaped(spec.Caps)), op.StaticIssuer(spec.Issuer), opts...)
	if err != nil {
		panic("harness: build provider with options: " + err.Error())
	}
	sut.Provider = p
	if router == "legacy" {
		sut.Handler = op.RegisterLegacyServer(op.NewLegacyServer(p, vkit.PristineEndpoints()), op.AuthorizeCallbackHandler(p), op.WithFallbackLogger(vkit.DiscardLogger()))
	} else {
		sut.Handler = p
	}
	return sut, func(target string, keys, keys2 []KeyEntry) {
		switch {
		case target == "access" && aks != nil:
			aks.keys = jwks(keys)
		case target == "hint" && hks != nil:
			hks.keys = jwks(keys)
		default:
			toStorage(keys, keys2)
		}
	}
}

func validCase(c Case) string {
	ok := false
	for _, k := range tokenKinds {
		ok = ok || k == c.Kind
	}
	if !ok && c.Kind != kFindKey {
		return "unknown kind"
	}
	all := append(append([]KeyEntry{}, c.Keys...), c.Keys2...)
	for _, s := range c.Seq {
		all = append(append(all, s.Keys...), s.Keys2...)
		if s.Ver != "" && (s.Ver != "access" && s.Ver != "hint" || c.Kind != kProvAcc && c.Kind != kProvHint) {
			return "step names a verifier the instance does not have"
		}
	}
	if c.Prov != nil {
		if !isProv(c.Kind) {
			return "provider options without provider"
		}
		all = append(append(all, c.Prov.AccessKS...), c.Prov.HintKS...)
	}
	for _, e := range all {
		if !knownKey(e.Key) {
			return "unknown pool key"
		}
	}
	if c.Kind == kFindKey {
		if c.FK == nil {
			return "findkey without arguments"
		}
		return ""
	}
	toks := []TokSpec{c.Tok}
	for _, s := range c.Seq {
		toks = append(toks, s.Tok)
	}
	for _, tk := range toks {
		if !knownKey(tk.Key) || !vkit.AlgFitsKey(tk.Alg, vkit.Key(tk.Key)) {
			return "signing key does not fit algorithm"
		}
		if !contains(timeKinds, tk.Time) || (tk.Time != "" && isReqObj(c.Kind)) {
			return "unknown time claims"
		}
		if (tk.Outer != "" || tk.CID != "" || tk.Iss == "absent") && !isReqObj(c.Kind) {
			return "request-object members on another kind of token"
		}
		if !contains([]string{"", "c1", "c2", "ghost"}, tk.Outer) || !contains([]string{"", "absent", "empty", "c1", "c2", "ghost"}, tk.CID) {
			return "unknown request-object shape"
		}
		if tk.Iss == "absent" && tk.Outer == "" {
			return "request object without requesting client"
		}
	}
	if c.Stale != "" && (c.Kind != kOPHint || (c.Stale != "iat" && c.Stale != "auth")) {
		return "unknown verifier age limits"
	}
	if len(c.Seq) > 8 {
		return "sequence too long"
	}
	if c.Raw != nil && len(c.Seq) > 0 {
		return "raw token with sequence"
	}
	if isHTTP(c.Kind) && c.Router != "provider" && c.Router != "legacy" {
		return "unknown router"
	}
	return ""
}

// call is one verification on the instance: the key sets in force, the token presented.
type call struct {
	Mut         string
	Kind        string // verifier the call goes to (the case's kind; prov-access / prov-hint: possibly the provider's other verifier)
	Target      string // which key set is in force for that verifier: "" | storage | access | hint
	Keys, Keys2 []KeyEntry
	Tok         TokSpec
	From        int
}

// plan lists the calls of a case: the first token on the initial key sets, then the steps of the sequence.
func plan(c Case) []call {
	sets := keySets(c)
	keys2 := c.Keys2
	tg := targetOf(c, c.Kind)
	out := []call{{Kind: c.Kind, Target: tg, Keys: sets[tg], Keys2: keys2, Tok: c.Tok}}
	for _, s := range c.Seq {
		kind := stepKind(c, s)
		tg := targetOf(c, kind)
		if s.Mut != "" {
			sets[tg], keys2 = s.Keys, s.Keys2
		}
		out = append(out, call{Mut: s.Mut, Kind: kind, Target: tg, Keys: sets[tg], Keys2: keys2, Tok: s.Tok, From: s.From})
	}
	return out
}

// combine: verdict for a verifier that may select the key from any of several key sets (the rp remote key set: what is
// published now, what its cache holds). Rejection is demanded only if every set demands it, acceptance only if every set does.
func combine(vs []verdict) verdict {
	v := vs[0]
	allReject, allAccept := true, true
	for _, x := range vs {
		allReject = allReject && len(x.Reject) > 0
		allAccept = allAccept && len(x.Reject) == 0 && len(x.Grey) == 0
		if x.Candidates > v.Candidates {
			v.Candidates = x.Candidates
		}
	}
	switch {
	case allReject, allAccept:
		return v
	}
	v.Reject, v.AcceptClass = nil, ""
	v.Grey = uniq(append(v.Grey, "cache-may-differ"))
	return v
}

func verdictClass(v verdict) string {
	switch {
	case len(v.Reject) > 0:
		return "reject:" + strings.Join(v.Reject, "+")
	case len(v.Grey) > 0:
		return "grey:" + strings.Join(v.Grey, "+")
	}
	return "accept:" + v.AcceptClass
}

func run(c Case) (res *vkit.Result) {
	res = &vkit.Result{}
	defer func() {
		if p := recover(); p != nil {
			stack := string(debug.Stack())
			if s, ok := p.(string); ok && strings.HasPrefix(s, "harness:") {
				panic(p)
			}
			frame := vkit.FirstLibFrame(stack)
			if frame == "unknown" || frame == "" {
				panic(fmt.Sprintf("harness: panic outside the library: %v\n%s", p, stack)) // a bug of the check, not a finding
			}
			res.Fail("C02:panic@"+frame, "verifier panicked: %v", p)
		}
	}()
	if c.Conc != nil {
		return runConc(c)
	}
	if c.Rot != nil {
		return runRot(c)
	}
	if why := validCase(c); why != "" {
		res.Grey = true
		res.Label("invalid-case")
		res.Info = why
		return res
	}
	res.Label("kind:" + c.Kind)
	if c.Kind == kFindKey {
		runFindKey(c, res)
		return res
	}
	if c.Router != "" {
		res.Label("router:" + c.Router)
	}
	// (the evidence keeps the 80 most frequent labels: relation / form / single manipulations are part of Key and Info only)
	if c.MultiKS {
		res.Label("keyset:verify-multi")
	}
	if c.Delegation {
		res.Label("delegation:sub=" + map[bool]string{true: "issuer", false: "other"}[c.Tok.Sub == ""])
	}
	calls := plan(c)
	// every token is built before the first call (an invalid case must not leave a half-run instance behind)
	builts := make([]*built, len(calls))
	ccs := make([]Case, len(calls))
	for i, cl := range calls {
		cc := c
		cc.Kind, cc.Keys, cc.Keys2, cc.Tok, cc.Seq = cl.Kind, cl.Keys, cl.Keys2, cl.Tok, nil // (cc.Keys: the key set in force for the verifier of this call)
		var base *vkit.Token
		if j := cl.From - 1; j >= 0 && j < i && calls[j].Kind == cl.Kind && sameSigning(calls[j].Tok, cl.Tok) {
			base = &builts[j].Genuine
		}
		b, err := buildTokenFrom(cc, base)
		if err != nil {
			res.Grey = true
			res.Label("invalid-case")
			res.Info = err.Error()
			return res
		}
		builts[i], ccs[i] = b, cc
	}
	if len(calls) > 1 {
		res.Label("seq", fmt.Sprintf("seq:calls=%d", len(calls)))
	}
	if isProv(c.Kind) {
		res.Label("prov:" + provShape(c.Prov))
		if c.Prov != nil {
			res.Label("prov:algs:access=" + map[bool]string{true: "default", false: "list"}[len(c.Prov.AccessAlgs) == 0] + ",hint=" + map[bool]string{true: "default", false: "list"}[len(c.Prov.HintAlgs) == 0])
		}
	}
	inst := newInstance(c)
	var infos []map[string]any
	var keyParts []string
	allGrey := true
	accepted := make([]bool, len(calls)) // the instance accepted the token of call i
	for i, cl := range calls {
		cc, b := ccs[i], builts[i]
		if i > 0 && cl.Mut != "" {
			inst.setKeys(cl.Target, cl.Keys, cl.Keys2)
			m := cl.Mut
			if k := strings.IndexByte(m, ':'); k >= 0 {
				m = m[k+1:]
			}
			res.Label("seq:keys:" + m)
		}
		v := model(cc, b)
		if inst.mayHold != nil {
			vs := []verdict{v}
			for _, held := range inst.mayHold() {
				if !sameKeys(held, cl.Keys) {
					hc := cc
					hc.Keys = held
					vs = append(vs, model(hc, b))
				}
			}
			if len(vs) > 1 {
				v = combine(vs)
			}
		}
		times := 1
		if i == 0 && c.Kind == kRPRemote && c.Warm {
			times = 3
		}
		kind := cc.Kind
		outs := inst.verify(kind, b.Token, requester(cc), times, res)
		want := viewOfJSON(kind, b.SignedP)
		var evil map[string]string
		if b.EvilP != nil {
			evil = viewOfJSON(kind, b.EvilP)
		}
		if kind != c.Kind {
			res.Label("prov:call-to-other-verifier")
		}
		provLabels(c, cl, calls, i, v, res)
		dimLabels(cc, v, outs, res)
		baseOK := len(v.Reject) == len(uniq(append([]string{}, b.Reject...))) // nothing but the manipulations speaks against the token
		if baseOK && c.Raw == nil {
			res.Label("base-acceptable")
			for _, m := range cl.Tok.Manips {
				res.Label("attack:" + m.Kind) // manipulation applied to a token that would otherwise be accepted
			}
		}
		if b.EvilP != nil && b.SplitsTo == 3 {
			res.Label("smuggle-armed") // the three-part split of the serialized token yields the attacker's payload
		}
		switch {
		case len(v.Reject) > 0:
			res.Label("must-reject")
			if len(v.Reject) == 1 {
				res.Label("sole-reason:" + v.Reject[0]) // everything else about the token is fine: the class that decides sensitivity
			}
			allGrey = false
		case len(v.Grey) > 0:
			res.Label("grey")
			for _, g := range v.Grey {
				res.Label("grey:" + g)
			}
		default:
			res.Label("must-accept", "must-accept:"+kind, "accept:"+v.AcceptClass)
			allGrey = false
		}
		hist := ""
		if i > 0 {
			// classes of later calls: what the instance has seen before is what a stateful defect would abuse
			src := "fresh"
			if j := cl.From - 1; j >= 0 && j < i {
				src = "derived"
				if accepted[j] {
					src = "derived-of-accepted"
				}
				if len(cl.Tok.Manips) == 0 {
					src += ":replay"
				} else {
					src += ":manipulated"
				}
			}
			res.Label("seq:" + src)
			switch {
			case len(v.Reject) > 0:
				res.Label("seq:" + src + ":must-reject")
				if len(v.Reject) == 1 {
					res.Label("seq:sole-reason:" + v.Reject[0])
				}
			case len(v.Grey) == 0:
				res.Label("seq:" + src + ":must-accept")
			}
			if src == "derived-of-accepted:replay" && len(v.Reject) > 0 {
				res.Label("seq:accepted-token-replayed-after-withdrawal:" + kind) // (rp remote key set: only once its cache must have noticed)
			}
			hist = "; history on this instance: " + history(calls[:i+1], accepted[:i])
			if len(hist) > 400 { // (the driver prints 600 characters of a message; the replay file has everything)
				hist = hist[:180] + " ... " + hist[len(hist)-215:]
			}
		}
		for k, o := range outs {
			callNo := ""
			if len(outs) > 1 || len(calls) > 1 {
				callNo = fmt.Sprintf(" (call %d of %d on the same instance", i+1, len(calls))
				if len(outs) > 1 {
					callNo += fmt.Sprintf(", presented %d of %d times", k+1, len(outs))
				}
				callNo += ")"
			}
			switch {
			case len(v.Reject) > 0 && o.Accepted:
				res.Fail("C02:sound:"+kind+":"+strings.Join(v.Reject, "+"), "%s%s accepted a token that must be rejected (%v)%s%s; believed %v%s; token %s", kind, provText(c, cl), v.Reject, dimText(cc, o), callNo, o.View, hist, clipTok(b.Token, hist))
			case len(v.Reject) == 0 && len(v.Grey) == 0 && !o.Accepted:
				res.Fail("C02:complete:"+kind+":"+v.AcceptClass, "%s%s rejected a genuine token signed with an allowed algorithm by a trusted key (%s)%s: %s%s", kind, provText(c, cl), v.AcceptClass, callNo, o.Err, hist)
			}
			if o.Accepted && !reflect.DeepEqual(o.View, want) {
				whose := "neither the signed nor the embedded payload"
				if evil != nil && reflect.DeepEqual(o.View, evil) {
					whose = "the attacker's embedded payload"
				}
				res.Fail("C02:claims-not-signed:"+kind, "%s handed back claims that are not the signed payload%s: got %v (%s), signed %v%s; token %s", kind, callNo, o.View, whose, want, hist, clipTok(b.Token, hist))
			}
		}
		accepted[i] = len(outs) > 0
		for _, o := range outs {
			accepted[i] = accepted[i] && o.Accepted
		}
		info := map[string]any{"model": v, "outcomes": outs, "form": b.Form, "parts": b.SplitsTo, "kid": b.EffKID}
		if cl.Mut != "" {
			info["keys"] = cl.Mut
		}
		infos = append(infos, info)
		if v.Candidates >= 2 || len(cl.Tok.Manips) > 0 {
			res.NonTrivial = true
		}
		if i > 0 {
			keyParts = append(keyParts, fmt.Sprintf("%s>%d|%v|%s|%s|%s|%v|%s", cl.Mut, cl.From, manipNamesOf(cl.Tok), keySetShape(cl.Keys), keySetShape(cl.Keys2), cl.Tok.Alg, cl.Tok.HasKID, verdictClass(v)))
			if d := cl.Tok.Time + "/" + cl.Tok.Outer + "/" + cl.Tok.CID; d != "//" {
				keyParts[len(keyParts)-1] += "|dims:" + d
			}
			if kind != c.Kind {
				keyParts[len(keyParts)-1] += "|" + kind
			}
		}
	}
	res.Grey = allGrey
	if len(calls) == 1 {
		res.Info = infos[0] // (map with "outcomes": TestFuzzSeeds reads it)
	} else {
		res.Info = map[string]any{"calls": infos, "outcomes": infos[0]["outcomes"]}
	}
	res.NonTrivial = res.NonTrivial || c.Raw != nil || len(calls) > 1
	v0, _ := infos[0]["model"].(verdict)
	res.Key = fmt.Sprintf("%s|%s|%v|%s|%s|%v|%s|%s|%v|%s|%v%v", c.Kind, c.Router, manipNames(c), keySetShape(c.Keys), keySetShape(c.Keys2), c.Algs, c.Tok.Alg, c.Tok.Relation, c.Tok.HasKID, verdictClass(v0), c.Warm, c.SkipRemote) + "|" + c.Tok.Sub + fmt.Sprint(c.MultiKS)
	if d := c.Tok.Time + "/" + c.Stale + "/" + c.Tok.Outer + "/" + c.Tok.CID; d != "///" {
		res.Key += "|dims:" + d + "/" + c.Tok.Iss
	}
	if c.Prov != nil {
		p := c.Prov
		res.Key += fmt.Sprintf("|prov:%s|%s|%s|%v|%v|%v|%s", provShape(p), keySetShape(p.AccessKS), keySetShape(p.HintKS), p.AccessAlgs, p.HintAlgs, p.Rev, keySetShape(calls[0].Keys))
	}
	if c.Raw != nil {
		res.Key += "|" + string(c.Raw)
	}
	if len(keyParts) > 0 {
		res.Key += "|seq:" + strings.Join(keyParts, ";")
	}
	return res
}

// dimText: the time-claims / request-object shape of the call (for violation messages).
func dimText(c Case, o outcome) string {
	s := ""
	if timeFails(c) {
		s += " [time claims: " + c.Tok.Time
		if c.Kind == kOPHint && c.Stale != "" {
			s += " verifier max age " + c.Stale
		}
		if strings.Contains(o.Note, "IDTokenHintExpiredError") {
			s += "; claims " + o.Note
		}
		s += "]"
	}
	if isReqObj(c.Kind) && (c.Tok.Outer != "" || c.Tok.CID != "") {
		cid, has := cidMember(c.Tok, who(c))
		s += fmt.Sprintf(" [authorization request of client %q; request object iss=%q client_id=%q (present: %v), signed by %s]", requester(c), who(c), cid, has, c.Tok.Key)
	}
	return s
}

// dimLabels: classes of the time-claims and the request-object dimensions.
func dimLabels(c Case, v verdict, outs []outcome, res *vkit.Result) {
	if timeFails(c) {
		grp := "other"
		if isHint(c.Kind) {
			grp = "hint"
		}
		tm := c.Tok.Time
		if tm == "" {
			tm = "stale-" + c.Stale
		}
		res.Label("time:"+grp+":"+tm, "time-fails:"+c.Kind)
		if isHint(c.Kind) {
			// the class that decides whether unverified claims of an expired hint would be noticed
			switch {
			case len(v.Reject) > 0:
				res.Label("hint:expired:must-reject")
				if len(v.Reject) == 1 {
					res.Label("hint:expired:sole-reason:" + v.Reject[0])
				}
			case len(v.Grey) == 1: // nothing but the time claims speaks against it
				res.Label("hint:expired:genuine")
				for _, o := range outs {
					if o.Accepted {
						res.Label("hint:expired:genuine:handed-back")
					}
				}
			}
		}
	}
	if isReqObj(c.Kind) {
		r, iss := requester(c), who(c)
		cid, has := cidMember(c.Tok, iss)
		if iss == r && has && cid == r {
			return
		}
		res.Label("reqobj:names-other-client")
		switch {
		case iss == r:
			res.Label("reqobj:iss=requester")
		case iss == "c1" || iss == "c2":
			res.Label("reqobj:iss=other-registered-client")
		default:
			res.Label("reqobj:iss=" + map[bool]string{true: "absent", false: "unknown"}[iss == "absent"])
		}
		switch {
		case !has:
			res.Label("reqobj:client_id=absent")
		case cid == "":
			res.Label("reqobj:client_id=empty")
		case cid == r:
			res.Label("reqobj:client_id=requester")
		default:
			res.Label("reqobj:client_id=other")
		}
		if len(c.Tok.Manips) == 0 {
			// genuinely signed: by whose key?
			reg := func(who string) bool {
				var keys []KeyEntry
				switch who {
				case "c1":
					keys = c.Keys
				case "c2":
					keys = c.Keys2
				}
				for _, e := range keys {
					if e.Key == c.Tok.Key {
						return true
					}
				}
				return false
			}
			switch {
			case reg(r):
				res.Label("reqobj:signed-by-requesters-key")
			case iss != r && reg(iss):
				res.Label("reqobj:signed-by-key-of-the-client-iss-names") // believed only by a verifier that lets the object choose its key set
			default:
				res.Label("reqobj:signed-by-unregistered-key")
			}
		}
	}
}

// provText: how the provider is configured for the verifier of the call (for violation messages).
func provText(c Case, cl call) string {
	if c.Prov == nil || !isProv(c.Kind) {
		return ""
	}
	p := c.Prov
	s := " of a provider built with"
	n := 0
	if p.HasAccessKS {
		s += " WithAccessTokenKeySet" + keySetText(p.AccessKS)
		n++
	}
	if p.HasHintKS {
		s += " WithIDTokenHintKeySet" + keySetText(p.HintKS)
		n++
	}
	if len(p.AccessAlgs) > 0 {
		s += fmt.Sprintf(" access-token algs %v", p.AccessAlgs)
		n++
	}
	if len(p.HintAlgs) > 0 {
		s += fmt.Sprintf(" hint algs %v", p.HintAlgs)
		n++
	}
	if n == 0 {
		s += " no verification option"
	}
	return s + fmt.Sprintf(", storage publishes %s; in force for this verifier: %s key set %s, algs %v;", keySetText(c.Keys), cl.Target, keySetText(cl.Keys), allowedAlgs(Case{Kind: cl.Kind, Algs: c.Algs, Prov: c.Prov}))
}

// provLabels: classes of the provider-option dimension (is the OTHER verifier configured differently, and would the
// other configuration have decided differently?).
func provLabels(c Case, cl call, calls []call, i int, v verdict, res *vkit.Result) {
	if c.Prov == nil || !isProv(c.Kind) {
		return
	}
	otherKind := kProvAcc
	if cl.Kind == kProvAcc {
		otherKind = kProvHint
	}
	otherTg := targetOf(c, otherKind)
	if otherTg != cl.Target {
		res.Label("prov:verifiers-have-different-key-sets")
		if cl.Target == "storage" {
			res.Label("prov:default-set-while-other-verifier-has-custom")
		}
	}
	// the key set in force for the other verifier at this call
	other := keySets(c)[otherTg]
	for _, x := range calls[1 : i+1] {
		if x.Mut != "" && x.Target == otherTg {
			other = x.Keys
		}
	}
	trusts := func(keys []KeyEntry) bool {
		for _, e := range keys {
			if e.Key == cl.Tok.Key && useOK(e) {
				return true
			}
		}
		return false
	}
	if len(cl.Tok.Manips) == 0 {
		switch {
		case trusts(other) && !trusts(cl.Keys):
			res.Label("prov:signer-only-in-other-verifiers-set")
		case !trusts(other) && trusts(cl.Keys) && len(v.Reject) == 0 && len(v.Grey) == 0:
			res.Label("prov:must-accept-signer-not-in-other-verifiers-set")
		}
		oa := allowedAlgs(Case{Kind: otherKind, Algs: c.Algs, Prov: c.Prov})
		ma := allowedAlgs(Case{Kind: cl.Kind, Algs: c.Algs, Prov: c.Prov})
		switch {
		case contains(oa, cl.Tok.Alg) && !contains(ma, cl.Tok.Alg):
			res.Label("prov:alg-only-in-other-verifiers-list")
		case !contains(oa, cl.Tok.Alg) && contains(ma, cl.Tok.Alg) && len(v.Reject) == 0 && len(v.Grey) == 0:
			res.Label("prov:must-accept-alg-not-in-other-verifiers-list")
		}
	}
}

// history renders the calls made so far on the instance (for violation messages).
func history(calls []call, accepted []bool) string {
	var parts []string
	for i, cl := range calls {
		s := fmt.Sprintf("#%d", i+1)
		if cl.Mut != "" && i > 0 {
			s += " [keys " + cl.Mut + " -> " + keySetText(cl.Keys)
			if len(cl.Keys2) > 0 {
				s += " / " + keySetText(cl.Keys2)
			}
			s += "]"
		} else if i == 0 {
			s += " [keys " + keySetText(cl.Keys)
			if len(cl.Keys2) > 0 {
				s += " / " + keySetText(cl.Keys2)
			}
			s += "]"
		}
		if cl.Kind != calls[0].Kind {
			s += " to " + cl.Kind
		}
		s += fmt.Sprintf(" %s by %s kid=%q", cl.Tok.Alg, cl.Tok.Key, cl.Tok.KID)
		if cl.From > 0 {
			s += fmt.Sprintf(" derived from #%d", cl.From)
		}
		if len(cl.Tok.Manips) > 0 {
			s += fmt.Sprintf(" %v", manipNamesOf(cl.Tok))
		}
		if i < len(accepted) {
			s += map[bool]string{true: " => accepted", false: " => rejected"}[accepted[i]]
		} else {
			s += " => this call"
		}
		parts = append(parts, s)
	}
	return strings.Join(parts, ", ")
}

func keySetText(keys []KeyEntry) string {
	var parts []string
	for _, e := range keys {
		parts = append(parts, fmt.Sprintf("%s:%q:%s", e.Key, e.KID, e.Use))
	}
	return "{" + strings.Join(parts, " ") + "}"
}

func clip(s string) string {
	if len(s) > 300 {
		return s[:300] + "..."
	}
	return s
}

// clipTok: in a sequence the message carries the history instead of most of the token
func clipTok(tok, hist string) string {
	if hist != "" && len(tok) > 60 {
		return tok[:60] + "..."
	}
	return clip(tok)
}

// ---- oidc.FindMatchingKey directly ------------------------------------------------

func runFindKey(c Case, res *vkit.Result) {
	keys := jwks(c.Keys)
	tk, alg := c.FK.KID, c.FK.Alg
	got, err := oidc.FindMatchingKey(tk, oidc.KeyUseSignature, alg, keys...)

	// model
	var cand, exact, kidless []int
	for i, e := range c.Keys {
		if useOK(e) && vkit.AlgFamilyFitsKey(alg, vkit.Key(e.Key)) {
			cand = append(cand, i)
			if tk != "" && e.KID == tk {
				exact = append(exact, i)
			}
			if e.KID == "" {
				kidless = append(kidless, i)
			}
		}
	}
	inSet := func(idx []int) bool {
		for _, i := range idx {
			e := c.Keys[i]
			if got.KeyID == e.KID && got.Use == e.Use && reflect.DeepEqual(got.Key, vkit.Key(e.Key).Pub) {
				return true
			}
		}
		return false
	}
	if len(cand) >= 2 {
		res.Label("findkey:candidates>=2")
	}
	if tk == "" {
		res.Label("findkey:no-kid")
	}
	if err == nil {
		res.Label("findkey:returned-key")
		switch {
		case !inSet(cand):
			res.Fail("C02:findkey:unfit-key", "FindMatchingKey(%q, sig, %q) returned key kid=%q use=%q type %T which is not a key of the set whose use permits signatures and whose type fits the algorithm", tk, alg, got.KeyID, got.Use, got.Key)
		case tk == "" && len(cand) > 1:
			res.Fail("C02:findkey:guessed-no-kid", "FindMatchingKey without key ID returned kid=%q although %d keys match (ambiguity must be reported)", got.KeyID, len(cand))
		case tk != "" && got.KeyID != tk && got.KeyID != "":
			res.Fail("C02:findkey:kid-inconsistent", "FindMatchingKey(%q) returned a key with kid %q", tk, got.KeyID)
		case tk != "" && got.KeyID == "" && len(kidless) > 1:
			res.Fail("C02:findkey:guessed-kidless", "FindMatchingKey(%q) returned one of %d matching keys without kid", tk, len(kidless))
		}
	} else {
		res.Label("findkey:error")
		switch {
		case len(exact) > 0:
			res.Fail("C02:findkey:complete:exact-kid", "FindMatchingKey(%q, sig, %q) failed (%v) although the set has a fitting signature key with that kid", tk, alg, err)
		case tk == "" && len(cand) == 1:
			res.Fail("C02:findkey:complete:unique-no-kid", "FindMatchingKey(\"\", sig, %q) failed (%v) although exactly one key matches", alg, err)
		case tk != "" && len(kidless) == 1:
			res.Fail("C02:findkey:complete:kidless-fallback", "FindMatchingKey(%q, sig, %q) failed (%v) although exactly one fitting key without kid is published", tk, alg, err)
		case tk == "" && len(cand) > 1 && !errors.Is(err, oidc.ErrKeyMultiple):
			res.Fail("C02:findkey:ambiguity-not-reported", "FindMatchingKey without key ID and %d matching keys failed with %v instead of reporting ambiguity", len(cand), err)
		}
	}
	res.Info = map[string]any{"err": errStr(err), "returned_kid": got.KeyID, "candidates": len(cand), "exact": len(exact), "kidless": len(kidless)}
	res.NonTrivial = len(c.Keys) >= 2
	res.Key = fmt.Sprintf("findkey|%s|%s|kid=%q|%d/%d/%d|%v", keySetShape(c.Keys), alg, tk, len(cand), len(exact), len(kidless), err == nil)
}
