package c02

import (
	"sort"

	"verif/harness/vkit"
)

// verdict of the reference model (written from the statement; does not call the library).
//   Reject non-empty            : the statement demands rejection (any one reason suffices)
//   Reject empty, Grey non-empty: acceptance is permitted but not demanded (statement silent)
//   both empty                  : genuine compact token, allowed algorithm, key selection unambiguous => must be accepted
type verdict struct {
	Reject      []string
	Grey        []string
	AcceptClass string
	Candidates  int // keys of the set whose use and type fit the token's algorithm
}

func useOK(e KeyEntry) bool { return e.Use == "sig" || e.Use == "" }

func knownKey(name string) bool { return contains(vkit.KeyNames, name) }

// entryMap is the storage view of a client's registered keys (kid -> pool key; the first registration of a kid wins).
func entryMap(keys []KeyEntry) map[string]string {
	m := map[string]string{}
	for _, e := range keys {
		if _, dup := m[e.KID]; !dup {
			m[e.KID] = e.Key
		}
	}
	return m
}

// modelPublished: key selected from a published key set.
// alg / signer describe the genuine signature, tk is the key ID the token presents ("" none).
func modelPublished(keys []KeyEntry, allowed []string, alg, signer, tk string, weak bool) verdict {
	var v verdict
	if !contains(allowed, alg) {
		v.Reject = append(v.Reject, "alg-not-allowed")
	}
	var verifying, usable, consistent, candFine, candCoarse []KeyEntry
	for _, e := range keys {
		k := vkit.Key(e.Key)
		fine, coarse := vkit.AlgFitsKey(alg, k), vkit.AlgFamilyFitsKey(alg, k)
		if useOK(e) && fine {
			candFine = append(candFine, e)
		}
		if useOK(e) && coarse {
			candCoarse = append(candCoarse, e)
		}
		if e.Key == signer && fine { // the genuine signature verifies under this published key
			verifying = append(verifying, e)
			if useOK(e) {
				usable = append(usable, e)
				if tk == "" || e.KID == "" || e.KID == tk {
					consistent = append(consistent, e)
				}
			}
		}
	}
	v.Candidates = len(candCoarse)
	switch {
	case len(verifying) == 0:
		v.Reject = append(v.Reject, "untrusted-key")
	case len(usable) == 0:
		v.Reject = append(v.Reject, "use-not-sig")
	case weak:
		// native fuzz: header members outside the signature (unprotected kid) are under the fuzzer's control
	case len(consistent) == 0:
		v.Reject = append(v.Reject, "kid-mismatch")
	}
	if !weak && tk == "" && len(candFine) >= 2 {
		v.Reject = append(v.Reject, "ambiguous-no-kid")
	}
	if len(v.Reject) > 0 || weak {
		return v
	}
	// completeness: is the selection determined?
	if tk != "" {
		var exact, kidless []KeyEntry
		for _, e := range candCoarse {
			if e.KID == tk {
				exact = append(exact, e)
			}
			if e.KID == "" {
				kidless = append(kidless, e)
			}
		}
		switch {
		case len(exact) > 0:
			for _, e := range exact {
				if e.Key != signer {
					v.Grey = append(v.Grey, "duplicate-kid")
					return v
				}
			}
			v.AcceptClass = "exact-kid"
		case len(kidless) == 1 && kidless[0].Key == signer:
			v.AcceptClass = "kidless-fallback"
		default:
			v.Grey = append(v.Grey, "kidless-not-unique")
		}
		return v
	}
	if len(candCoarse) == 1 {
		v.AcceptClass = "unique-no-kid"
	} else {
		v.Grey = append(v.Grey, "coarse-ambiguity") // e.g. ES256 token, P-256 and P-384 keys published: only one can verify it
	}
	return v
}

// modelPerClient: the key comes from the storage entry of the named client and the given kid only. The named client of an
// assertion is its issuer; a request object is part of the authorization request of the requesting client (the outer
// client_id), whose registered keys are the configured key set - whatever the object says about itself.
func modelPerClient(c Case, alg, signer, tk string, weak bool) verdict {
	var v verdict
	if !contains(defaultAlgs, alg) {
		v.Reject = append(v.Reject, "alg-not-allowed")
	}
	var keys []KeyEntry
	switch requester(c) {
	case "c1":
		keys = c.Keys
	case "c2":
		keys = c.Keys2
	}
	m := entryMap(keys)
	v.Candidates = len(m)
	if weak {
		found := false
		for _, kn := range m {
			if kn == signer {
				found = true
			}
		}
		if !found {
			v.Reject = append(v.Reject, "untrusted-key")
		}
		return v
	}
	kn, ok := m[tk]
	switch {
	case !ok:
		v.Reject = append(v.Reject, "no-key-for-kid")
	case kn != signer:
		v.Reject = append(v.Reject, "untrusted-key")
	}
	if len(v.Reject) == 0 {
		v.AcceptClass = "client-key"
	}
	return v
}

func model(c Case, b *built) verdict {
	weak := c.Raw != nil
	var v verdict
	if perClient(c.Kind) {
		v = modelPerClient(c, c.Tok.Alg, c.Tok.Key, b.EffKID, weak)
	} else {
		v = modelPublished(c.Keys, allowedAlgs(c), c.Tok.Alg, c.Tok.Key, b.EffKID, weak)
	}
	v.Reject = append(v.Reject, b.Reject...)
	v.Grey = append(v.Grey, b.Grey...)
	if c.Tok.Sub != "" && !c.Delegation {
		v.Grey = append(v.Grey, "subject-check") // default verifier refuses iss != sub: not this property's business
	}
	if timeFails(c) {
		// expired / not yet valid / too old: whether such a token is refused (or, id_token_hint, handed back with an
		// IDTokenHintExpiredError) is not this property's business - but IF its claims are handed back, all of the above applies
		v.Grey = append(v.Grey, "time-claims")
	}
	if isReqObj(c.Kind) {
		// iss / client_id of the object do not name the requesting client: the claim-agreement rules (C14) decide whether the
		// object is refused; here only the provenance of the signature counts
		cid, has := cidMember(c.Tok, who(c))
		if r := requester(c); who(c) != r || !has || cid != r {
			v.Grey = append(v.Grey, "reqobj-names-other-client")
		}
	}
	if weak {
		v.Grey = append(v.Grey, "raw")
	}
	v.Reject = uniq(v.Reject)
	v.Grey = uniq(v.Grey)
	if len(v.Reject) > 0 || len(v.Grey) > 0 {
		v.AcceptClass = ""
	}
	return v
}

func uniq(l []string) []string {
	sort.Strings(l)
	var out []string
	for i, s := range l {
		if i == 0 || s != l[i-1] {
			out = append(out, s)
		}
	}
	return out
}
