package c02

import (
	"testing"

	"verif/harness/vkit"
)

// Native coverage-guided fuzzing of the serialized token (thorough tier).
//
// Data-provider layer: byte 0 selects a configuration (verifier kind, key set, allowed list, the genuine token's signer),
// the rest is the serialized token text in which $H $P $S stand for the segments of the genuinely signed token and $E for
// an attacker payload (so that structural mutations - moving, duplicating, wrapping segments - are cheap for the engine;
// literal seeds are added as well so that single characters get mutated). The oracle is prop.Run: accepted => the
// signer is a key the configured key set trusts for signatures with an allowed algorithm, and the claims handed back
// are those of the genuinely signed payload (nothing else was ever signed, so nothing else may be believed).
var fuzzConfigs = []Case{
	// trusted single key, RS256 (deterministic signature: literal seeds stay valid)
	{Kind: kRPStatic, Keys: []KeyEntry{{Key: "rsa1", KID: "k1", Use: "sig"}}, Tok: TokSpec{Alg: "RS256", Key: "rsa1", KID: "k1", HasKID: true, Relation: "trusted"}},
	{Kind: kRPRemote, Warm: true, Keys: []KeyEntry{{Key: "rsa1", KID: "k1", Use: "sig"}, {Key: "p256a", KID: "", Use: ""}}, Tok: TokSpec{Alg: "RS256", Key: "rsa1", KID: "k1", HasKID: true, Relation: "trusted"}},
	{Kind: kOPAccess, Keys: []KeyEntry{{Key: "rsa1", KID: "", Use: "sig"}}, Tok: TokSpec{Alg: "RS256", Key: "rsa1", Relation: "trusted-nokid"}},
	{Kind: kOPHint, Algs: []string{"EdDSA", "RS256"}, Keys: []KeyEntry{{Key: "ed1", KID: "k1", Use: "sig"}, {Key: "rsa2", KID: "k2", Use: "sig"}}, Tok: TokSpec{Alg: "EdDSA", Key: "ed1", KID: "k1", HasKID: true, Relation: "trusted"}},
	{Kind: kAssert, Keys: []KeyEntry{{Key: "rsa1", KID: "k1", Use: "sig"}}, Keys2: []KeyEntry{{Key: "rsa2", KID: "k1", Use: "sig"}}, Tok: TokSpec{Alg: "RS256", Key: "rsa1", KID: "k1", HasKID: true, Iss: "c1", Relation: "trusted"}},
	{Kind: kReqObj, Keys: []KeyEntry{{Key: "p256a", KID: "k1", Use: "sig"}}, Keys2: []KeyEntry{{Key: "rsa2", KID: "k2", Use: "sig"}}, Tok: TokSpec{Alg: "ES256", Key: "p256a", KID: "k1", HasKID: true, Iss: "c1", Relation: "trusted"}},
	// must-reject bases: whatever the engine does to the text, acceptance is a violation
	{Kind: kRPStatic, Keys: []KeyEntry{{Key: "rsa1", KID: "k1", Use: "sig"}}, Tok: TokSpec{Alg: "RS256", Key: "rsa2", KID: "k1", HasKID: true, Relation: "other-key-same-kid"}},
	{Kind: kOPAccess, Keys: []KeyEntry{{Key: "rsa1", KID: "k1", Use: "enc"}}, Tok: TokSpec{Alg: "RS256", Key: "rsa1", KID: "k1", HasKID: true, Relation: "trusted"}},
	{Kind: kRPStatic, Keys: []KeyEntry{{Key: "ed1", KID: "k1", Use: "sig"}}, Tok: TokSpec{Alg: "EdDSA", Key: "ed1", KID: "k1", HasKID: true, Relation: "trusted"}}, // default list has no EdDSA
	{Kind: kAssert, Keys: []KeyEntry{{Key: "rsa1", KID: "k1", Use: "sig"}}, Keys2: []KeyEntry{{Key: "rsa2", KID: "k1", Use: "sig"}}, Tok: TokSpec{Alg: "RS256", Key: "rsa2", KID: "k1", HasKID: true, Iss: "c1", Relation: "other-client-key"}},
	{Kind: kReqHTTP, Router: "provider", Keys: []KeyEntry{{Key: "rsa1", KID: "k1", Use: "sig"}}, Tok: TokSpec{Alg: "RS256", Key: "rsa1", KID: "k1", HasKID: true, Iss: "c1", Relation: "trusted"}},
	{Kind: kHintHTTP, Router: "legacy", Algs: []string{"RS256"}, Keys: []KeyEntry{{Key: "rsa1", KID: "k1", Use: "sig"}}, Tok: TokSpec{Alg: "RS256", Key: "rsa1", KID: "k1", HasKID: true, Relation: "trusted"}},
	{Kind: kAssertKS, Keys: []KeyEntry{{Key: "rsa1", KID: "k1", Use: "sig"}, {Key: "rsa2", KID: "", Use: ""}}, Tok: TokSpec{Alg: "PS256", Key: "rsa1", KID: "k1", HasKID: true, Relation: "trusted"}},
	// provider with a custom access-token key set only: a token signed by that set's key is presented to the id_token_hint
	// verifier (must-reject base: the hint verifier trusts the storage's keys), and a token of the storage's key to the same verifier
	{Kind: kProvHint, Algs: []string{"RS256"}, Keys: []KeyEntry{{Key: "rsa1", KID: "k1", Use: "sig"}}, Prov: &ProvOpts{HasAccessKS: true, AccessKS: []KeyEntry{{Key: "rsa2", KID: "k1", Use: "sig"}}},
		Tok: TokSpec{Alg: "RS256", Key: "rsa2", KID: "k1", HasKID: true, Relation: "set-access:trusted"}},
	{Kind: kProvHint, Algs: []string{"RS256"}, Keys: []KeyEntry{{Key: "rsa1", KID: "k1", Use: "sig"}}, Prov: &ProvOpts{HasAccessKS: true, AccessKS: []KeyEntry{{Key: "rsa2", KID: "k1", Use: "sig"}}, AccessAlgs: []string{"RS512"}},
		Tok: TokSpec{Alg: "RS256", Key: "rsa1", KID: "k1", HasKID: true, Relation: "trusted"}},
	{Kind: kProvAcc, Algs: []string{"RS256"}, Keys: []KeyEntry{{Key: "rsa1", KID: "k1", Use: "sig"}}, Prov: &ProvOpts{HasHintKS: true, HintKS: []KeyEntry{{Key: "rsa2", KID: "k1", Use: "sig"}}, HintAlgs: []string{"RS256", "RS384"}},
		Tok: TokSpec{Alg: "RS384", Key: "rsa1", KID: "k1", HasKID: true, Relation: "alg-of-other-list:trusted"}},
	// expired id_token_hints (handed back with IDTokenHintExpiredError if genuine): signed by a trusted and by an untrusted key
	{Kind: kOPHint, Keys: []KeyEntry{{Key: "rsa1", KID: "k1", Use: "sig"}}, Tok: TokSpec{Alg: "RS256", Key: "rsa1", KID: "k1", HasKID: true, Relation: "trusted", Time: "expired"}},
	{Kind: kOPHint, Keys: []KeyEntry{{Key: "rsa1", KID: "k1", Use: "sig"}}, Tok: TokSpec{Alg: "RS256", Key: "rsa2", KID: "k1", HasKID: true, Relation: "other-key-same-kid", Time: "expired"}},
	{Kind: kHintEnd, Router: "provider", Algs: []string{"RS256"}, Keys: []KeyEntry{{Key: "rsa1", KID: "k1", Use: "sig"}}, Tok: TokSpec{Alg: "RS256", Key: "rsa2", KID: "k1", HasKID: true, Relation: "other-key-same-kid", Time: "expired"}},
	// request object without client_id whose iss names the other client, signed with that client's key, in c1's authorization request
	{Kind: kReqObj, Keys: []KeyEntry{{Key: "p256a", KID: "k1", Use: "sig"}}, Keys2: []KeyEntry{{Key: "rsa2", KID: "k2", Use: "sig"}},
		Tok: TokSpec{Alg: "RS256", Key: "rsa2", KID: "k2", HasKID: true, Iss: "c2", Outer: "c1", CID: "absent", Relation: "trusted"}},
}

var fuzzTemplates = []string{
	"$H.$P.$S",
	"$H.$P.",
	"$H.$E.$S",
	"$H.$P.$S.$E",
	" $H.$P\n.$S",
	`{"payload":"$P","protected":"$H","signature":"$S"}`,
	`{"payload":"$P","protected":"$H","signature":"$S","header":{"x":".$E."}}`,
	`{"payload":"$P","protected":"$H","signature":"$S","header":{"x":".$P."}}`,
	`{"payload":"$P","protected":"$H","signature":"$S","header":{"kid":".$E."}}`,
	`{"zz":".$E.","payload":"$P","protected":"$H","signature":"$S"}`,
	`{"payload":"$P","signatures":[{"protected":"$H","signature":"$S","header":{"x":".$E."}}]}`,
	`{"payload":"$P","signatures":[{"protected":"$H","signature":"$S","header":{"x":".$P."}},{"protected":"$H","signature":"$S"}]}`,
	`{"payload":"$E","protected":"$H","signature":"$S","header":{"x":".$E."}}`,
	"eyJhbGciOiJub25lIiwidHlwIjoiSldUIn0.$P.",
	"eyJhbGciOiJIUzI1NiIsInR5cCI6IkpXVCJ9.$P.AAAA",
}

const maxFuzzToken = 6000

func decodeFuzz(b []byte) (Case, bool) {
	if len(b) < 2 || len(b) > maxFuzzToken {
		return Case{}, false
	}
	c := fuzzConfigs[int(b[0])%len(fuzzConfigs)]
	c.Raw = append([]byte{}, b[1:]...)
	return c, true
}

func FuzzToken(f *testing.F) {
	var seeds [][]byte
	for i, cfg := range fuzzConfigs {
		for _, tpl := range fuzzTemplates {
			seeds = append(seeds, append([]byte{byte(i)}, tpl...))
		}
		// literal forms (the engine mutates single characters of real segments)
		if b, err := buildToken(cfg); err == nil {
			seeds = append(seeds, append([]byte{byte(i)}, b.Token...))
			t, _ := vkit.SplitCompact(b.Token)
			seeds = append(seeds, append([]byte{byte(i)}, vkit.JSONFlattened(t, map[string]any{"x": "." + vkit.B64(evilPayload(cfg, 0)) + "."})...))
		}
	}
	prop.Fuzz(f, seeds, decodeFuzz)
}

// TestFuzzSeeds runs every fuzz seed through the oracle once in the ordinary tiers, so that the data-provider layer and the
// weak oracle are exercised (and must-reject seeds are seen rejected) without the fuzzing engine.
func TestFuzzSeeds(t *testing.T) {
	rec := vkit.NewRecorder("C02", prop.Rule)
	defer rec.Flush()
	n := 0
	for i := range fuzzConfigs {
		for _, tpl := range fuzzTemplates {
			c, ok := decodeFuzz(append([]byte{byte(i)}, tpl...))
			if !ok {
				t.Fatalf("seed not decodable")
			}
			res := run(c)
			res.Label("fuzz-seed")
			rec.Record(c, res)
			n++
			if fresh := vkit.Judge(rec, "C02", res); len(fresh) > 0 {
				rec.WriteFail(c, fresh)
				t.Fatalf("VIOLATION C02: %s [%s]", fresh[0].Msg, fresh[0].FP)
			}
			// the plain template over a trusted configuration must be accepted, otherwise the fuzz corpus starts from nothing
			if tpl == "$H.$P.$S" && i < 6 {
				if !accepted(res) {
					t.Fatalf("fuzz config %d: genuine token not accepted: %+v", i, res.Info)
				}
			}
		}
	}
	t.Logf("%d fuzz seeds judged", n)
}

func accepted(r *vkit.Result) bool {
	m, _ := r.Info.(map[string]any)
	outs, _ := m["outcomes"].([]outcome)
	return len(outs) > 0 && outs[0].Accepted
}
