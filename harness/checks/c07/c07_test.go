// Package c07: refresh tokens stay bound to their client and can only narrow scope (property C07).
//
// A case is a history: code exchanges (with offline_access) by three clients (confidential secret client, public
// native client, private_key_jwt client) on two deployments that share one storage (op.Provider router and
// LegacyServer router), registration changes (refresh grant withdrawn / restored), and refresh requests with symbolic
// operands (token = live / rotated / unknown of lineage #k, caller = owner / foreign client, credential presentation,
// scope relation). The oracle is a lineage model written from the statement; it never calls pkg/op.
// Registrations as data (Case.Reg): a second confidential client, client ids and secrets over a three-letter alphabet
// (ids that are prefixes / extensions of each other), and a storage whose view of the credentials changes during the
// history (secret rotated / removed / restored, client deleted / re-registered); audiences that name further registered
// clients (Case.AudClients).
// Concurrent histories (several refresh requests in flight at once, harness-owned interleaving) are in interleave_test.go.
package c07

import (
	"encoding/base64"
	"fmt"
	"net/http"
	"net/url"
	"runtime/debug"
	"sort"
	"strings"
	"testing"
	"time"

	"pgregory.net/rapid"

	"verif/harness/vkit"
)

// ---- case ---------------------------------------------------------------------

type ClientCfg struct {
	NoRefresh bool `json:"no_refresh,omitempty"` // registered WITHOUT the refresh grant at the start of the history
	JWTAT     bool `json:"jwt_at,omitempty"`     // JWT access tokens
}

type Op struct {
	Kind   string `json:"kind"`             // issue | refresh | grant | par (several refresh requests in flight at once, see interleave_test.go)
	Legacy bool   `json:"legacy,omitempty"` // deployment that serves this op: false = op.Provider router, true = LegacyServer router

	// issue: Client = owner, User, Scopes = scopes of the authorization request
	// grant: Client, On (refresh grant present in the registration afterwards)
	// reg: Client, On (the storage knows the client afterwards; off = deleted, its tokens stay in the storage)
	// secret: the storage's secret of a confidential client changes. Client selects among the secret clients (ViaLin: the
	//         client of lineage Lin when that is a secret client); Change = new (New) | remove | previous (the oldest secret
	//         the client had before; none: New) | others (the current secret of the other secret client)
	Client int      `json:"client,omitempty"`
	User   int      `json:"user,omitempty"`
	Scopes []string `json:"scopes,omitempty"`
	On     bool     `json:"on,omitempty"`

	// refresh
	Lin        int    `json:"lin,omitempty"`     // lineage selector (mod number of lineages)
	Tok        string `json:"tok,omitempty"`     // live | old | unknown
	Age        int    `json:"age,omitempty"`     // old: how many rotations back
	Unknown    string `json:"unknown,omitempty"` // random | flipped | suffixed | access | empty
	Who        int    `json:"who,omitempty"`     // 0: the lineage's client, k>0: the k-th next client (foreign; wraps around skipping the owner)
	Pres       string `json:"pres,omitempty"`    // right | wrong_secret | id_only | bad_assertion | secrets built from what the storage knows or knew (right only if the string happens to be the caller's current secret): old_secret (one the client had earlier in the history) | other_secret (current secret of another secret client) | shifted_secret (s with callerID+s == otherID+otherSecret, for ids that are prefixes of each other) | presentations that name no client at all (whatever kind the token's client is): anonymous | empty_id | empty_id_secret | basic_empty_user | empty_assertion
	Scope      string `json:"scope,omitempty"`   // absent | equal | permuted | subset | duplicate | orig | superset | widenback | disjoint | empty | spaces
	Sel        int    `json:"sel,omitempty"`     // selector bits (subset members, position of the extra scope)
	Extra      int    `json:"extra,omitempty"`   // which never-granted scope is added
	Introspect bool   `json:"introspect,omitempty"`
	ClaimID    bool   `json:"claim_id,omitempty"` // Basic / assertion presentations: additionally send client_id=<the lineage's client> in the form
	Par        *Par   `json:"par,omitempty"`      // kind par
	Change     string `json:"change,omitempty"`   // kind secret
	New        string `json:"new,omitempty"`      // kind secret
	ViaLin     bool   `json:"via_lin,omitempty"`  // kind secret
	In         string `json:"in,omitempty"`       // where the parameters travel: "" = POST body | query-grant (grant_type in the URL query, rest in the body) | query-token (refresh_token in the URL query) | query-client (client_id only in the URL query) | query-all (POST, everything in the URL query) | get (GET request)
}

// Reg = registrations as data: four clients (conf, pub, pkj and a second confidential client conf2) whose ids and
// secrets are short strings over one small alphabet, so that ids are prefixes / extensions of each other and
// id+secret concatenations of different clients coincide.
type Reg struct {
	IDs       [4]string `json:"ids"`     // conf, pub, pkj, conf2 (distinct, non-empty)
	Secrets   [2]string `json:"secrets"` // initial secrets of conf, conf2
	Conf2     ClientCfg `json:"conf2"`
	Conf2Post bool      `json:"conf2_post,omitempty"` // conf2 authenticates with client_secret_post (else client_secret_basic)
}

type Case struct {
	ErrStyle       string       `json:"err_style,omitempty"`       // how the storage words its own refusals (vkit.Store.refuse)
	Conf           string       `json:"conf"`                      // auth method of the confidential client
	SignAlg        string       `json:"sign_alg"`                  // RS256 | ES256
	Clients        [3]ClientCfg `json:"clients"`                   // conf, pub, pkj
	RefreshOff     string       `json:"refresh_off,omitempty"`     // deployments with GrantTypeRefreshToken=false: "" | provider | legacy | both
	NarrowPersists bool         `json:"narrow_persists,omitempty"` // storage policy: a narrowed scope becomes the lineage's grant
	ExtraAud       bool         `json:"extra_aud,omitempty"`       // tokens carry an additional audience
	NoRotate       bool         `json:"no_rotate,omitempty"`       // storage policy: a refresh keeps the refresh token (the storage hands the presented string back as the new one)
	Reg            *Reg         `json:"reg,omitempty"`             // nil: three clients "conf" / "pub" / "pkj", secret "secret-conf"
	AudClients     int          `json:"aud_clients,omitempty"`     // bit i: the storage puts the id of client i into the audience of every grant (all applications of a project)
	Ops            []Op         `json:"ops"`
}

// ---- generator ------------------------------------------------------------------

var (
	grantable = []string{"openid", "offline_access", "profile", "email", "phone", "address", vkit.CustomScope}
	never     = []string{"admin", "OPENID", "urn:example:all", "offline_acces", "profile.read", "write"}
)

func genIssue(t *rapid.T, label string) Op {
	op := Op{Kind: "issue"}
	op.Legacy = rapid.Bool().Draw(t, label+"legacy")
	op.Client = rapid.IntRange(0, 3).Draw(t, label+"client") // taken modulo the number of clients
	op.User = rapid.IntRange(0, 5).Draw(t, label+"user")
	sc := []string{"openid"}
	if rapid.IntRange(0, 19).Draw(t, label+"offline") != 13 {
		sc = append(sc, "offline_access")
	}
	bits := rapid.IntRange(0, 31).Draw(t, label+"scopebits")
	if rapid.IntRange(0, 2).Draw(t, label+"wide") == 0 {
		bits = 31
	}
	for i, s := range grantable[2:] {
		if bits&(1<<i) != 0 {
			sc = append(sc, s)
		}
	}
	op.Scopes = sc
	return op
}

var (
	okScopes  = []string{"absent", "absent", "equal", "permuted", "subset", "subset", "subset", "subset", "duplicate"}
	badScopes = []string{"superset", "superset", "widenback", "widenback", "orig", "disjoint", "empty", "spaces"}
	allScopes = append(append([]string{}, okScopes...), badScopes...)
	badPres   = []string{"wrong_secret", "id_only", "bad_assertion", "old_secret", "old_secret", "other_secret", "shifted_secret", "shifted_secret"}
	// presentations that do not say which client is asking (no client_id, an empty one, Basic with an empty user, an empty
	// assertion): the caller is nobody, so no refresh token - of a public client either - may be served
	unidentPres = []string{"anonymous", "anonymous", "empty_id", "empty_id_secret", "basic_empty_user", "empty_assertion"}
	anyBadPres  = append(append([]string{}, badPres...), unidentPres...)
	// parameter placement: the endpoints read the URL query as well as the body, so every guard has to hold wherever a parameter travels
	placements = []string{"", "", "", "", "", "", "query-grant", "query-grant", "query-all", "get", "query-token", "query-client"}
	unknowns   = []string{"random", "flipped", "suffixed", "access", "empty"}
)

// validRefresh draws a refresh op that the model accepts when the lineage is live, its client registered and the deployment enabled.
func validRefresh(t *rapid.T, label string) Op {
	op := Op{Kind: "refresh", Tok: "live", Pres: "right"}
	op.Legacy = rapid.Bool().Draw(t, label+"legacy")
	op.Lin = rapid.IntRange(0, 5).Draw(t, label+"lin")
	op.Sel = rapid.IntRange(0, 255).Draw(t, label+"sel")
	op.Extra = rapid.IntRange(0, 5).Draw(t, label+"extra")
	op.Introspect = rapid.IntRange(0, 3).Draw(t, label+"introspect") == 0
	op.Scope = rapid.SampledFrom(okScopes).Draw(t, label+"scope")
	op.ClaimID = rapid.IntRange(0, 2).Draw(t, label+"claimid") == 0
	op.In = rapid.SampledFrom(placements).Draw(t, label+"in")
	return op
}

func genRefresh(t *rapid.T, label string) Op {
	op := validRefresh(t, label)
	// one deviation from a valid request at a time most of the time; "multi" draws every axis independently
	switch rapid.SampledFrom([]string{"none", "none", "none", "none", "none", "token", "token", "caller", "caller", "pres", "unident", "unident", "scope", "scope", "scope", "multi"}).Draw(t, label+"deviation") {
	case "token":
		op.Tok = rapid.SampledFrom([]string{"old", "old", "unknown"}).Draw(t, label+"tok")
	case "caller":
		op.Who = rapid.IntRange(1, 3).Draw(t, label+"who")
	case "pres":
		op.Pres = rapid.SampledFrom(badPres).Draw(t, label+"pres")
	case "unident":
		op.Pres = rapid.SampledFrom(unidentPres).Draw(t, label+"unident")
	case "scope":
		op.Scope = rapid.SampledFrom(badScopes).Draw(t, label+"badscope")
	case "multi":
		op.Tok = rapid.SampledFrom([]string{"live", "live", "old", "unknown"}).Draw(t, label+"tok")
		op.Who = rapid.SampledFrom([]int{0, 0, 1, 2, 3}).Draw(t, label+"who")
		op.Pres = rapid.SampledFrom(append([]string{"right", "right", "right"}, anyBadPres...)).Draw(t, label+"pres")
		op.Scope = rapid.SampledFrom(allScopes).Draw(t, label+"anyscope")
	}
	if op.Tok == "old" {
		op.Age = rapid.IntRange(1, 3).Draw(t, label+"age")
	}
	if op.Tok == "unknown" {
		op.Unknown = rapid.SampledFrom(unknowns).Draw(t, label+"unknown")
		op.Client = rapid.IntRange(0, 3).Draw(t, label+"client")
	}
	return op
}

// names: ids and secrets are drawn from one three-letter alphabet
func genName(t *rapid.T, label string, min, max int) string {
	return rapid.StringOfN(rapid.RuneFrom([]rune{'a', 'b', '1'}), min, max, -1).Draw(t, label)
}

func genReg(t *rapid.T) *Reg {
	r := &Reg{}
	short := genName(t, "reg.short", 1, 3)
	suffix := genName(t, "reg.suffix", 1, 2)
	rel := rapid.SampledFrom([]string{"conf-shorter", "conf2-shorter", "independent"}).Draw(t, "reg.relation")
	shorter := -1 // index into Secrets of the client whose id is a proper prefix of the other one's
	switch rel {
	case "conf-shorter":
		r.IDs[0], r.IDs[3], shorter = short, short+suffix, 0
	case "conf2-shorter":
		r.IDs[3], r.IDs[0], shorter = short, short+suffix, 1
	default:
		r.IDs[0], r.IDs[3] = short, genName(t, "reg.conf2", 1, 3)
	}
	r.IDs[1] = genName(t, "reg.pub", 1, 3)
	r.IDs[2] = genName(t, "reg.pkj", 1, 3)
	seen := map[string]bool{}
	for _, i := range []int{0, 3, 1, 2} {
		for seen[r.IDs[i]] {
			r.IDs[i] += "x"
		}
		seen[r.IDs[i]] = true
	}
	r.Secrets[0] = genName(t, "reg.secret0", 1, 4)
	r.Secrets[1] = genName(t, "reg.secret1", 1, 4)
	switch rapid.SampledFrom([]string{"", "", "", "begins-with-suffix", "begins-with-suffix", "same"}).Draw(t, "reg.secrets") {
	case "begins-with-suffix":
		// the secret of the client with the shorter id starts with what the longer id has more
		if shorter >= 0 {
			r.Secrets[shorter] = suffix + r.Secrets[shorter]
		}
	case "same":
		r.Secrets[1] = r.Secrets[0]
	}
	r.Conf2.NoRefresh = rapid.IntRange(0, 11).Draw(t, "reg.norefresh") == 5
	r.Conf2.JWTAT = rapid.Bool().Draw(t, "reg.jwtat")
	r.Conf2Post = rapid.Bool().Draw(t, "reg.post")
	return r
}

func genSecretOp(t *rapid.T, label string) Op {
	op := Op{Kind: "secret", Client: rapid.IntRange(0, 1).Draw(t, label+"client")}
	op.Change = rapid.SampledFrom([]string{"new", "new", "new", "remove", "previous", "others"}).Draw(t, label+"change")
	op.New = genName(t, label+"new", 1, 4)
	return op
}

func genCase(t *rapid.T) Case {
	c := genCase0(t)
	// drawn last so that the rest of the case does not depend on it
	if rapid.Bool().Draw(t, "errstyled") {
		c.ErrStyle = rapid.SampledFrom(vkit.ErrStyles).Draw(t, "errstyle")
	}
	// refresh-token policy of the storage: rotate (a new string per refresh) or keep (the presented string is the new one)
	c.NoRotate = rapid.IntRange(0, 3).Draw(t, "norotate") == 0
	// audience of every grant: the owner (always), and in 1 of 3 cases ids of further registered clients
	if rapid.IntRange(0, 2).Draw(t, "audclients") == 0 {
		c.AudClients = rapid.SampledFrom([]int{15, 15, 15, 1, 2, 4, 8, 3, 5, 6, 9, 10, 12, 7, 11, 13, 14}).Draw(t, "audmask")
	}
	return c
}

func genCase0(t *rapid.T) Case {
	var c Case
	c.Conf = rapid.SampledFrom([]string{"client_secret_basic", "client_secret_post"}).Draw(t, "conf")
	c.SignAlg = rapid.SampledFrom([]string{"ES256", "ES256", "RS256"}).Draw(t, "signalg")
	for i := range c.Clients {
		c.Clients[i].NoRefresh = rapid.IntRange(0, 11).Draw(t, fmt.Sprintf("norefresh%d", i)) == 5
		c.Clients[i].JWTAT = rapid.Bool().Draw(t, fmt.Sprintf("jwtat%d", i))
	}
	c.RefreshOff = rapid.SampledFrom([]string{"", "", "", "", "", "", "provider", "legacy", "both"}).Draw(t, "refreshoff")
	c.NarrowPersists = rapid.Bool().Draw(t, "narrowpersists")
	c.ExtraAud = rapid.Bool().Draw(t, "extraaud")
	if rapid.IntRange(0, 2).Draw(t, "regdata") != 0 {
		c.Reg = genReg(t)
		if rapid.Bool().Draw(t, "reg.bothissue") {
			// both confidential clients hold a grant (and have authenticated at the code exchange)
			a, b := genIssue(t, "ic."), genIssue(t, "ic2.")
			a.Client, b.Client = 0, 3
			c.Ops = append(c.Ops, a, b)
		}
	}
	nIssue := rapid.IntRange(1, 3).Draw(t, "nissue")
	for i := 0; i < nIssue; i++ {
		c.Ops = append(c.Ops, genIssue(t, fmt.Sprintf("i%d.", i)))
	}
	n := rapid.IntRange(1, vkit.Scale(14, 28)).Draw(t, "nops")
	for i := 0; i < n; i++ {
		label := fmt.Sprintf("o%d.", i)
		// SampledFrom favours the front of the list: single refresh ops first
		switch rapid.SampledFrom([]string{"refresh", "refresh", "refresh", "refresh", "refresh", "refresh", "narrow-widen", "narrow-widen", "rotate-replay", "grant", "grant", "issue", "secret", "secret-then-old", "secret-then-old", "reg"}).Draw(t, label+"kind") {
		case "issue":
			c.Ops = append(c.Ops, genIssue(t, label))
		case "grant":
			c.Ops = append(c.Ops, Op{Kind: "grant", Client: rapid.IntRange(0, 3).Draw(t, label+"client"), On: rapid.IntRange(0, 2).Draw(t, label+"on") == 0})
		case "reg":
			c.Ops = append(c.Ops, Op{Kind: "reg", Client: rapid.IntRange(0, 3).Draw(t, label+"client"), On: rapid.IntRange(0, 2).Draw(t, label+"on") == 0})
		case "secret":
			c.Ops = append(c.Ops, genSecretOp(t, label))
		case "secret-then-old":
			// the storage changes the secret of a lineage's client; then that lineage is refreshed with a secret of the past (or the new one)
			a := genSecretOp(t, label+"a.")
			b := validRefresh(t, label+"b.")
			a.ViaLin, a.Lin = true, b.Lin
			b.Pres = rapid.SampledFrom([]string{"old_secret", "old_secret", "old_secret", "right"}).Draw(t, label+"pres")
			c.Ops = append(c.Ops, a, b)
		case "narrow-widen":
			// a valid narrowing refresh followed by a request for more on the same lineage
			a := validRefresh(t, label+"a.")
			a.Scope = "subset"
			b := validRefresh(t, label+"b.")
			b.Lin = a.Lin
			b.Scope = rapid.SampledFrom([]string{"widenback", "orig", "superset", "absent"}).Draw(t, label+"widen")
			c.Ops = append(c.Ops, a, b)
		case "rotate-replay":
			a := validRefresh(t, label+"a.")
			b := validRefresh(t, label+"b.")
			b.Lin, b.Tok, b.Age = a.Lin, "old", 1
			c.Ops = append(c.Ops, a, b)
		default:
			c.Ops = append(c.Ops, genRefresh(t, label))
		}
	}
	return c
}

// ---- reference model (written from the statement; does not use pkg/op) -----------

type lineage struct {
	id       int
	client   int
	user     string
	orig     []string // scopes originally granted
	granted  []string // scopes currently granted (== orig unless the storage persists narrowing)
	tokens   []string // every refresh token of the lineage, the last one is live
	access   []string // access tokens, same order
	sub      string   // original id_token
	aud      []string
	authTime float64
	atAud    []string // audience of the original access token (as handed to the storage)
	jwtAud   []string // audience of the original JWT access token (nil: opaque)

	refreshes  int
	lastIssued []string
	narrowed   bool // some successful refresh issued a strict subset of the original grant
	widenTried bool // ... and a later request asked for more than the previous issuance
}

func (l *lineage) live() string { return l.tokens[len(l.tokens)-1] }

func toSet(l []string) map[string]bool {
	m := map[string]bool{}
	for _, s := range l {
		m[s] = true
	}
	return m
}

func subset(a, b []string) bool {
	sb := toSet(b)
	for _, s := range a {
		if !sb[s] {
			return false
		}
	}
	return true
}

func sameSet(a, b []string) bool { return subset(a, b) && subset(b, a) }

func dedupe(l []string) []string {
	var out []string
	seen := map[string]bool{}
	for _, s := range l {
		if !seen[s] {
			seen[s] = true
			out = append(out, s)
		}
	}
	return out
}

// scopeClass classifies a scope parameter against the lineage: what the statement says about it.
//
//	absent / within  -> no objection
//	outside-original -> must be refused with invalid_scope
//	widen-back       -> inside the original grant but outside the (persistently narrowed) current grant: accepting would
//	                    make the granted scope grow again, so it must be refused (error code not asserted)
//	malformed        -> empty scope-token ("scope=" or stray spaces): not a scope list at all, statement silent (grey)
func scopeClass(present bool, req, granted, orig []string) string {
	if !present {
		return "absent"
	}
	for _, s := range req {
		if s == "" {
			return "malformed"
		}
	}
	if subset(req, granted) {
		return "within"
	}
	if subset(req, orig) {
		return "widen-back"
	}
	return "outside-original"
}

// ---- execution -----------------------------------------------------------------

const issuer = "https://op.example.com"

type world struct {
	c        Case
	res      *vkit.Result
	st       *vkit.Store
	n        int // number of clients: 3, with Case.Reg 4
	specs    []*vkit.ClientSpec
	hasGrant []bool
	exists   []bool         // the storage knows the client
	past     [][]string     // secrets the storage accepted for the client earlier in the history (oldest first)
	agents   [2]*vkit.Agent // 0 provider router, 1 legacy router
	off      [2]bool
	lins     []*lineage
	known    map[string]bool // every refresh token string the model has seen
	labels   map[string]bool
	sig      []string

	stop                               bool // a violation was recorded after which the model may be out of step
	judged, greyOps, accepted, refused int
	foreignTried, replayTried          bool
	unidentTried                       bool // a request that names no client presented a live refresh token

	// concurrent steps (interleave_test.go)
	gateJ0     int // journal length when the first gate was registered (the store counts calls per method from then on); -1: no gate yet
	parSteps   int
	parOverlap bool // some step had >= 2 requests on one live refresh token in flight at once (a gate held one of them while another one ran)
}

func (w *world) label(l ...string) {
	for _, x := range l {
		w.labels[x] = true
	}
}

func routerName(legacy bool) string {
	if legacy {
		return "legacy"
	}
	return "provider"
}

func redirectOf(i int) string {
	switch i {
	case 1:
		return "http://localhost/cb"
	case 2:
		return "https://jwt.example.com/cb"
	}
	return "https://rp.example.com/cb"
}

func clientName(i int) string { return []string{"conf", "pub", "pkj", "conf2"}[i] }

func redirectOf4(i int) string {
	if i == 3 {
		return "https://rp2.example.com/cb"
	}
	return redirectOf(i)
}

func grantsFor(refresh bool) []string {
	if refresh {
		return []string{vkit.GCode, vkit.GRefr}
	}
	return []string{vkit.GCode}
}

func newWorld(c Case, res *vkit.Result) *world {
	w := &world{c: c, res: res, known: map[string]bool{}, labels: map[string]bool{}, gateJ0: -1}
	w.specs = []*vkit.ClientSpec{
		{ID: "conf", Secret: "secret-conf", AppType: "web", AuthMethod: c.Conf},
		{ID: "pub", AppType: "native", AuthMethod: "none"},
		{ID: "pkj", AppType: "web", AuthMethod: "private_key_jwt", Keys: map[string]string{"kj": "rsa2"}},
	}
	cfgs := append([]ClientCfg{}, c.Clients[:]...)
	if r := c.Reg; r != nil {
		m := "client_secret_basic"
		if r.Conf2Post {
			m = "client_secret_post"
		}
		w.specs = append(w.specs, &vkit.ClientSpec{AppType: "web", AuthMethod: m})
		cfgs = append(cfgs, r.Conf2)
		seen := map[string]bool{}
		for i, s := range w.specs {
			s.ID = r.IDs[i]
			for s.ID == "" || seen[s.ID] { // hand-written / fuzzed cases: keep the ids distinct and non-empty
				s.ID += fmt.Sprintf("x%d", i)
			}
			seen[s.ID] = true
		}
		w.specs[0].Secret, w.specs[3].Secret = r.Secrets[0], r.Secrets[1]
		w.label("reg:names-as-data")
		if a, b := w.specs[0].ID, w.specs[3].ID; strings.HasPrefix(a, b) || strings.HasPrefix(b, a) {
			w.label("reg:id-is-prefix-of-other-id")
		}
	}
	w.n = len(w.specs)
	w.hasGrant, w.exists, w.past = make([]bool, w.n), make([]bool, w.n), make([][]string, w.n)
	for i, s := range w.specs {
		w.hasGrant[i], w.exists[i] = !cfgs[i].NoRefresh, true
		s.GrantTypes = grantsFor(w.hasGrant[i])
		s.ResponseTypes = []string{"code"}
		s.RedirectURIs = []string{redirectOf4(i)}
		s.AllowedScopes = []string{vkit.CustomScope}
		s.JWTAccessToken = cfgs[i].JWTAT
	}
	sk := vkit.SignKeySpec{KeyName: "p256a", Alg: "ES256", KID: "sig-es"}
	if c.SignAlg == "RS256" {
		sk = vkit.SignKeySpec{KeyName: "rsa1", Alg: "RS256", KID: "sig-rs"}
	}
	pol := vkit.StorePolicy{NarrowPersists: c.NarrowPersists, ErrStyle: c.ErrStyle, NoRotate: c.NoRotate}
	if c.ExtraAud {
		pol.ExtraAudience = []string{"https://api.example.com"}
	}
	for i, s := range w.specs {
		if c.AudClients&(1<<i) != 0 {
			pol.ExtraAudience = append(pol.ExtraAudience, s.ID)
			w.label("aud:names-registered-clients")
		}
	}
	w.st = vkit.NewStore(w.specs, sk, pol)
	w.off[0] = c.RefreshOff == "provider" || c.RefreshOff == "both"
	w.off[1] = c.RefreshOff == "legacy" || c.RefreshOff == "both"
	for i, router := range []string{"provider", "legacy"} {
		spec := vkit.DefaultProviderSpec(router)
		spec.Refresh = !w.off[i]
		w.agents[i] = vkit.NewAgent(vkit.MustBuild(spec, w.st))
	}
	return w
}

func b2i(b bool) int {
	if b {
		return 1
	}
	return 0
}

func jwtPayload(tok string) map[string]any {
	t, ok := vkit.SplitCompact(tok)
	if !ok {
		return nil
	}
	b, err := vkit.UnB64(t.Payload)
	if err != nil {
		return nil
	}
	return (&vkit.Resp{Body: b}).JSON()
}

func audOf(m map[string]any) []string {
	switch a := m["aud"].(type) {
	case string:
		return []string{a}
	case []any:
		var out []string
		for _, x := range a {
			if s, ok := x.(string); ok {
				out = append(out, s)
			}
		}
		return out
	}
	return nil
}

func scopeField(r *vkit.Resp) []string {
	s := r.Str("scope")
	if s == "" {
		return nil
	}
	return strings.Split(s, " ")
}

func (w *world) tables() (int, int) { return len(w.st.Refresh), len(w.st.Tokens) }

func (w *world) issue(i int, op Op) {
	ci := op.Client % w.n
	cl := w.specs[ci]
	user := vkit.AllUserIDs[op.User%len(vkit.AllUserIDs)]
	ag := w.agents[b2i(op.Legacy)]
	q := vkit.AuthParams(cl, redirectOf4(ci), "code", strings.Join(op.Scopes, " "), "st", fmt.Sprintf("nonce-%d", i))
	verifier := ""
	if cl.AuthMethod == "none" {
		verifier = fmt.Sprintf("verifier-%d-abcdefghijklmnopqrstuvwxyz0123456789abcdef", i)
		q.Set("code_challenge", vkit.S256(verifier))
		q.Set("code_challenge_method", "S256")
	}
	fl := ag.RunAuth(q, user)
	if fl.Code == "" {
		w.label("issue:no-code")
		return
	}
	r := ag.Token(vkit.CodeExchangeForm(fl.Code, redirectOf4(ci), verifier), vkit.RightCred(cl, issuer))
	if r.Panic != nil {
		w.res.Fail("C07:panic@"+r.PanicFrame(), "op %d: code exchange panicked: %v", i, r.Panic)
		w.stop = true
		return
	}
	if !r.Success() {
		w.label("issue:exchange-refused")
		return
	}
	rt := r.Str("refresh_token")
	if rt == "" {
		w.label("issue:no-refresh-token")
		return
	}
	idt := jwtPayload(r.Str("id_token"))
	if !sameSet(scopeField(r), op.Scopes) || idt == nil {
		// the premise "this lineage was granted exactly op.Scopes" is not established; not C07's subject
		w.label("issue:anomaly")
		return
	}
	l := &lineage{id: len(w.lins), client: ci, user: user, orig: op.Scopes, granted: op.Scopes, tokens: []string{rt}, access: []string{r.Str("access_token")}}
	l.sub, _ = idt["sub"].(string)
	l.aud = audOf(idt)
	l.authTime, _ = idt["auth_time"].(float64)
	if snap, ok := w.st.RefreshSnapshot(rt); ok {
		if at, ok := w.st.TokenSnapshot(snap.AccessID); ok {
			l.atAud = at.Audience
		}
	}
	if cl.JWTAccessToken {
		if p := jwtPayload(r.Str("access_token")); p != nil {
			l.jwtAud = audOf(p)
		}
	}
	l.lastIssued = op.Scopes
	w.lins = append(w.lins, l)
	w.known[rt] = true
	w.label("issue:lineage:" + clientName(ci))
	if w.off[b2i(op.Legacy)] {
		w.label("issue:on-refresh-disabled-deployment")
	}
}

// present builds the credential presentation of client ci. ok reports whether it authenticates (or, for the public
// client, identifies) that client.
func (w *world) present(ci int, pres string, sel int) (cred vkit.Cred, ok bool, kind string) {
	cl := w.specs[ci]
	if isUnident(pres) {
		// nobody is named: ci only lends its secret (a right secret without a name still names nobody)
		secret := ""
		if sel&2 != 0 {
			secret = cl.Secret
		}
		kind = "unidentified:" + pres
		switch pres {
		case "empty_id": // client_id= (added to the form by prepare)
			return vkit.Cred{Kind: "none"}, false, kind
		case "empty_id_secret":
			return vkit.Cred{Kind: "post", ClientID: "", Secret: secret}, false, kind
		case "basic_empty_user":
			return vkit.Cred{Kind: "rawbasic", Raw: "Basic " + base64.StdEncoding.EncodeToString([]byte(":"+secret))}, false, kind
		case "empty_assertion":
			return vkit.Cred{Kind: "assertion", Assertion: ""}, false, kind
		}
		return vkit.Cred{Kind: "none"}, false, kind // no client_id parameter, no Authorization header, no assertion
	}
	if cl.AuthMethod == "none" {
		return vkit.Cred{Kind: "none", ClientID: cl.ID}, true, "public-identified"
	}
	switch pres {
	case "old_secret", "other_secret", "shifted_secret":
		secret, kind := w.builtSecret(ci, pres, sel)
		// the named client is authenticated iff the string is what the storage accepts for it NOW, however it was arrived at
		ok = cl.Secret != "" && secret == cl.Secret
		if ok {
			kind = "authenticated:" + cl.AuthMethod + ":" + kind + "-equals-current"
		}
		cred = vkit.Cred{Kind: "post", ClientID: cl.ID, Secret: secret}
		if cl.AuthMethod == "client_secret_basic" {
			cred.Kind = "basic"
		}
		return cred, ok, kind
	}
	switch pres {
	case "wrong_secret":
		return vkit.Cred{Kind: "post", ClientID: cl.ID, Secret: "not-the-secret"}, false, "wrong-secret"
	case "id_only":
		return vkit.Cred{Kind: "none", ClientID: cl.ID}, false, "id-only"
	case "bad_assertion":
		// names the client, signed with a key that is not registered for it
		a := vkit.AssertionWith(cl.ID, cl.ID, []string{issuer}, "kj", "rsa3", time.Now().Add(-5*time.Second), time.Now().Add(5*time.Minute), nil)
		return vkit.Cred{Kind: "assertion", Assertion: a}, false, "bad-assertion"
	}
	if cl.AuthMethod != "private_key_jwt" && cl.Secret == "" {
		// the storage holds no secret for the client (any more): nothing it could present authenticates it
		return vkit.RightCred(cl, issuer), false, "secret-removed"
	}
	return vkit.RightCred(cl, issuer), true, "authenticated:" + cl.AuthMethod
}

// builtSecret builds a secret string for a request that names client ci out of what the storage knows or knew.
func (w *world) builtSecret(ci int, pres string, sel int) (string, string) {
	cl := w.specs[ci]
	pick := sel >> 3
	var others []*vkit.ClientSpec // the other clients that hold a secret
	for j, s := range w.specs {
		if j != ci && s.Secret != "" {
			others = append(others, s)
		}
	}
	switch pres {
	case "old_secret":
		if h := w.past[ci]; len(h) > 0 {
			return h[len(h)-1-pick%len(h)], "old-secret"
		}
	case "shifted_secret":
		// cl.ID + s == other.ID + other.Secret with s != "": whoever compares (or remembers) id and secret glued together is fooled
		var cand []string
		for _, o := range others {
			whole := o.ID + o.Secret
			if strings.HasPrefix(whole, cl.ID) && len(whole) > len(cl.ID) && o.ID != cl.ID {
				cand = append(cand, whole[len(cl.ID):])
			}
		}
		if len(cand) > 0 {
			return cand[pick%len(cand)], "shifted-secret"
		}
	}
	if pres != "old_secret" && len(others) > 0 {
		return others[pick%len(others)].Secret, "other-client-secret"
	}
	return "not-the-secret", "wrong-secret"
}

func isUnident(pres string) bool {
	for _, p := range unidentPres {
		if p == pres {
			return true
		}
	}
	return false
}

func pickOutside(orig []string, extra int) string {
	var cand []string
	so := toSet(orig)
	for _, s := range grantable {
		if !so[s] {
			cand = append(cand, s)
		}
	}
	cand = append(cand, never...)
	return cand[extra%len(cand)]
}

func insertAt(l []string, pos int, s string) []string {
	pos = pos % (len(l) + 1)
	out := append([]string{}, l[:pos]...)
	out = append(out, s)
	return append(out, l[pos:]...)
}

// scopeParam resolves the symbolic scope relation against the lineage's current state.
func scopeParam(op Op, l *lineage) (present bool, raw string) {
	g := l.granted
	sub := func() []string {
		var out []string
		for i, s := range g {
			if op.Sel&(1<<(i%8)) != 0 {
				out = append(out, s)
			}
		}
		if len(out) == 0 {
			out = []string{g[op.Sel%len(g)]}
		}
		return out
	}
	switch op.Scope {
	case "equal":
		return true, strings.Join(g, " ")
	case "permuted":
		r := append([]string{}, g...)
		for i, j := 0, len(r)-1; i < j; i, j = i+1, j-1 {
			r[i], r[j] = r[j], r[i]
		}
		return true, strings.Join(r, " ")
	case "subset":
		return true, strings.Join(sub(), " ")
	case "duplicate":
		s := sub()
		return true, strings.Join(append(s, s[0]), " ")
	case "superset":
		base := g
		if op.Sel&128 != 0 {
			base = sub()
		}
		return true, strings.Join(insertAt(base, op.Sel, pickOutside(l.orig, op.Extra)), " ")
	case "widenback":
		var lost []string
		sg := toSet(g)
		for _, s := range l.orig {
			if !sg[s] {
				lost = append(lost, s)
			}
		}
		x := pickOutside(l.orig, op.Extra)
		if len(lost) > 0 {
			x = lost[op.Extra%len(lost)]
		}
		return true, strings.Join(insertAt(sub(), op.Sel, x), " ")
	case "orig":
		// the full original grant: within the grant unless the storage narrowed it persistently (then: widening back)
		return true, strings.Join(l.orig, " ")
	case "disjoint":
		r := []string{pickOutside(l.orig, op.Extra)}
		if op.Sel&1 != 0 {
			r = append(r, pickOutside(l.orig, op.Extra+1))
		}
		return true, strings.Join(dedupe(r), " ")
	case "empty":
		return true, ""
	case "spaces":
		return true, []string{" " + g[0], g[0] + " ", strings.Join(g, "  "), " "}[op.Sel%4]
	}
	return false, ""
}

func createCalls(calls []vkit.JEntry) (both []vkit.JEntry, accessOnly int) {
	for _, e := range calls {
		switch e.Method {
		case "CreateAccessAndRefreshTokens":
			both = append(both, e)
		case "CreateAccessToken":
			accessOnly++
		}
	}
	return
}

// send issues the token request with its parameters placed as op.In says (credentials in the form travel with the form).
func send(ag *vkit.Agent, form url.Values, cred vkit.Cred, in string) *vkit.Resp {
	if in == "" {
		return ag.Token(form, cred)
	}
	hdr := http.Header{}
	f := url.Values{}
	for k, v := range form {
		f[k] = v
	}
	cred.Apply(f, hdr)
	path := ag.S.Paths["token"]
	split := func(key string) *vkit.Resp {
		q := url.Values{key: f[key]}
		f.Del(key)
		return ag.Post(path+"?"+q.Encode(), f, hdr)
	}
	switch in {
	case "query-grant":
		return split("grant_type")
	case "query-token":
		return split("refresh_token")
	case "query-client":
		return split("client_id")
	case "query-all":
		return ag.Post(path+"?"+f.Encode(), url.Values{}, hdr)
	case "get":
		return ag.Get(path, f, hdr)
	}
	return ag.Post(path, f, hdr)
}

// attempt is one refresh request: operands resolved against the model, verdict of the model, then the answer.
type attempt struct {
	i        int
	op       Op
	router   string
	ag       *vkit.Agent
	l        *lineage
	state    string // live | replayed | unknown
	token    string // presented refresh token
	caller   int
	cred     vkit.Cred
	authOK   bool
	unident  bool // the presentation names no client at all
	presKind string
	form     url.Values
	sclass   string
	req      []string
	bound    []string // scopes granted when the request was made (the issuance must stay within them)
	reasons  []string
	verdict  string // accept | refuse | grey
	desc     string
	resp     *vkit.Resp
}

func (a *attempt) class() string {
	if a.verdict == "refuse" {
		return "refuse:" + strings.Join(a.reasons, "+")
	}
	return a.verdict
}

// prepare resolves the symbolic operands of a refresh op against the model and computes the model's verdict (nil: skip the op).
func (w *world) prepare(i int, op Op) *attempt {
	for _, p := range []*int{&op.Lin, &op.Who, &op.Client, &op.Sel, &op.Extra, &op.Age} { // hand-written replay files
		if *p < 0 {
			*p = -*p
		}
	}
	a := &attempt{i: i, op: op, router: routerName(op.Legacy), ag: w.agents[b2i(op.Legacy)]}
	ri := b2i(op.Legacy)

	// ---- resolve the symbolic operands
	var l *lineage
	state := "unknown"
	token := ""
	if len(w.lins) > 0 {
		l = w.lins[op.Lin%len(w.lins)]
	}
	switch {
	case l != nil && op.Tok == "live":
		state, token = "live", l.live()
	case l != nil && op.Tok == "old" && len(l.tokens) >= 2:
		age := op.Age
		if age < 1 {
			age = 1
		}
		if age > len(l.tokens)-1 {
			age = len(l.tokens) - 1
		}
		state, token = "replayed", l.tokens[len(l.tokens)-1-age]
	case l != nil && op.Tok == "old":
		state, token = "live", l.live()
	default:
		kind := op.Unknown
		if kind == "" {
			kind = "random"
		}
		if l == nil && (kind == "flipped" || kind == "suffixed" || kind == "access") {
			kind = "random"
		}
		switch kind {
		case "flipped":
			t := l.live()
			last := byte('A')
			if t[len(t)-1] == 'A' {
				last = 'B'
			}
			token = t[:len(t)-1] + string(last)
		case "suffixed":
			token = l.live() + "x"
		case "access":
			token = l.access[len(l.access)-1]
		case "empty":
			token = ""
		default:
			token = fmt.Sprintf("rt-%d-unknown", 1000+op.Sel)
		}
		if w.known[token] { // cannot happen by construction; keep the model honest
			w.label("refresh:unknown-collided")
			return nil
		}
		w.label("unknown-token:" + kind)
	}
	caller := op.Client % w.n
	if l != nil && op.Who > 0 {
		caller = (l.client + 1 + (op.Who-1)%(w.n-1)) % w.n // never the owner
	} else if l != nil {
		caller = l.client
	}
	unident := isUnident(op.Pres)
	if unident && l != nil {
		caller = l.client // there is no caller; the lineage's client stands in for labels and lends its secret
	}
	cred, authOK, presKind := w.present(caller, op.Pres, op.Sel)
	if op.ClaimID && l != nil && authOK && (cred.Kind == "basic" || cred.Kind == "assertion") {
		// the caller is who the Authorization header / assertion proves, whatever the form's client_id says
		cred.BodyID = w.specs[l.client].ID
		presKind += "+client_id-of-owner"
	}

	form := url.Values{"grant_type": {vkit.GRefr}, "refresh_token": {token}}
	if op.Pres == "empty_id" {
		form.Set("client_id", "")
	}
	if op.In == "query-client" {
		// only a request that carries a client_id parameter can carry it elsewhere
		f := url.Values{}
		for k, v := range form {
			f[k] = v
		}
		cred.Apply(f, http.Header{})
		if _, has := f["client_id"]; !has {
			op.In = ""
			a.op = op
		}
	}
	sclass := "n/a"
	var req []string
	if l != nil {
		present, raw := scopeParam(op, l)
		if present {
			form.Set("scope", raw)
			req = strings.Split(raw, " ")
		}
		sclass = scopeClass(present, req, l.granted, l.orig)
		a.bound = l.granted
	}

	// ---- verdict of the model
	var reasons []string
	if w.off[ri] {
		reasons = append(reasons, "provider-disabled")
	}
	switch state {
	case "unknown":
		reasons = append(reasons, "unknown-token")
	case "replayed":
		reasons = append(reasons, "replayed-token")
	}
	switch {
	case unident:
		// "only for the (authenticated, or public and identified) client": a caller that names no client is none of them
		reasons = append(reasons, "unidentified")
	default:
		if state != "unknown" && caller != l.client {
			reasons = append(reasons, "foreign-client")
		}
		if !authOK {
			reasons = append(reasons, "unauthenticated")
		}
		if !w.exists[caller] {
			reasons = append(reasons, "client-deleted")
		} else if !w.hasGrant[caller] {
			reasons = append(reasons, "client-not-registered")
		}
	}
	if state == "live" {
		switch sclass {
		case "outside-original":
			reasons = append(reasons, "scope-outside-original")
		case "widen-back":
			reasons = append(reasons, "scope-widen-back")
		}
	}
	verdict := "accept"
	switch {
	case len(reasons) > 0:
		verdict = "refuse"
	case sclass == "malformed":
		verdict = "grey"
	case op.In != "":
		// the statement does not say that parameters in the URL query (or a GET) have to be served; what it forbids is forbidden wherever they travel
		verdict = "grey"
	}

	// bookkeeping for the non-triviality rule
	if state == "live" && caller != l.client {
		w.foreignTried = true
		if !unident && toSet(l.aud)[w.specs[caller].ID] {
			// the audience of a grant says who may be SENT the tokens, the binding is to the client they were issued to
			w.label("foreign:named-in-audience:"+a.router, "foreign:named-in-audience:"+presKind)
			if authOK && w.exists[caller] && w.hasGrant[caller] && !w.off[ri] {
				w.label("foreign:named-in-audience:nothing-else-wrong:" + a.router)
			}
		}
	}
	if state == "live" && !unident && caller == l.client && !authOK {
		switch presKind {
		case "old-secret", "shifted-secret", "other-client-secret", "secret-removed":
			w.label("owner:" + presKind + ":" + a.router)
		}
	}
	if state == "live" && unident {
		w.unidentTried = true
		w.label("unident:" + op.Pres + ":" + clientName(l.client) + "-token:" + a.router)
	}
	if state == "replayed" {
		w.replayTried = true
	}
	if state == "live" && l.narrowed && req != nil && !subset(req, l.lastIssued) {
		l.widenTried = true
	}

	a.l, a.state, a.token, a.caller = l, state, token, caller
	a.cred, a.authOK, a.unident, a.presKind = cred, authOK, unident, presKind
	a.form, a.sclass, a.req = form, sclass, req
	a.reasons, a.verdict = reasons, verdict
	a.desc = fmt.Sprintf("op %d (%s router): refresh of %s token of lineage %s by client %q (%s), scope %q (%s)", i, a.router, state, linDesc(l), callerName(w, caller, unident), presKind, form.Get("scope"), sclass)
	if op.In != "" {
		a.desc += ", parameters: " + op.In
	}
	return a
}

func callerName(w *world, caller int, unident bool) string {
	if unident {
		return ""
	}
	return w.specs[caller].ID
}

// account puts the attempt into the label histogram, the distinctness signature and the judged / grey counters.
func (w *world) account(a *attempt, prefix string) {
	router, class, op := a.router, a.class(), a.op
	switch {
	case a.verdict == "refuse" && len(a.reasons) > 1:
		w.label(prefix + "op:" + router + ":refuse:several-reasons")
	default:
		w.label(prefix + "op:" + router + ":" + class) // refuse:<reason> = that reason is the only thing wrong with the request
	}
	if a.sclass != "n/a" {
		w.label("scope:" + op.Scope + "->" + a.sclass)
	}
	w.label("pres:"+a.presKind, "token:"+a.state)
	place := ""
	if op.In != "" {
		place = "@" + op.In
		if a.verdict == "refuse" && len(a.reasons) == 1 {
			w.label("in:" + op.In + ":" + router + ":" + class)
		} else {
			w.label("in:" + op.In + ":" + router + ":" + a.verdict)
		}
	}
	w.sig = append(w.sig, fmt.Sprintf("%s%s/%s/%s/%s%s", prefix, router[:1], class, op.Scope, clientName(a.caller), place))
	if a.verdict == "grey" {
		w.greyOps++
	} else {
		w.judged++
	}
}

// refresh executes one refresh op; false = stop the history (a violation was recorded and the model may be out of step).
func (w *world) refresh(i int, op Op) bool {
	res := w.res
	a := w.prepare(i, op)
	if a == nil {
		return true
	}
	op = a.op // operands as resolved (placement normalised)
	l, router, token, verdict, reasons, sclass, desc := a.l, a.router, a.token, a.verdict, a.reasons, a.sclass, a.desc

	// ---- execute
	nr0, nt0 := w.tables()
	resp := send(a.ag, a.form, a.cred, op.In)
	a.resp = resp
	nr1, nt1 := w.tables()
	calls := w.st.CallsOf(resp.Req)
	both, accessOnly := createCalls(calls)
	w.account(a, "")

	if resp.Panic != nil {
		res.Fail("C07:panic@"+resp.PanicFrame(), "op %d: refresh request panicked: %v", i, resp.Panic)
		return false
	}

	if !resp.Success() {
		// ---- refusal: nothing may have been issued or rotated
		w.refused++
		if mat := resp.HasTokenMaterial(); len(mat) > 0 {
			res.Fail("C07:"+router+":token-material-in-refusal", "%s: answered %d but the body carries %v", desc, resp.Status, mat)
			return false
		}
		if len(both) > 0 || accessOnly > 0 || nr1 != nr0 || nt1 != nt0 {
			why := "valid"
			if len(reasons) > 0 {
				why = reasons[0]
			}
			res.Fail("C07:"+router+":created-on-refusal:"+why, "%s: answered %d %q but the storage was asked to create tokens (%d rotate calls, %d access-only calls; refresh table %d->%d, token table %d->%d)",
				desc, resp.Status, resp.OAuthError(), len(both), accessOnly, nr0, nr1, nt0, nt1)
			return false
		}
		if verdict == "accept" {
			res.Fail("C07:"+router+":refused-valid:"+sclass, "%s: must succeed (owner, authenticated/identified, registered, enabled, live token, scope within grant %v) but was answered %s", desc, l.granted, brief(resp))
			return false
		}
		if len(reasons) == 1 && reasons[0] == "scope-outside-original" {
			if e := resp.OAuthError(); e != "invalid_scope" {
				res.Fail("C07:"+router+":scope-refusal-not-invalid_scope", "%s: requested scope is not within the original grant %v and nothing else is wrong: the error must be invalid_scope, got %s", desc, l.orig, brief(resp))
				return false
			}
			w.label("invalid_scope-confirmed:" + router)
		}
		if resp.OAuthError() == "" {
			w.label("refusal-without-error-member")
		}
		if op.In != "" && verdict == "grey" && sclass != "malformed" {
			w.label("in:" + op.In + ":" + router + ":valid-but-not-served")
		}
		return true
	}

	// ---- success
	w.accepted++
	if op.In != "" {
		w.label("in:" + op.In + ":" + router + ":served")
	}
	if verdict == "refuse" {
		res.Fail("C07:"+router+":accepted:"+reasons[0], "%s: must be refused (%s%s) but was answered %s", desc, strings.Join(reasons, ", "), grantsNote(a), brief(resp))
		return false
	}
	// from here on: token live, caller is the owner, lineage known
	newRT := resp.Str("refresh_token")
	if len(both) != 1 || accessOnly != 0 {
		res.Fail("C07:"+router+":no-rotation-call", "%s: succeeded but the journal shows %d CreateAccessAndRefreshTokens and %d CreateAccessToken calls (want exactly one rotation)", desc, len(both), accessOnly)
		return false
	}
	if cur := both[0].Args[1]; cur != token {
		res.Fail("C07:"+router+":rotation-current-mismatch", "%s: the storage was asked to rotate %q, the presented refresh token was %q", desc, cur, token)
		return false
	}
	// the response carries what the storage answered to that call: a new string (rotating storage) or the presented one (keeping storage)
	snap, exists := w.st.RefreshSnapshot(newRT)
	if w.c.NoRotate {
		w.label("store-answer:kept-token:" + router)
		if newRT != token || !exists || snap.Dead || nr1 != nr0 {
			res.Fail("C07:"+router+":refresh-token-not-from-storage", "%s: the storage keeps refresh tokens and answered the rotation call with the presented token %q, the response carries refresh_token %q (in storage=%v, dead=%v, refresh table %d->%d)",
				desc, token, newRT, exists, snap.Dead, nr0, nr1)
			return false
		}
	} else {
		if newRT == "" || newRT == token || w.known[newRT] || !exists || snap.Dead || nr1 != nr0+1 {
			res.Fail("C07:"+router+":refresh-token-not-from-storage", "%s: response refresh_token %q is not the token the storage created for this rotation (presented %q, in storage=%v, dead=%v, seen before=%v, refresh table %d->%d)",
				desc, newRT, token, exists, snap.Dead, w.known[newRT], nr0, nr1)
			return false
		}
		if old, ok := w.st.RefreshSnapshot(token); !ok || !old.Dead {
			res.Fail("C07:"+router+":old-token-still-live", "%s: succeeded but the presented token was not rotated out by the storage", desc)
			return false
		}
	}
	if !w.judgeIssued(a, snap, true) {
		return false
	}
	w.step(a, newRT, scopeField(resp), nil)
	return true
}

func grantsNote(a *attempt) string {
	if a.l == nil || len(a.reasons) == 0 || !strings.HasPrefix(a.reasons[0], "scope-") {
		return ""
	}
	s := fmt.Sprintf("; original grant %v", a.l.orig)
	if !sameSet(a.l.orig, a.bound) {
		s += fmt.Sprintf(", current grant %v", a.bound)
	}
	return s
}

// judgeIssued judges what a successful refresh issued (a.resp; snap = storage record of the refresh token the response
// carries): bound to the lineage's client and subject, scope within the grant that was current when the request was made,
// id_token / access token continuity. exclusive: no other request touched the record since (snap.AccessID is this request's).
func (w *world) judgeIssued(a *attempt, snap vkit.RefreshTok, exclusive bool) bool {
	res, l, router, desc, resp, op := w.res, a.l, a.router, a.desc, a.resp, a.op
	if snap.ClientID != w.specs[l.client].ID || snap.Subject != l.user {
		res.Fail("C07:"+router+":new-refresh-token-rebound", "%s: new refresh token is bound to client %q subject %q, lineage belongs to client %q subject %q", desc, snap.ClientID, snap.Subject, w.specs[l.client].ID, l.user)
		return false
	}

	// scope: never more than what is currently granted (hence never more than the original grant)
	issued := scopeField(resp)
	at, atOK := w.st.TokenSnapshot(snap.AccessID)
	for _, obs := range []struct {
		where  string
		scopes []string
		ok     bool
	}{{"response scope", issued, true}, {"access token handed to the storage", at.Scopes, atOK}, {"new refresh token's grant in the storage", snap.Scopes, true}} {
		if !obs.ok {
			continue
		}
		if !subset(obs.scopes, a.bound) {
			bound := "original grant"
			if !subset(obs.scopes, l.orig) {
				res.Fail("C07:"+router+":scope-grew-beyond-original", "%s: %s is %v, original grant is %v", desc, obs.where, obs.scopes, l.orig)
				return false
			}
			if w.c.NarrowPersists {
				bound = "persistently narrowed grant"
			}
			res.Fail("C07:"+router+":scope-grew", "%s: %s is %v, which exceeds the %s %v", desc, obs.where, obs.scopes, bound, a.bound)
			return false
		}
	}
	if a.req != nil && a.verdict == "accept" && !sameSet(issued, a.req) {
		w.label("issued-differs-from-requested") // statement only bounds the scope from above; not asserted
	}

	// id_token continuity
	idt := jwtPayload(resp.Str("id_token"))
	if idt == nil {
		w.label("refresh:no-id-token")
	} else {
		sub, _ := idt["sub"].(string)
		switch {
		case sub == l.sub && sub == l.user:
		case sub == "" && !toSet(issued)["openid"]:
			// the subject must survive narrowing "openid" away. Before /repo's "fix: ID token keeps its subject when the
			// userinfo carries none", IDTokenClaims.SetUserInfo overwrote it with the empty subject of the userinfo a
			// scope-driven storage (vkit's, and the repo's example storage) fills in (replays/C07/idtoken-sub-lost-*).
			// The model is not out of step after this finding, so the history goes on.
			res.Fail("C07:idtoken-sub-lost:openid-narrowed-away", "%s: the refreshed id_token has no sub (original subject %q); issued scope %v no longer contains openid", desc, l.sub, issued)
		default:
			res.Fail("C07:"+router+":idtoken-sub-changed", "%s: id_token sub %q, original subject %q", desc, sub, l.sub)
			return false
		}
		if aud := audOf(idt); !sameSet(aud, l.aud) || !toSet(aud)[w.specs[l.client].ID] {
			res.Fail("C07:"+router+":idtoken-aud-changed", "%s: id_token aud %v, original audience %v", desc, aud, l.aud)
			return false
		}
		if atm, _ := idt["auth_time"].(float64); atm != l.authTime {
			res.Fail("C07:"+router+":idtoken-auth_time-changed", "%s: id_token auth_time %v, original %v", desc, idt["auth_time"], l.authTime)
			return false
		}
	}
	// access token: subject and audience
	if atOK {
		if at.Subject != l.user || at.ClientID != w.specs[l.client].ID {
			res.Fail("C07:"+router+":access-token-sub-changed", "%s: access token created for subject %q client %q, lineage is %q / %q", desc, at.Subject, at.ClientID, l.user, w.specs[l.client].ID)
			return false
		}
		if !sameSet(at.Audience, l.atAud) {
			res.Fail("C07:"+router+":access-token-aud-changed", "%s: access token audience %v, original %v", desc, at.Audience, l.atAud)
			return false
		}
	}
	if w.specs[l.client].JWTAccessToken && l.jwtAud != nil {
		if p := jwtPayload(resp.Str("access_token")); p != nil {
			w.label("observed:jwt-access-token")
			if s, _ := p["sub"].(string); s != l.user {
				res.Fail("C07:"+router+":access-token-sub-changed", "%s: JWT access token sub %q, original subject %q", desc, s, l.user)
				return false
			}
			if !sameSet(audOf(p), l.jwtAud) {
				res.Fail("C07:"+router+":access-token-aud-changed", "%s: JWT access token aud %v, original %v", desc, audOf(p), l.jwtAud)
				return false
			}
		}
	}
	if op.Introspect && l.client != 1 && exclusive {
		ic := vkit.RightCred(w.specs[l.client], issuer)
		if l.client == 0 || l.client == 3 {
			ic = vkit.Cred{Kind: "basic", ClientID: w.specs[l.client].ID, Secret: w.specs[l.client].Secret}
		}
		in := a.ag.Introspect(resp.Str("access_token"), ic)
		if m := in.JSON(); in.Success() && m != nil && m["active"] == true {
			w.label("observed:introspection")
			isc, _ := m["scope"].(string)
			if s, _ := m["sub"].(string); s != l.user {
				res.Fail("C07:"+router+":access-token-sub-changed", "%s: introspection sub %q, original subject %q", desc, s, l.user)
				return false
			}
			if isc != "" && !subset(strings.Split(isc, " "), a.bound) {
				res.Fail("C07:"+router+":scope-grew", "%s: introspection of the new access token reports scope %q, currently granted %v", desc, isc, a.bound)
				return false
			}
			if !sameSet(audOf(m), l.atAud) {
				res.Fail("C07:"+router+":access-token-aud-changed", "%s: introspection aud %v, original %v", desc, audOf(m), l.atAud)
				return false
			}
		} else {
			w.label("introspection-unavailable")
		}
	}
	return true
}

// step advances the model after a successful refresh. granted (concurrent steps with a keeping storage whose narrowing
// persists: the record's scope list as the storage left it) overrides "what this request was issued" as the new grant.
func (w *world) step(a *attempt, newRT string, issued, granted []string) {
	l := a.l
	if newRT != l.live() {
		l.tokens = append(l.tokens, newRT)
		w.known[newRT] = true
	}
	l.access = append(l.access, a.resp.Str("access_token"))
	l.refreshes++
	l.lastIssued = dedupe(issued)
	if !sameSet(issued, l.orig) {
		l.narrowed = true
		w.label("chain:narrowing-refresh")
		if !toSet(issued)["openid"] {
			w.label("chain:openid-narrowed-away")
		}
	}
	if w.c.NarrowPersists {
		l.granted = dedupe(issued)
		if granted != nil {
			l.granted = dedupe(granted)
		}
		if len(l.granted) == 0 { // cannot be narrowed to nothing by a well-formed request; keep the model defined
			l.granted = l.orig
		}
	}
	if l.refreshes >= 2 {
		w.label("chain:len>=2")
	}
	if l.refreshes >= 4 {
		w.label("chain:len>=4")
	}
}

// setRegistered deletes a client from the storage / registers it again (same registration; tokens issued to it stay where they are).
func (w *world) setRegistered(ci int, on bool) {
	if w.exists[ci] == on {
		return
	}
	w.exists[ci] = on
	if on {
		w.st.Clients[w.specs[ci].ID] = w.specs[ci]
		w.label("reg:client-registered-again")
	} else {
		delete(w.st.Clients, w.specs[ci].ID)
		w.label("reg:client-deleted")
	}
}

// changeSecret: the storage's view of a confidential client's secret changes between two requests.
func (w *world) changeSecret(op Op) {
	var secretClients []int
	for i, s := range w.specs {
		if s.AuthMethod == "client_secret_basic" || s.AuthMethod == "client_secret_post" {
			secretClients = append(secretClients, i)
		}
	}
	sel := op.Client
	if sel < 0 {
		sel = -sel
	}
	ci := secretClients[sel%len(secretClients)]
	if op.ViaLin && len(w.lins) > 0 {
		lin := op.Lin
		if lin < 0 {
			lin = -lin
		}
		if lc := w.lins[lin%len(w.lins)].client; lc == 0 || lc == 3 {
			ci = lc // the lineage's client holds a secret
		}
	}
	cl := w.specs[ci]
	next := op.New
	switch op.Change {
	case "remove":
		next = ""
	case "previous":
		if len(w.past[ci]) > 0 {
			next = w.past[ci][0]
		}
	case "others":
		for _, j := range secretClients {
			if j != ci && w.specs[j].Secret != "" {
				next = w.specs[j].Secret
			}
		}
	}
	if next == cl.Secret {
		w.label("secret:unchanged")
		return
	}
	if cl.Secret != "" {
		w.past[ci] = append(w.past[ci], cl.Secret)
	}
	// whether a string of the past is wrong NOW is decided when it is used (present): the storage may have gone back to it
	cl.Secret = next
	switch {
	case next == "":
		w.label("secret:removed")
	case op.Change == "previous" || op.Change == "others":
		w.label("secret:" + op.Change)
	default:
		w.label("secret:rotated")
	}
}

func linDesc(l *lineage) string {
	if l == nil {
		return "-"
	}
	return fmt.Sprintf("#%d(%s/%s, %d rotations)", l.id, clientName(l.client), l.user, len(l.tokens)-1)
}

// brief renders a token response without the token values (messages are cut at 600 characters by the driver).
func brief(r *vkit.Resp) string {
	if !r.Success() {
		b := string(r.Body)
		if len(b) > 120 {
			b = b[:120] + "..."
		}
		return fmt.Sprintf("%d %s", r.Status, strings.TrimSpace(b))
	}
	return fmt.Sprintf("%d with %s, scope=%q", r.Status, strings.Join(r.HasTokenMaterial(), "+"), r.Str("scope"))
}

func run(c Case) (res *vkit.Result) {
	res = &vkit.Result{}
	defer func() {
		if p := recover(); p != nil {
			st := string(debug.Stack())
			res.Fail("C07:panic@"+vkit.FirstLibFrame(st), "panic outside a request: %v\n%s", p, st)
		}
	}()
	w := newWorld(c, res)
loop:
	for i, op := range c.Ops {
		switch op.Kind {
		case "issue":
			w.issue(i, op)
		case "reg":
			w.setRegistered(op.Client%w.n, op.On)
		case "secret":
			w.changeSecret(op)
		case "grant":
			ci := op.Client % w.n
			w.hasGrant[ci] = op.On
			w.specs[ci].GrantTypes = grantsFor(op.On)
			if op.On {
				w.label("grant:restored")
			} else {
				w.label("grant:withdrawn")
			}
		case "refresh":
			if !w.refresh(i, op) {
				break loop
			}
		case "par":
			if op.Par != nil && !w.par(i, op.Par) {
				break loop
			}
		}
		if w.stop {
			break
		}
	}
	narrowThenWiden, maxChain := false, 0
	for _, l := range w.lins {
		if l.refreshes >= 2 && l.narrowed && l.widenTried {
			narrowThenWiden = true
		}
		if l.refreshes > maxChain {
			maxChain = l.refreshes
		}
	}
	if narrowThenWiden {
		w.label("nontrivial:narrow-then-widen")
	}
	if w.foreignTried {
		w.label("nontrivial:foreign-client")
	}
	if w.replayTried {
		w.label("nontrivial:replay")
	}
	if w.unidentTried {
		w.label("nontrivial:unidentified-caller")
	}
	if c.NarrowPersists {
		w.label("store:narrow-persists")
	} else {
		w.label("store:narrow-per-issuance")
	}
	if c.NoRotate {
		w.label("store:keeps-refresh-token")
	} else {
		w.label("store:rotates-refresh-token")
	}
	w.label("refresh-off:" + c.RefreshOff)
	if w.parOverlap {
		w.label("nontrivial:overlap-on-one-token")
	}
	for l := range w.labels {
		res.Labels = append(res.Labels, l)
	}
	sort.Strings(res.Labels)
	res.NonTrivial = narrowThenWiden || w.foreignTried || w.replayTried || w.unidentTried
	if w.parSteps > 0 {
		res.NonTrivial = w.parOverlap // concurrent histories: the rule is about the overlap
	}
	res.Grey = w.judged == 0
	res.Key = fmt.Sprintf("np=%v|nr=%v|off=%s|%s", c.NarrowPersists, c.NoRotate, c.RefreshOff, strings.Join(w.sig, ","))
	res.Info = map[string]any{"lineages": len(w.lins), "refresh_accepted": w.accepted, "refresh_refused": w.refused, "judged": w.judged, "grey_ops": w.greyOps, "max_chain": maxChain}
	return res
}

var prop = vkit.Prop[Case]{
	ID: "C07",
	Rule: "cases = histories on two deployments sharing one storage (op.Provider router / LegacyServer router chosen per op; refresh grant disabled on none / one / both): 1-3+ code exchanges (openid, mostly offline_access, random further scopes) by a confidential (basic|post), a public PKCE and a private_key_jwt client - in 2 of 3 cases registrations are data: a second confidential client, ids and secrets of all clients = strings of 1-4 letters over {a,b,1} (ids of the two confidential clients prefixes / extensions of each other in 2 of 3 of those, the secret of the shorter one often starting with what the longer id has more, sometimes one secret for both), often with a code exchange by both confidential clients first -, then up to 14 (thorough 28) ops: refresh(token = live / rotated / unknown{random,flipped,suffixed,access token,empty} of lineage #k; caller = owner / foreign client; presentation = right (optionally plus client_id=<owner> next to Basic / assertion) / wrong secret / a secret built from what the storage knows or knew {a secret the client had earlier in the history, another client's current secret, the string s with callerID+s == otherID+otherSecret} (authenticates iff it equals the named client's current secret) / client_id only / assertion by unregistered key / no client named at all, for tokens of every client kind {nothing: no client_id, no Authorization header, no assertion; client_id=; client_id= plus a secret; Basic with an empty user; empty client_assertion}; scope = absent / equal / permuted / subset / duplicate / full original / superset / widen-back / disjoint / empty / stray spaces; parameter placement = POST body / grant_type in the URL query / refresh_token in the URL query / client_id only in the URL query / everything in the URL query / GET; narrow->ask-for-more and rotate->replay pairs are generated on purpose), withdraw / restore a client's refresh grant, the storage changes a confidential client's secret between requests (new value / removed / back to an earlier value / the other client's value; pairs change->refresh-with-an-earlier-secret are generated on purpose), delete a client from the storage / register it again (its tokens stay), further code exchanges; storage policy narrowing persists on/off, refresh-token policy of the storage rotate (new string per refresh) / keep (1 in 4 cases: the storage answers the rotation call with the presented string, the token stays live), storage error styles, extra audience (an API; in 1 of 3 cases the ids of all / some registered clients - the storage puts every application of a project into the audience of a grant, so foreign callers are named in the audience of the token they present), opaque / JWT access tokens; " +
		"oracle = lineage model (must-accept iff owner + authenticated/identified + registered + enabled + live + scope within current grant; authenticated = the presented secret is the one the storage holds for the named client at the time of THIS request (no secret held: nothing authenticates); a deleted client is not registered; being named in the audience changes nothing: the binding is to the client the token was issued to; a request that names no client is must-refuse whatever the token's client is; empty scope-tokens grey; with parameters outside the body serving is not demanded (grey) but every refusal reason still binds and a success is judged in full) with journal assertions (exactly one CreateAccessAndRefreshTokens(current = presented) on success, no Create* and unchanged tables on refusal), response refresh_token = what the storage answered to that call (rotating storage: the record created by it, old token dead; keeping storage: the presented string, still live, refresh table unchanged), id_token sub/aud/auth_time and access-token sub/aud continuity, scope of every issuance within the current grant; " +
		"non-trivial = a lineage with >=2 successful refreshes containing a narrowing and a later request for more than the previous issuance, or a foreign-client attempt on a live token, or an attempt on a live token by a caller that names no client, or a replay of a rotated token; distinct = (narrow policy, rotation policy, disabled deployments, sequence of router/verdict+reasons/scope kind/caller/placement per refresh op)",
	Gen: genCase,
	Run: run,
}

func TestRapid(t *testing.T)  { prop.Check(t) }
func TestReplay(t *testing.T) { prop.Replay(t) }
