package c07

// Concurrent histories: an op of kind "par" puts 2-3 refresh requests in flight at once. The harness owns the
// interleaving: vkit gates park one storage call of a request (on entry or on exit) while the next request is started,
// and are released in a generated order. Everything else of the history (code exchanges, sequential refreshes before and
// after the step, registration changes) is as in TestRapid, so the model keeps being checked after the step.
//
// The oracle does not depend on the schedule that materialised. Every answer set must be explainable by SOME sequential
// order of the requests of the step:
//   - a request the model refuses for a reason no order can remove (disabled deployment, unknown / already rotated token,
//     foreign client, bad credentials, client not registered for the grant, scope outside the original grant or outside a
//     persistently narrowed grant - grants only shrink) is refused in every interleaving and receives no token material;
//   - every success was handed to the storage: per presented token, successes <= CreateAccessAndRefreshTokens(current =
//     presented) calls in the journal; each success carries a refresh token of its own that the storage created in this
//     step (rotating storage) or the presented one (keeping storage); issued scope within the grant at the start of the
//     step; id_token / access-token continuity as in the sequential oracle;
//   - the storage tables grew by exactly what the successes account for; no rotation call on behalf of a must-refuse request;
//   - completeness: if some request on a live token is valid, at least one request on that token succeeds (rotating
//     storage: the others lose the race legitimately); with a keeping storage whose narrowing does not persist every
//     valid request succeeds.
//
// Wall clock: a bound (parBound) limits how long the harness waits for "the request just started has finished or is
// parked"; it only decides which interleaving is produced (a request that blocks on another request's progress is left
// blocked and the gates are released), never a verdict.

import (
	"fmt"
	"sort"
	"strings"
	"testing"
	"time"

	"pgregory.net/rapid"

	"verif/harness/vkit"
)

type GateSpec struct {
	Method string `json:"method"`            // storage method whose next call is parked ("" = no gate)
	AtExit bool   `json:"at_exit,omitempty"` // park after the method computed its result (default: before it looked at its state)
	Skip   int    `json:"skip,omitempty"`    // park the (Skip+1)-th next call of the method instead of the next one
}

type Par struct {
	Reqs    []Op       `json:"reqs"`              // refresh ops, started in this order
	Gates   []GateSpec `json:"gates,omitempty"`   // gate k is registered right before request k is started
	Release int        `json:"release,omitempty"` // selects the order in which the parked calls are released
}

const (
	parBound = 150 * time.Millisecond
	parJoin  = vkit.GateTimeout + 15*time.Second
)

// ---- generator ------------------------------------------------------------------

var (
	// storage methods on the path of a refresh request (client authentication, lookup, rotation, token minting)
	gateMethods = []string{
		"TokenRequestByRefreshToken", "TokenRequestByRefreshToken", "TokenRequestByRefreshToken",
		"CreateAccessAndRefreshTokens", "CreateAccessAndRefreshTokens",
		"GetClientByClientID", "AuthorizeClientIDSecret", "GetKeyByIDAndClientID",
		"SigningKey", "SetUserinfoFromScopes", "GetPrivateClaimsFromScopes",
	}
	parVariants = []string{"same", "same", "other-scope", "narrowed", "foreign", "foreign", "superset", "superset", "wrong-creds", "other-router", "other-lineage", "any"}
)

func genGate(t *rapid.T, label string) GateSpec {
	g := GateSpec{Method: rapid.SampledFrom(gateMethods).Draw(t, label+"method")}
	g.AtExit = rapid.IntRange(0, 2).Draw(t, label+"exit") == 0
	if rapid.IntRange(0, 5).Draw(t, label+"skip") == 0 {
		g.Skip = 1
	}
	return g
}

func genPar(t *rapid.T, label string) Op {
	p := &Par{}
	first := validRefresh(t, label+"r0.")
	first.In = ""
	first.Introspect = false
	if rapid.IntRange(0, 5).Draw(t, label+"firstany") == 0 {
		first = genRefresh(t, label+"r0x.")
		first.In = ""
	}
	p.Reqs = append(p.Reqs, first)
	n := rapid.SampledFrom([]int{2, 2, 2, 3}).Draw(t, label+"n")
	for k := 1; k < n; k++ {
		l := fmt.Sprintf("%sr%d.", label, k)
		r := validRefresh(t, l)
		r.In, r.Introspect = "", false
		// by default: the same refresh token at the same deployment
		r.Lin, r.Tok, r.Age, r.Unknown, r.Legacy = first.Lin, first.Tok, first.Age, first.Unknown, first.Legacy
		switch rapid.SampledFrom(parVariants).Draw(t, l+"variant") {
		case "same":
			r.Scope, r.Sel, r.Extra = first.Scope, first.Sel, first.Extra
		case "other-scope":
		case "narrowed":
			r.Scope = "subset"
		case "foreign":
			r.Who = rapid.IntRange(1, 2).Draw(t, l+"who")
		case "superset":
			r.Scope = rapid.SampledFrom([]string{"superset", "superset", "disjoint", "widenback", "orig"}).Draw(t, l+"badscope")
		case "wrong-creds":
			r.Pres = rapid.SampledFrom(anyBadPres).Draw(t, l+"pres")
		case "other-router":
			r.Legacy = !first.Legacy
		case "other-lineage":
			r.Lin = first.Lin + 1
		case "any":
			r = genRefresh(t, l+"x.")
			r.In = ""
			if rapid.Bool().Draw(t, l+"sametoken") {
				r.Lin, r.Tok, r.Age, r.Unknown = first.Lin, first.Tok, first.Age, first.Unknown
			}
		}
		p.Reqs = append(p.Reqs, r)
	}
	// who goes first is data as well
	if rapid.IntRange(0, 2).Draw(t, label+"swap") == 0 {
		j := rapid.IntRange(1, n-1).Draw(t, label+"swapwith")
		p.Reqs[0], p.Reqs[j] = p.Reqs[j], p.Reqs[0]
	}
	// gates: the first request is always held somewhere, later ones sometimes
	p.Gates = append(p.Gates, genGate(t, label+"g0."))
	for k := 1; k < n; k++ {
		if rapid.IntRange(0, 2).Draw(t, fmt.Sprintf("%sgated%d", label, k)) == 0 {
			p.Gates = append(p.Gates, genGate(t, fmt.Sprintf("%sg%d.", label, k)))
		} else {
			p.Gates = append(p.Gates, GateSpec{})
		}
	}
	p.Release = rapid.IntRange(0, 5).Draw(t, label+"release")
	return Op{Kind: "par", Par: p}
}

func genInterleave(t *rapid.T) Case {
	var c Case
	c.Conf = rapid.SampledFrom([]string{"client_secret_basic", "client_secret_post"}).Draw(t, "conf")
	c.SignAlg = rapid.SampledFrom([]string{"ES256", "ES256", "RS256"}).Draw(t, "signalg")
	for i := range c.Clients {
		c.Clients[i].NoRefresh = rapid.IntRange(0, 15).Draw(t, fmt.Sprintf("norefresh%d", i)) == 5
		c.Clients[i].JWTAT = rapid.Bool().Draw(t, fmt.Sprintf("jwtat%d", i))
	}
	c.RefreshOff = rapid.SampledFrom([]string{"", "", "", "", "", "", "", "", "provider", "legacy"}).Draw(t, "refreshoff")
	c.NarrowPersists = rapid.Bool().Draw(t, "narrowpersists")
	c.ExtraAud = rapid.Bool().Draw(t, "extraaud")
	c.NoRotate = rapid.IntRange(0, 3).Draw(t, "norotate") == 0
	if rapid.IntRange(0, 3).Draw(t, "errstyled") == 0 {
		c.ErrStyle = rapid.SampledFrom(vkit.ErrStyles).Draw(t, "errstyle")
	}
	nIssue := rapid.IntRange(1, 2).Draw(t, "nissue")
	for i := 0; i < nIssue; i++ {
		c.Ops = append(c.Ops, genIssue(t, fmt.Sprintf("i%d.", i)))
	}
	seq := func(label string, max int) {
		n := rapid.IntRange(0, max).Draw(t, label+"n")
		for i := 0; i < n; i++ {
			l := fmt.Sprintf("%s%d.", label, i)
			switch rapid.SampledFrom([]string{"valid", "valid", "refresh", "refresh", "replay", "grant"}).Draw(t, l+"kind") {
			case "valid":
				c.Ops = append(c.Ops, validRefresh(t, l))
			case "replay":
				r := validRefresh(t, l)
				r.Tok, r.Age = "old", 1
				c.Ops = append(c.Ops, r)
			case "grant":
				c.Ops = append(c.Ops, Op{Kind: "grant", Client: rapid.IntRange(0, 2).Draw(t, l+"client"), On: rapid.IntRange(0, 2).Draw(t, l+"on") != 0})
			default:
				c.Ops = append(c.Ops, genRefresh(t, l))
			}
		}
	}
	seq("pre.", 2)
	steps := rapid.IntRange(1, vkit.Scale(2, 4)).Draw(t, "steps")
	for s := 0; s < steps; s++ {
		c.Ops = append(c.Ops, genPar(t, fmt.Sprintf("p%d.", s)))
		seq(fmt.Sprintf("post%d.", s), 2)
	}
	// the storage names every registered client in the audience of a grant (foreign callers of a step are named in the token's audience)
	if rapid.IntRange(0, 3).Draw(t, "audclients") == 0 {
		c.AudClients = 7
	}
	return c
}

// ---- execution ------------------------------------------------------------------

type parRun struct {
	done     []chan struct{}
	fin      []bool
	gates    []*vkit.Gate
	specs    []GateSpec
	parked   []bool // observed parked
	released []bool
	gateOf   map[int]int // request number (index in Par.Reqs) -> gate index
	loose    bool        // a request in flight is neither finished nor parked: the storage is not quiescent any more
}

// poll updates what is observable and returns the number of events so far (requests finished + gates found parked).
func (r *parRun) poll() int {
	n := 0
	for k, d := range r.done {
		if !r.fin[k] {
			select {
			case <-d:
				r.fin[k] = true
			default:
			}
		}
		if r.fin[k] {
			n++
		}
	}
	waited := false
	for k, g := range r.gates {
		if !r.parked[k] && !r.released[k] {
			waited = true
			if g.WaitParked(100 * time.Microsecond) {
				r.parked[k] = true
			}
		}
		if r.parked[k] {
			n++
		}
	}
	if !waited {
		time.Sleep(100 * time.Microsecond)
	}
	return n
}

// settle waits until something observable happened after prev events (a request finished, a call reached its gate);
// expired: nothing did within the bound (the request is blocked on something the harness does not own, or the machine is slow).
func (r *parRun) settle(prev int) (n int, expired bool) {
	t0 := time.Now()
	for {
		if n = r.poll(); n > prev {
			return n, false
		}
		if time.Since(t0) > parBound {
			return n, true
		}
	}
}

// nthNext computes the ordinal (as the store counts: per method, from the registration of the first gate on) of the
// (skip+1)-th next call of method. Only meaningful while every request in flight is parked.
func (w *world) nthNext(r *parRun, g GateSpec) int {
	n := 0
	for _, e := range w.st.Journal[w.gateJ0:] {
		if e.Method == g.Method {
			n++
		}
	}
	if !g.AtExit {
		// calls parked on entry are counted by the store but not yet journaled
		for k := range r.gates {
			if r.parked[k] && !r.released[k] && r.specs[k].Method == g.Method && !r.specs[k].AtExit {
				n++
			}
		}
	}
	return n + 1 + g.Skip
}

func permOf(n, sel int) []int {
	idx := make([]int, n)
	for i := range idx {
		idx[i] = i
	}
	var out []int
	for len(idx) > 0 {
		k := sel % len(idx)
		sel /= len(idx)
		out = append(out, idx[k])
		idx = append(idx[:k], idx[k+1:]...)
	}
	return out
}

func (w *world) par(i int, p *Par) bool {
	res := w.res
	w.parSteps++
	var atts []*attempt
	var reqNo []int
	for k, r := range p.Reqs {
		r.Kind = "refresh"
		a := w.prepare(i, r)
		if a == nil {
			continue
		}
		a.desc = fmt.Sprintf("concurrent step, request %d of %d: %s", k+1, len(p.Reqs), a.desc)
		atts = append(atts, a)
		reqNo = append(reqNo, k)
	}
	if len(atts) == 0 {
		return true
	}
	// requests per presented live token
	groups := map[string][]*attempt{}
	for _, a := range atts {
		if a.state == "live" {
			groups[a.token] = append(groups[a.token], a)
		}
	}
	contended := false
	for _, g := range groups {
		if len(g) >= 2 {
			contended = true
		}
	}

	// ---- execute under the generated schedule
	nr0, nt0 := w.tables()
	keys0 := map[string]bool{}
	for k := range w.st.Refresh {
		keys0[k] = true
	}
	j0 := len(w.st.Journal)
	run := &parRun{gateOf: map[int]int{}}
	events := 0
	overlap := false
	for k, a := range atts {
		if rk := reqNo[k]; rk < len(p.Gates) && p.Gates[rk].Method != "" && run.loose {
			w.label("par:gate-skipped:storage-not-quiescent")
		} else if rk < len(p.Gates) && p.Gates[rk].Method != "" {
			if w.gateJ0 < 0 {
				w.gateJ0 = len(w.st.Journal)
			}
			spec := p.Gates[rk]
			run.gateOf[rk] = len(run.gates)
			run.gates = append(run.gates, w.st.AddGate(spec.Method, w.nthNext(run, spec), spec.AtExit))
			run.specs = append(run.specs, spec)
			run.parked = append(run.parked, false)
			run.released = append(run.released, false)
		}
		for g := range run.gates {
			if run.parked[g] && k > 0 {
				overlap = true // a request is started while another one is held inside the library
			}
		}
		d := make(chan struct{})
		run.done = append(run.done, d)
		run.fin = append(run.fin, false)
		go func(a *attempt) {
			defer close(d)
			a.resp = send(a.ag, a.form, a.cred, a.op.In)
		}(a)
		var expired bool
		if events, expired = run.settle(events); expired {
			run.loose = true
			w.label("par:schedule:request-neither-finished-nor-parked-within-bound")
		}
	}
	// release the parked calls in the generated order; a released request runs until it finishes or parks again
	var parkedIdx []int
	for g := range run.gates {
		if run.parked[g] {
			parkedIdx = append(parkedIdx, g)
			w.label("par:gate:" + gateName(run.specs[g]) + ":parked")
		} else {
			w.label("par:gate:" + gateName(run.specs[g]) + ":not-reached-yet")
		}
	}
	for _, o := range permOf(len(parkedIdx), p.Release) {
		g := parkedIdx[o]
		run.gates[g].Release()
		run.released[g] = true
		events, _ = run.settle(events)
	}
	for g := range run.gates {
		run.gates[g].Release()
		run.released[g] = true
	}
	deadline := time.After(parJoin)
	for k, d := range run.done {
		select {
		case <-d:
		case <-deadline:
			// every blocking point the harness owns is open: the request is stuck inside the library. (Its goroutine is lost.)
			res.Fail("C07:"+atts[k].router+":par:request-never-answered", "%s: no answer %v after every storage call was released", atts[k].desc, parJoin)
			return false
		}
	}
	for g := range run.gates {
		if run.gates[g].TimedOut {
			w.label("par:gate-timed-out") // harness trouble (machine stalled for 20 s); the interleaving was not the intended one
		}
	}
	nr1, nt1 := w.tables()
	journal := w.st.Journal[j0:]
	if contended && overlap {
		w.parOverlap = true
		w.label("par:overlap-on-one-token")
	}
	w.label(fmt.Sprintf("par:requests:%d", len(atts)))

	// ---- what the storage saw
	creates := map[string]int{}
	accessOnly := 0
	for _, e := range journal {
		switch e.Method {
		case "CreateAccessAndRefreshTokens":
			cur := ""
			if len(e.Args) > 1 {
				cur = e.Args[1]
			}
			creates[cur]++
		case "CreateAccessToken":
			accessOnly++
		}
	}
	var newKeys []string
	for k := range w.st.Refresh {
		if !keys0[k] {
			newKeys = append(newKeys, k)
		}
	}
	sort.Strings(newKeys)
	isNew := toSet(newKeys)

	// ---- per request
	claimed := map[string]*attempt{}
	succ := map[string][]*attempt{} // successes per presented token
	total := 0
	var outcome []string
	for _, a := range atts {
		// contention: a valid request may lose the race for a rotating token, that is decided per group below
		if a.verdict == "accept" && len(groups[a.token]) >= 2 && !(w.c.NoRotate && !w.c.NarrowPersists) {
			w.label("par:valid-request-contended")
		}
		w.account(a, "par:")
		resp := a.resp
		if resp == nil {
			res.Fail("C07:"+a.router+":par:request-never-answered", "%s: no answer recorded", a.desc)
			return false
		}
		if resp.Panic != nil {
			res.Fail("C07:panic@"+resp.PanicFrame(), "%s: refresh request panicked: %v", a.desc, resp.Panic)
			return false
		}
		if !resp.Success() {
			w.refused++
			outcome = append(outcome, "refused")
			if mat := resp.HasTokenMaterial(); len(mat) > 0 {
				res.Fail("C07:"+a.router+":token-material-in-refusal", "%s: answered %d but the body carries %v", a.desc, resp.Status, mat)
				return false
			}
			continue
		}
		w.accepted++
		total++
		outcome = append(outcome, "served")
		if a.verdict == "refuse" {
			res.Fail("C07:"+a.router+":par:accepted:"+a.reasons[0], "%s: must be refused in every interleaving (%s%s) but was answered %s; the step: %s", a.desc, strings.Join(a.reasons, ", "), grantsNote(a), brief(resp), stepDesc(p, run))
			return false
		}
		succ[a.token] = append(succ[a.token], a)
	}
	w.label(fmt.Sprintf("par:outcome:%d-of-%d-served", total, len(atts)))

	// ---- per presented token: every success went through the storage
	tokens := make([]string, 0, len(succ))
	for tok := range succ {
		tokens = append(tokens, tok)
	}
	sort.Strings(tokens)
	for _, tok := range tokens {
		as := succ[tok]
		last := as[len(as)-1]
		if len(as) > creates[tok] {
			res.Fail("C07:"+last.router+":par:success-without-rotation-call", "%s: %d requests presenting refresh token %q were answered with tokens but the storage was asked to rotate that token %d time(s): a success must hand the presented token to the storage; the step: %s",
				last.desc, len(as), tok, creates[tok], stepDesc(p, run))
			return false
		}
		for _, a := range as {
			newRT := a.resp.Str("refresh_token")
			snap, exists := w.st.RefreshSnapshot(newRT)
			if w.c.NoRotate {
				if newRT != tok || !exists || snap.Dead {
					res.Fail("C07:"+a.router+":par:refresh-token-not-from-storage", "%s: the storage keeps refresh tokens and answers a rotation call with the presented token %q, the response carries refresh_token %q (in storage=%v, dead=%v)", a.desc, tok, newRT, exists, snap.Dead)
					return false
				}
			} else {
				if other := claimed[newRT]; newRT == "" || !isNew[newRT] || other != nil || !exists || snap.Dead {
					also := ""
					if other != nil {
						also = "; the same refresh token was handed to request: " + other.desc
					}
					res.Fail("C07:"+a.router+":par:refresh-token-not-from-storage", "%s: response refresh_token %q is not a token the storage created for this request in this step (created in this step: %v, in storage=%v, dead=%v)%s; the step: %s",
						a.desc, newRT, newKeys, exists, snap.Dead, also, stepDesc(p, run))
					return false
				}
				claimed[newRT] = a
				if old, ok := w.st.RefreshSnapshot(tok); !ok || !old.Dead {
					res.Fail("C07:"+a.router+":old-token-still-live", "%s: succeeded but the presented token was not rotated out by the storage", a.desc)
					return false
				}
			}
			if !w.judgeIssued(a, snap, !w.c.NoRotate || len(as) == 1) {
				return false
			}
		}
	}
	var curs []string
	for cur := range creates {
		curs = append(curs, cur)
	}
	sort.Strings(curs)
	for _, cur := range curs {
		n := creates[cur]
		may := 0
		for _, a := range atts {
			if a.token == cur && a.verdict != "refuse" {
				may++
			}
		}
		if n > may {
			res.Fail("C07:par:rotation-call-for-refused-request", "op %d (concurrent step): the storage was asked %d time(s) to rotate %q but only %d request(s) of the step may be served with it; the step: %s", i, n, cur, may, stepDesc(p, run))
			return false
		}
	}
	wantRefresh := total
	if w.c.NoRotate {
		wantRefresh = 0
	}
	if nr1-nr0 != wantRefresh || nt1-nt0 != total || accessOnly != 0 {
		res.Fail("C07:par:storage-growth-not-matching-successes", "op %d (concurrent step): %d request(s) served, but the refresh table went %d->%d, the token table %d->%d and there were %d access-only create calls; the step: %s",
			i, total, nr0, nr1, nt0, nt1, accessOnly, stepDesc(p, run))
		return false
	}

	// ---- refusals: completeness over the possible orders, and the error code where the statement names it
	gtoks := make([]string, 0, len(groups))
	for tok := range groups {
		gtoks = append(gtoks, tok)
	}
	sort.Strings(gtoks)
	for _, tok := range gtoks {
		var valid, served []*attempt
		for _, a := range groups[tok] {
			if a.verdict == "accept" {
				valid = append(valid, a)
				if a.resp.Success() {
					served = append(served, a)
				}
			}
		}
		if len(valid) > 0 {
			if w.c.NoRotate && !w.c.NarrowPersists {
				// the token stays live and the grant stays what it was: no order makes a valid request invalid
				for _, a := range valid {
					if !a.resp.Success() {
						res.Fail("C07:"+a.router+":par:refused-valid:"+a.sclass, "%s: must succeed in every interleaving (owner, authenticated/identified, registered, enabled, scope within grant %v, the storage keeps the token live) but was answered %s; the step: %s", a.desc, a.bound, brief(a.resp), stepDesc(p, run))
						return false
					}
				}
			} else if len(succ[tok]) == 0 {
				a := valid[0]
				res.Fail("C07:"+a.router+":par:no-valid-request-served", "%s: %d valid request(s) presented the live token %q and none of the step's requests on it was served: in every sequential order the first valid one succeeds; it was answered %s; the step: %s", a.desc, len(valid), tok, brief(a.resp), stepDesc(p, run))
				return false
			}
		}
		for _, a := range groups[tok] {
			if a.resp.Success() || len(a.reasons) != 1 || a.reasons[0] != "scope-outside-original" {
				continue
			}
			if len(succ[tok]) > 0 && !w.c.NoRotate {
				w.label("par:scope-refusal-after-rotation-possible") // the token may have been dead already: any refusal is right
				continue
			}
			if e := a.resp.OAuthError(); e != "invalid_scope" {
				res.Fail("C07:"+a.router+":scope-refusal-not-invalid_scope", "%s: requested scope is not within the original grant %v, nothing else is wrong and the token stayed live during the step: the error must be invalid_scope, got %s", a.desc, a.l.orig, brief(a.resp))
				return false
			}
			w.label("invalid_scope-confirmed:" + a.router)
		}
	}

	// ---- model step
	for _, tok := range tokens {
		for _, a := range succ[tok] {
			newRT := a.resp.Str("refresh_token")
			var granted []string
			if w.c.NoRotate && w.c.NarrowPersists {
				if snap, ok := w.st.RefreshSnapshot(newRT); ok {
					granted = snap.Scopes // whichever rotation call the storage served last
				}
			}
			w.step(a, newRT, scopeField(a.resp), granted)
		}
	}
	w.sig = append(w.sig, "par["+strings.Join(outcome, ",")+"]@"+gatesSig(p))
	return true
}

func gateName(g GateSpec) string {
	if g.AtExit {
		return g.Method + ":exit"
	}
	return g.Method + ":entry"
}

func gatesSig(p *Par) string {
	var s []string
	for _, g := range p.Gates {
		if g.Method == "" {
			s = append(s, "-")
		} else {
			s = append(s, gateName(g))
		}
	}
	return strings.Join(s, ",")
}

// stepDesc renders the schedule of a concurrent step for messages.
func stepDesc(p *Par, r *parRun) string {
	var s []string
	for k := range p.Reqs {
		d := fmt.Sprintf("request %d", k+1)
		if gi, ok := r.gateOf[k]; ok {
			d += " started with a gate on " + gateName(p.Gates[k])
			if r.parked[gi] {
				d += " (a call parked there)"
			} else {
				d += " (not reached before release)"
			}
		}
		s = append(s, d)
	}
	return strings.Join(s, "; ") + fmt.Sprintf("; release order selector %d", p.Release)
}

var propInterleave = vkit.Prop[Case]{
	ID: "C07",
	Rule: "concurrent histories: configuration as in TestRapid (both routers sharing one storage, three clients, narrowing persists on/off, storage rotates / keeps the refresh token, error styles), 1-2 code exchanges, 0-2 sequential ops, then 1-2 (thorough 4) concurrent steps each followed by 0-2 sequential ops (valid refresh, arbitrary refresh, replay of the rotated token, grant change); " +
		"a concurrent step = 2-3 refresh requests in flight at once, by default on the SAME refresh token at the same deployment, the later ones a generated variant of the first (same client same scope / other valid scope / narrowed / foreign client / scope outside the grant / wrong credentials / other router / other lineage / arbitrary), start order generated; " +
		"the harness owns the interleaving: the first request (later ones with probability 1/3) is parked in a generated storage call (TokenRequestByRefreshToken, CreateAccessAndRefreshTokens, GetClientByClientID, AuthorizeClientIDSecret, GetKeyByIDAndClientID, SigningKey, SetUserinfoFromScopes, GetPrivateClaimsFromScopes; on entry or on exit; next or next-but-one call) while the next request is started and runs until it answers or parks; parked calls are released in a generated order; " +
		"oracle independent of the schedule (answers must be explainable by some sequential order): order-independent refusal reasons bind in every interleaving and such a request gets no token material; per presented token successes <= CreateAccessAndRefreshTokens(current = presented) journal entries; every success carries its own storage-created refresh token (or the presented one with a keeping storage), scope within the grant at the start of the step, id_token / access-token continuity; storage tables grow by exactly the successes; no rotation call for a must-refuse request; at least one request on a live token succeeds when a valid one exists (every valid one with a keeping storage without persistent narrowing); invalid_scope asserted when the token provably stayed live; the model then follows the observed winner and the sequential ops after the step are judged as usual; " +
		"non-trivial = a step with >= 2 requests on one live refresh token where a request was started while another one was parked inside the library; distinct = (policies, sequence of verdict classes, outcomes and gate positions)",
	Gen: genInterleave,
	Run: run,
}

func TestInterleave(t *testing.T) { propInterleave.Check(t) }
