package vkit

import (
	"context"
	"time"

	"github.com/zitadel/oidc/v3/pkg/oidc"
	"github.com/zitadel/oidc/v3/pkg/op"
)

// The library detects optional storage capabilities by type assertion, so each
// combination needs its own concrete type. Caps selects one.
type Caps struct {
	CC     bool `json:"cc"`     // ClientCredentialsStorage
	TE     bool `json:"te"`     // TokenExchangeStorage
	Device bool `json:"device"` // DeviceAuthorizationStorage
	Extras bool `json:"extras"` // CanTerminateSessionFromRequest, CanSetUserinfoFromRequest, CanGetPrivateClaimsFromRequest, JWTProfileTokenStorage, TokenExchangeTokensVerifierStorage (only with CC+TE+Device)
}

type ccMix struct{ s *Store }

func (m ccMix) ClientCredentials(ctx context.Context, id, secret string) (op.Client, error) {
	return m.s.clientCredentials(ctx, id, secret)
}
func (m ccMix) ClientCredentialsTokenRequest(ctx context.Context, id string, scopes []string) (op.TokenRequest, error) {
	return m.s.clientCredentialsTokenRequest(ctx, id, scopes)
}

type teMix struct{ s *Store }

func (m teMix) ValidateTokenExchangeRequest(ctx context.Context, r op.TokenExchangeRequest) error {
	return m.s.validateTokenExchangeRequest(ctx, r)
}
func (m teMix) CreateTokenExchangeRequest(ctx context.Context, r op.TokenExchangeRequest) error {
	return m.s.createTokenExchangeRequest(ctx, r)
}
func (m teMix) GetPrivateClaimsFromTokenExchangeRequest(ctx context.Context, r op.TokenExchangeRequest) (map[string]any, error) {
	return m.s.tePrivateClaims(ctx, r)
}
func (m teMix) SetUserinfoFromTokenExchangeRequest(ctx context.Context, ui *oidc.UserInfo, r op.TokenExchangeRequest) error {
	return m.s.teUserinfo(ctx, ui, r)
}

type devMix struct{ s *Store }

func (m devMix) StoreDeviceAuthorization(ctx context.Context, clientID, deviceCode, userCode string, expires time.Time, scopes []string) error {
	return m.s.storeDeviceAuthorization(ctx, clientID, deviceCode, userCode, expires, scopes)
}
func (m devMix) GetDeviceAuthorizatonState(ctx context.Context, clientID, deviceCode string) (*op.DeviceAuthorizationState, error) {
	return m.s.getDeviceAuthorizationState(ctx, clientID, deviceCode)
}

type extraMix struct{ s *Store }

func (m extraMix) TerminateSessionFromRequest(ctx context.Context, r *op.EndSessionRequest) (string, error) {
	return m.s.terminateSessionFromRequest(ctx, r)
}
func (m extraMix) SetUserinfoFromRequest(ctx context.Context, ui *oidc.UserInfo, r op.IDTokenRequest, scopes []string) error {
	return m.s.setUserinfoFromRequest(ctx, ui, r, scopes)
}
func (m extraMix) GetPrivateClaimsFromRequest(ctx context.Context, r op.TokenRequest, scopes []string) (map[string]any, error) {
	return m.s.getPrivateClaimsFromRequest(ctx, r, scopes)
}
func (m extraMix) JWTProfileTokenType(ctx context.Context, r op.TokenRequest) (op.AccessTokenType, error) {
	return m.s.jwtProfileTokenType(ctx, r)
}
func (m extraMix) VerifyExchangeSubjectToken(ctx context.Context, token string, tt oidc.TokenType) (string, string, map[string]any, error) {
	return m.s.verifyThird(ctx, token, tt, false)
}
func (m extraMix) VerifyExchangeActorToken(ctx context.Context, token string, tt oidc.TokenType) (string, string, map[string]any, error) {
	return m.s.verifyThird(ctx, token, tt, true)
}

type (
	st000 struct{ *Store }
	st100 struct {
		*Store
		ccMix
	}
	st010 struct {
		*Store
		teMix
	}
	st001 struct {
		*Store
		devMix
	}
	st110 struct {
		*Store
		ccMix
		teMix
	}
	st101 struct {
		*Store
		ccMix
		devMix
	}
	st011 struct {
		*Store
		teMix
		devMix
	}
	st111 struct {
		*Store
		ccMix
		teMix
		devMix
	}
	st111x struct {
		*Store
		ccMix
		teMix
		devMix
		extraMix
	}
)

// Shaped returns the store wrapped in the type that exposes exactly the selected capabilities.
func (s *Store) Shaped(c Caps) op.Storage {
	switch {
	case c.CC && c.TE && c.Device && c.Extras:
		return st111x{s, ccMix{s}, teMix{s}, devMix{s}, extraMix{s}}
	case c.CC && c.TE && c.Device:
		return st111{s, ccMix{s}, teMix{s}, devMix{s}}
	case c.CC && c.TE:
		return st110{s, ccMix{s}, teMix{s}}
	case c.CC && c.Device:
		return st101{s, ccMix{s}, devMix{s}}
	case c.TE && c.Device:
		return st011{s, teMix{s}, devMix{s}}
	case c.CC:
		return st100{s, ccMix{s}}
	case c.TE:
		return st010{s, teMix{s}}
	case c.Device:
		return st001{s, devMix{s}}
	}
	return st000{s}
}

// FullCaps is everything but the extras.
var FullCaps = Caps{CC: true, TE: true, Device: true}
