package vkit

import (
	"testing"
)

func StdClients() []*ClientSpec {
	return []*ClientSpec{
		{ID: "web", Secret: "s3cret", AppType: "web", AuthMethod: "client_secret_basic", GrantTypes: []string{GCode, GRefr, GTE, GDevice}, ResponseTypes: []string{"code", "id_token", "id_token token"}, RedirectURIs: []string{"https://rp.example.com/cb"}, PostLogoutURIs: []string{"https://rp.example.com/out"}},
		{ID: "native", AppType: "native", AuthMethod: "none", GrantTypes: []string{GCode, GRefr, GDevice}, ResponseTypes: []string{"code"}, RedirectURIs: []string{"http://localhost/cb", "com.example:/cb"}},
		{ID: "svc", Secret: "svcsecret", AppType: "web", AuthMethod: "client_secret_basic", GrantTypes: []string{GCC}, Service: true},
	}
}

func TestSmoke(t *testing.T) {
	for _, router := range []string{"provider", "legacy"} {
		st := NewStore(StdClients(), SignKeySpec{KeyName: "rsa1", Alg: "RS256", KID: "k1"}, StorePolicy{})
		sut := MustBuild(DefaultProviderSpec(router), st)
		ag := NewAgent(sut)
		web := st.Clients["web"]
		fl := ag.RunAuth(AuthParams(web, "https://rp.example.com/cb", "code", "openid profile offline_access", "st", "n1"), "u1")
		if fl.Code == "" {
			t.Fatalf("%s: no code: %s / %v", router, fl.AuthResp.Describe(), fl.CallbackResp)
		}
		r := ag.Token(CodeExchangeForm(fl.Code, "https://rp.example.com/cb", ""), RightCred(web, sut.Issuer()))
		if !r.Success() || r.Str("access_token") == "" || r.Str("refresh_token") == "" || r.Str("id_token") == "" {
			t.Fatalf("%s: exchange: %s", router, r.Describe())
		}
		ui := ag.UserInfo(r.Str("access_token"))
		if !ui.Success() || ui.Str("sub") != "u1" {
			t.Fatalf("%s: userinfo: %s", router, ui.Describe())
		}
		in := ag.Introspect(r.Str("access_token"), RightCred(web, sut.Issuer()))
		if !in.Success() || in.JSON()["active"] != true {
			t.Fatalf("%s: introspect: %s", router, in.Describe())
		}
		d := ag.Discovery()
		if !d.Success() || d.Str("issuer") != "https://op.example.com" {
			t.Fatalf("%s: discovery: %s", router, d.Describe())
		}
		cc := ag.Token(map[string][]string{"grant_type": {GCC}, "scope": {"openid"}}, RightCred(st.Clients["svc"], sut.Issuer()))
		if !cc.Success() {
			t.Fatalf("%s: cc: %s", router, cc.Describe())
		}
		t.Logf("%s ok; journal=%d", router, st.JournalLen())
	}
}
