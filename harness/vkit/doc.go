// Package vkit is the shared harness library for the /verif checks.
package vkit

import (
	_ "golang.org/x/net/html"
)
