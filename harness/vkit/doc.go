// Package vkit is the shared harness library for the /verif checks.
package vkit

import (
	_ "github.com/zitadel/oidc/v3/pkg/op"
	_ "golang.org/x/net/html"
	_ "pgregory.net/rapid"
)
