package vkit

import (
	"context"
	"fmt"
	"net/http"
	"time"

	"github.com/zitadel/oidc/v3/pkg/oidc"
	"github.com/zitadel/oidc/v3/pkg/op"
)

// DeviceCfg mirrors op.DeviceAuthorizationConfig in JSON-friendly form.
type DeviceCfg struct {
	LifetimeS    int    `json:"lifetime_s"`
	PollS        int    `json:"poll_s"`
	UserFormPath string `json:"user_form_path,omitempty"`
	UserFormURL  string `json:"user_form_url,omitempty"`
	CharSet      string `json:"charset"`
	CharAmount   int    `json:"char_amount"`
	DashInterval int    `json:"dash_interval"`
}

// EndpointSpec customises one endpoint ("" path: default; Nil: disabled on the Server router).
type EndpointSpec struct {
	Path string `json:"path,omitempty"`
	URL  string `json:"url,omitempty"`
	Nil  bool   `json:"nil,omitempty"`
}

// ProviderSpec is a generated provider configuration.
type ProviderSpec struct {
	Router     string `json:"router"`      // provider | legacy
	IssuerMode string `json:"issuer_mode"` // static | host | forwarded
	Issuer     string `json:"issuer"`      // static: full issuer; host/forwarded: path
	Insecure   bool   `json:"insecure,omitempty"`

	S256    bool `json:"s256"`
	Post    bool `json:"post"`
	PKJWT   bool `json:"pkjwt"`
	Refresh bool `json:"refresh"`
	ReqObj  bool `json:"reqobj"`

	Caps             Caps                    `json:"caps"`
	DefaultLogoutURI string                  `json:"default_logout_uri,omitempty"`
	Device           DeviceCfg               `json:"device"`
	Endpoints        map[string]EndpointSpec `json:"endpoints,omitempty"` // keys: authorization token introspection userinfo revocation end_session keys device_authorization
	CryptoKey        byte                    `json:"crypto_key,omitempty"`
	// LaxSubject: the application overrides OpenIDProvider.JWTProfileVerifier (by embedding *op.Provider, the documented way
	// to customise a provider) with a verifier whose SubjectCheck lets iss != sub through (delegation). The issuer must still
	// be the client whose key signed the assertion, and the authenticated client is that issuer.
	LaxSubject bool `json:"lax_subject,omitempty"`
	// WrapStorage (not part of the serialised case): lets a check put its own wrapper around the capability-shaped storage
	// before the provider is built (the wrapper must keep the optional interfaces it wants the library to detect).
	WrapStorage func(op.Storage) op.Storage `json:"-"`
}

// laxSubjectProvider is an op.Provider whose JWT-profile verifier accepts assertions with sub != iss.
type laxSubjectProvider struct{ *op.Provider }

func (l laxSubjectProvider) JWTProfileVerifier(ctx context.Context) *op.JWTProfileVerifier {
	return op.NewJWTProfileVerifier(l.Storage(), op.IssuerFromContext(ctx), time.Hour, time.Second,
		op.SubjectCheck(func(*oidc.JWTTokenRequest) error { return nil }))
}

// DefaultProviderSpec: everything enabled, static https issuer.
func DefaultProviderSpec(router string) ProviderSpec {
	return ProviderSpec{
		Router: router, IssuerMode: "static", Issuer: "https://op.example.com",
		S256: true, Post: true, PKJWT: true, Refresh: true, ReqObj: true, Caps: FullCaps,
		DefaultLogoutURI: "https://op.example.com/logged-out",
		Device:           DeviceCfg{LifetimeS: 300, PollS: 5, UserFormPath: "/device", CharSet: op.CharSetBase20, CharAmount: 8, DashInterval: 4},
	}
}

// SUT is the system under test built from a spec.
type SUT struct {
	Spec     ProviderSpec
	Store    *Store
	Provider *op.Provider
	Handler  http.Handler
	Paths    map[string]string // endpoint name -> relative path (as routed)
	Host     string            // Host header the agent sends
}

var defaultPaths = map[string]string{
	"authorization": "/authorize", "token": "/oauth/token", "introspection": "/oauth/introspect", "userinfo": "/userinfo",
	"revocation": "/revoke", "end_session": "/end_session", "keys": "/keys", "device_authorization": "/device_authorization",
}

// EndpointNames in fixed order.
var EndpointNames = []string{"authorization", "token", "introspection", "userinfo", "revocation", "end_session", "keys", "device_authorization"}

func mkEndpoint(name string, e EndpointSpec) *op.Endpoint {
	p := e.Path
	if p == "" {
		p = defaultPaths[name]
	}
	if e.URL != "" {
		return op.NewEndpointWithURL(p, e.URL)
	}
	return op.NewEndpoint(p)
}

// snapshot of the package-level defaults, restored after every Build so that a
// provider built with custom endpoints cannot leak into the next case
var pristineEndpoints = *op.DefaultEndpoints

// RestoreDefaultEndpoints puts op.DefaultEndpoints back to the values captured at start-up.
func RestoreDefaultEndpoints() { *op.DefaultEndpoints = pristineEndpoints }

// PristineEndpoints returns the start-up snapshot.
func PristineEndpoints() op.Endpoints { return pristineEndpoints }

// Build constructs the provider and its router.
func Build(spec ProviderSpec, store *Store) (*SUT, error) {
	cfg := &op.Config{
		DefaultLogoutRedirectURI: spec.DefaultLogoutURI,
		CodeMethodS256:           spec.S256,
		AuthMethodPost:           spec.Post,
		AuthMethodPrivateKeyJWT:  spec.PKJWT,
		GrantTypeRefreshToken:    spec.Refresh,
		RequestObjectSupported:   spec.ReqObj,
		DeviceAuthorization: op.DeviceAuthorizationConfig{
			Lifetime: time.Duration(spec.Device.LifetimeS) * time.Second, PollInterval: time.Duration(spec.Device.PollS) * time.Second,
			UserFormPath: spec.Device.UserFormPath, UserFormURL: spec.Device.UserFormURL,
			UserCode: op.UserCodeConfig{CharSet: spec.Device.CharSet, CharAmount: spec.Device.CharAmount, DashInterval: spec.Device.DashInterval},
		},
	}
	for i := range cfg.CryptoKey {
		cfg.CryptoKey[i] = byte(i*7+3) ^ spec.CryptoKey
	}
	alg := store.SignKey.Alg
	opts := []op.Option{
		op.WithLogger(DiscardLogger()),
		op.WithAccessTokenVerifierOpts(op.WithSupportedAccessTokenSigningAlgorithms(alg)),
		op.WithIDTokenHintVerifierOpts(op.WithSupportedIDTokenHintSigningAlgorithms(alg)),
	}
	if spec.Insecure {
		opts = append(opts, op.WithAllowInsecure())
	}
	paths := map[string]string{}
	for k, v := range defaultPaths {
		paths[k] = v
	}
	legacyEP := pristineEndpoints
	setEP := func(name string, e *op.Endpoint) {
		switch name {
		case "authorization":
			legacyEP.Authorization = e
		case "token":
			legacyEP.Token = e
		case "introspection":
			legacyEP.Introspection = e
		case "userinfo":
			legacyEP.Userinfo = e
		case "revocation":
			legacyEP.Revocation = e
		case "end_session":
			legacyEP.EndSession = e
		case "keys":
			legacyEP.JwksURI = e
		case "device_authorization":
			legacyEP.DeviceAuthorization = e
		}
	}
	for _, name := range EndpointNames {
		e, ok := spec.Endpoints[name]
		if !ok {
			continue
		}
		if e.Nil {
			if spec.Router == "legacy" {
				setEP(name, nil)
				delete(paths, name)
			}
			continue
		}
		ep := mkEndpoint(name, e)
		paths[name] = ep.Relative()
		setEP(name, ep)
		if spec.Router != "legacy" {
			switch name {
			case "authorization":
				opts = append(opts, op.WithCustomAuthEndpoint(ep))
			case "token":
				opts = append(opts, op.WithCustomTokenEndpoint(ep))
			case "introspection":
				opts = append(opts, op.WithCustomIntrospectionEndpoint(ep))
			case "userinfo":
				opts = append(opts, op.WithCustomUserinfoEndpoint(ep))
			case "revocation":
				opts = append(opts, op.WithCustomRevocationEndpoint(ep))
			case "end_session":
				opts = append(opts, op.WithCustomEndSessionEndpoint(ep))
			case "keys":
				opts = append(opts, op.WithCustomKeysEndpoint(ep))
			case "device_authorization":
				opts = append(opts, op.WithCustomDeviceAuthorizationEndpoint(ep))
			}
		}
	}
	var issuer func(bool) (op.IssuerFromRequest, error)
	switch spec.IssuerMode {
	case "host":
		issuer = op.IssuerFromHost(spec.Issuer)
	case "forwarded":
		issuer = op.IssuerFromForwardedOrHost(spec.Issuer)
	default:
		issuer = op.StaticIssuer(spec.Issuer)
	}
	defer RestoreDefaultEndpoints()
	stg := store.Shaped(spec.Caps)
	if spec.WrapStorage != nil {
		stg = spec.WrapStorage(stg)
	}
	p, err := op.NewProvider(cfg, stg, issuer, opts...)
	if err != nil {
		return nil, err
	}
	sut := &SUT{Spec: spec, Store: store, Provider: p, Paths: paths, Host: "op.example.com"}
	var oidp op.OpenIDProvider = p
	if spec.LaxSubject {
		oidp = laxSubjectProvider{p}
	}
	if spec.Router == "legacy" {
		sut.Handler = op.RegisterLegacyServer(op.NewLegacyServer(oidp, legacyEP), op.AuthorizeCallbackHandler(oidp), op.WithFallbackLogger(DiscardLogger()))
	} else if spec.LaxSubject {
		sut.Handler = op.CreateRouter(oidp)
	} else {
		sut.Handler = p
	}
	return sut, nil
}

// MustBuild panics on construction errors (for specs that are valid by construction).
func MustBuild(spec ProviderSpec, store *Store) *SUT {
	s, err := Build(spec, store)
	if err != nil {
		panic(fmt.Sprintf("vkit: build provider: %v", err))
	}
	return s
}

// IssuerFor returns the issuer the provider uses for a request with the given Host.
func (s *SUT) IssuerFor(host string) string {
	if s.Spec.IssuerMode == "static" {
		return s.Spec.Issuer
	}
	scheme := "https"
	if s.Spec.Insecure {
		scheme = "http"
	}
	p := s.Spec.Issuer
	if p != "" && p[0] != '/' {
		p = "/" + p
	}
	return scheme + "://" + host + p
}

// Issuer is the issuer for the default host.
func (s *SUT) Issuer() string { return s.IssuerFor(s.Host) }

// CallbackPath is the authorize callback route.
func (s *SUT) CallbackPath() string { return s.Paths["authorization"] + "/callback" }
