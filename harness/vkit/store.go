package vkit

import (
	"context"
	"errors"
	"fmt"
	"slices"
	"strings"
	"sync"
	"time"

	jose "github.com/go-jose/go-jose/v4"
	"golang.org/x/text/language"

	"github.com/zitadel/oidc/v3/pkg/oidc"
	"github.com/zitadel/oidc/v3/pkg/op"
)

// ---------------------------------------------------------------------------
// Journal and fault injection

type JEntry struct {
	Req    int      `json:"req"`
	Call   int      `json:"call"`
	Method string   `json:"m"`
	Args   []string `json:"a,omitempty"`
	Err    string   `json:"err,omitempty"`
	Fault  bool     `json:"fault,omitempty"`
}

// Fault describes one injected storage failure.
type Fault struct {
	Req    int    `json:"req"`    // request number it applies to (0: any)
	Call   int    `json:"call"`   // k-th storage call of that request (0: any)
	Method string `json:"method"` // restrict to a method ("" any)
	Kind   string `json:"kind"`   // error | deadline | partial
}

var ErrInjected = errors.New("injected storage fault")

func (f *Fault) err() error {
	switch f.Kind {
	case "deadline":
		return context.DeadlineExceeded
	case "oidc": // a storage that reports its failure as a ready-made OAuth error
		return oidc.ErrServerError().WithParent(ErrInjected).WithDescription("injected storage fault")
	case "dup-user-code": // the sentinel the DeviceAuthorizationStorage documentation names for a user-code collision
		return op.ErrDuplicateUserCode
	case "oidc-wrapped":
		return fmt.Errorf("storage: %w", oidc.ErrInvalidRequest().WithParent(ErrInjected).WithDescription("injected storage fault"))
	// sentinels of the library that a storage may return (or pass on) from any call: the library gives some of them a special
	// treatment somewhere, which must never turn a failed storage call into a success
	case "invalid-refresh":
		return op.ErrInvalidRefreshToken
	case "invalid-refresh-wrapped":
		return fmt.Errorf("storage: %w", op.ErrInvalidRefreshToken)
	case "canceled":
		return context.Canceled
	case "deadline-wrapped":
		return fmt.Errorf("storage: %w", context.DeadlineExceeded)
	case "key-none":
		return oidc.ErrKeyNone
	case "access-denied": // an *oidc.Error of a type that is a legitimate answer elsewhere
		return oidc.ErrAccessDenied().WithParent(ErrInjected).WithDescription("injected storage fault")
	case "slow-down":
		return oidc.ErrSlowDown().WithParent(ErrInjected)
	case "authorization-pending":
		return oidc.ErrAuthorizationPending().WithParent(ErrInjected)
	}
	return ErrInjected
}

// SentinelFaultKinds lists the fault kinds that are library sentinels / special-cased error values (see Fault.err).
var SentinelFaultKinds = []string{"dup-user-code", "invalid-refresh", "invalid-refresh-wrapped", "canceled", "deadline-wrapped", "key-none", "access-denied", "slow-down", "authorization-pending"}

// refuse builds the error with which the storage reports one of its own refusals (unknown client, wrong secret, unknown
// code / token ...) in the style the case chose: a plain Go error (default), a matching *oidc.Error, such an error wrapped
// in a plain one, or a server_error. The interface leaves the choice to the storage; the library must treat all alike.
func (s *Store) refuse(class, msg string) error {
	var oe *oidc.Error
	switch class {
	case "client":
		oe = oidc.ErrInvalidClient()
	case "request":
		oe = oidc.ErrInvalidRequest()
	case "grant":
		oe = oidc.ErrInvalidGrant()
	default:
		oe = oidc.ErrAccessDenied()
	}
	switch s.Policy.ErrStyle {
	case "oidc":
		return oe.WithDescription(msg)
	case "wrapped":
		return fmt.Errorf("storage: %w", oe.WithDescription(msg))
	case "server":
		return oidc.ErrServerError().WithDescription(msg)
	}
	return errors.New(msg)
}

// sentinel returns a documented sentinel error of the storage interface: as is, or - with ErrStyle "wrapped" - wrapped
// with context the way storages commonly do (fmt.Errorf("...: %w", err)); callers must match it with errors.Is.
func (s *Store) sentinel(err error) error {
	if s.Policy.ErrStyle == "wrapped" {
		return fmt.Errorf("storage: %w", err)
	}
	return err
}

// ErrStyles are the values of StorePolicy.ErrStyle.
var ErrStyles = []string{"", "oidc", "wrapped", "server"}

// ---------------------------------------------------------------------------
// Stored objects

type AuthReq struct {
	ID            string
	ClientID      string
	RedirectURI   string
	State         string
	Nonce         string
	Scopes        []string
	ResponseType  oidc.ResponseType
	ResponseMode  oidc.ResponseMode
	Challenge     *oidc.CodeChallenge
	Prompt        []string
	MaxAge        *uint
	LoginHint     string
	UILocales     []language.Tag
	HintSubject   string
	ExtraAudience []string
	SessionState  string

	UserID   string
	IsDone   bool
	AuthTime time.Time
	ACR      string
	AMR      []string
}

func (a *AuthReq) GetID() string          { return a.ID }
func (a *AuthReq) GetACR() string         { return a.ACR }
func (a *AuthReq) GetAMR() []string       { return a.AMR }
func (a *AuthReq) GetAudience() []string  { return append([]string{a.ClientID}, a.ExtraAudience...) }
func (a *AuthReq) GetAuthTime() time.Time { return a.AuthTime }
func (a *AuthReq) GetClientID() string    { return a.ClientID }
func (a *AuthReq) GetCodeChallenge() *oidc.CodeChallenge {
	return a.Challenge
}
func (a *AuthReq) GetNonce() string                   { return a.Nonce }
func (a *AuthReq) GetRedirectURI() string             { return a.RedirectURI }
func (a *AuthReq) GetResponseType() oidc.ResponseType { return a.ResponseType }
func (a *AuthReq) GetResponseMode() oidc.ResponseMode { return a.ResponseMode }
func (a *AuthReq) GetScopes() []string                { return a.Scopes }
func (a *AuthReq) GetState() string                   { return a.State }
func (a *AuthReq) GetSubject() string                 { return a.UserID }
func (a *AuthReq) Done() bool                         { return a.IsDone }

// authReqSS additionally implements op.AuthRequestSessionState.
type authReqSS struct{ *AuthReq }

func (a authReqSS) GetSessionState() string { return a.SessionState }

type AccessTok struct {
	ID        string
	ClientID  string
	Subject   string
	Audience  []string
	Scopes    []string
	Exp       time.Time
	RefreshID string
	Revoked   bool
	Flow      string
	Actor     string
}

type RefreshTok struct {
	ID         string // "" unless StorePolicy.RefreshIDs
	Token      string
	ClientID   string
	Subject    string
	Audience   []string
	Scopes     []string // currently granted
	OrigScopes []string
	AuthTime   time.Time
	AMR        []string
	Exp        time.Time
	AccessID   string
	Dead       bool // rotated or revoked
	Lineage    int
}

// RefreshReq is what TokenRequestByRefreshToken returns.
type RefreshReq struct {
	rt     *RefreshTok
	scopes []string
}

func (r *RefreshReq) GetAMR() []string            { return r.rt.AMR }
func (r *RefreshReq) GetAudience() []string       { return r.rt.Audience }
func (r *RefreshReq) GetAuthTime() time.Time      { return r.rt.AuthTime }
func (r *RefreshReq) GetClientID() string         { return r.rt.ClientID }
func (r *RefreshReq) GetScopes() []string         { return r.scopes }
func (r *RefreshReq) GetSubject() string          { return r.rt.Subject }
func (r *RefreshReq) SetCurrentScopes(s []string) { r.scopes = s }

// CCReq is the TokenRequest of the client_credentials grant.
type CCReq struct {
	ClientID string
	Scopes   []string
}

func (c *CCReq) GetSubject() string    { return c.ClientID }
func (c *CCReq) GetAudience() []string { return []string{c.ClientID} }
func (c *CCReq) GetScopes() []string   { return c.Scopes }

type DeviceEntry struct {
	DeviceCode string
	UserCode   string
	State      *op.DeviceAuthorizationState
}

// SignKeySpec names the provider's signing key.
type SignKeySpec struct {
	KeyName string `json:"key"`
	Alg     string `json:"alg"`
	KID     string `json:"kid"`
}

type signingKey struct{ s SignKeySpec }

func (k signingKey) SignatureAlgorithm() jose.SignatureAlgorithm {
	return jose.SignatureAlgorithm(k.s.Alg)
}
func (k signingKey) Key() any   { return Key(k.s.KeyName).Priv }
func (k signingKey) ID() string { return k.s.KID }

// PubKeySpec is a published key.
type PubKeySpec struct {
	KeyName string `json:"key"`
	Alg     string `json:"alg"`
	KID     string `json:"kid"`
	Use     string `json:"use"`
}

type pubKey struct{ s PubKeySpec }

func (k pubKey) ID() string                         { return k.s.KID }
func (k pubKey) Algorithm() jose.SignatureAlgorithm { return jose.SignatureAlgorithm(k.s.Alg) }
func (k pubKey) Use() string                        { return k.s.Use }
func (k pubKey) Key() any                           { return Key(k.s.KeyName).Pub }

// TEPolicy is the storage's token-exchange policy.
type TEPolicy struct {
	DefaultType string   `json:"default_type"` // access | refresh | id ; applied when requested_token_type is absent
	Impersonate string   `json:"impersonate,omitempty"`
	DropScopes  []string `json:"drop_scopes,omitempty"`
	Veto        bool     `json:"veto,omitempty"`
	VerifyThird bool     `json:"verify_third,omitempty"` // TokenExchangeTokensVerifierStorage accepts tokens "third:<sub>"
	// NoLivenessCheck: ValidateTokenExchangeRequest does NOT check that access tokens presented as subject / actor are still
	// live in the store (the default, diligent store does: the framework itself never consults the storage for them).
	NoLivenessCheck bool `json:"no_liveness_check,omitempty"`
}

// StorePolicy collects the storage-side configuration.
type StorePolicy struct {
	AccessTTLS           int      `json:"access_ttl_s,omitempty"`  // default 300
	RefreshTTLS          int      `json:"refresh_ttl_s,omitempty"` // default 18000
	NarrowPersists       bool     `json:"narrow_persists,omitempty"`
	ExtraAudience        []string `json:"extra_audience,omitempty"`
	SessionState         string   `json:"session_state,omitempty"` // non-empty: auth requests implement AuthRequestSessionState
	TE                   TEPolicy `json:"te"`
	JWTProfileJWT        bool     `json:"jwt_profile_jwt,omitempty"` // JWTProfileTokenType returns JWT
	PromptNoneLoginError bool     `json:"prompt_none_error,omitempty"`
	// RefreshIDs: refresh records get an id ("rid-N") that differs from the token string; GetRefreshTokenInfo returns that id
	// and RevokeToken finds refresh records by it only (as in storages whose refresh ids differ from the token value).
	RefreshIDs bool   `json:"refresh_ids,omitempty"`
	ACR        string `json:"acr,omitempty"`
	// ErrStyle: how the storage reports its own refusals (see Store.refuse): "" plain error, "oidc", "wrapped", "server"
	ErrStyle string `json:"err_style,omitempty"`
	// NoRotate: a refresh keeps the refresh token - CreateAccessAndRefreshTokens hands the presented string back as the new
	// refresh token (the interface allows it: "newRefreshToken" is whatever the storage decides) instead of minting a new one.
	NoRotate bool `json:"no_rotate,omitempty"`
	// LaxDelete: DeleteAuthRequest of a request that does not exist (any more) reports success, as a map delete or an SQL
	// DELETE that affects no row does. The default store reports an error: the interface lets a storage do so, and it is
	// the only way the library can learn that a concurrent token request has already spent the code.
	LaxDelete bool `json:"lax_delete,omitempty"`
	// EmptySecretOK: AuthorizeClientIDSecret compares the presented secret with the stored one as plain strings, so a client
	// that holds no secret (private_key_jwt, public) "matches" an empty presented secret - as example/server/storage does.
	// A caller that presents nothing has proved nothing: whether such a client is served is the library's decision.
	EmptySecretOK bool `json:"empty_secret_ok,omitempty"`
}

// ---------------------------------------------------------------------------

// Store is the in-memory, diligent, journaling, fault-injecting storage.
type Store struct {
	mu       sync.Mutex
	Clients  map[string]*ClientSpec
	Policy   StorePolicy
	SignKey  SignKeySpec
	PubKeys  []PubKeySpec
	authReqs map[string]*AuthReq
	codes    map[string]string
	Tokens   map[string]*AccessTok
	Refresh  map[string]*RefreshTok
	Devices  map[string]*DeviceEntry
	userCode map[string]string
	Ended    [][2]string // TerminateSession(user, client) calls

	Journal   []JEntry
	curReq    int
	callInReq int
	Faults    []Fault
	n         int
	lineages  int
	NoJournal bool // concurrency checks switch the journal off (it would only grow)
	Roll      *KeyRoll
	rolled    bool
	signReads int
	gates     []*Gate
	gateSeen  map[string]int
}

func NewStore(clients []*ClientSpec, sk SignKeySpec, pol StorePolicy) *Store {
	s := &Store{
		Clients: map[string]*ClientSpec{}, Policy: pol, SignKey: sk,
		authReqs: map[string]*AuthReq{}, codes: map[string]string{}, Tokens: map[string]*AccessTok{},
		Refresh: map[string]*RefreshTok{}, Devices: map[string]*DeviceEntry{}, userCode: map[string]string{},
	}
	for _, c := range clients {
		s.Clients[c.ID] = c
	}
	s.PubKeys = []PubKeySpec{{KeyName: sk.KeyName, Alg: sk.Alg, KID: sk.KID, Use: "sig"}}
	return s
}

// BeginRequest is called by the agent before every HTTP request.
func (s *Store) BeginRequest() int {
	s.mu.Lock()
	defer s.mu.Unlock()
	s.curReq++
	s.callInReq = 0
	return s.curReq
}

// JournalLen returns the current journal length.
func (s *Store) JournalLen() int {
	s.mu.Lock()
	defer s.mu.Unlock()
	return len(s.Journal)
}

// CallsOf returns the journal entries of request req.
func (s *Store) CallsOf(req int) []JEntry {
	s.mu.Lock()
	defer s.mu.Unlock()
	var out []JEntry
	for _, e := range s.Journal {
		if e.Req == req {
			out = append(out, e)
		}
	}
	return out
}

// enter journals the call and decides whether a fault fires. Caller must not hold mu.
func (s *Store) enter(method string, args ...string) *Fault {
	if g := s.gateFor(method, false); g != nil {
		g.park()
	}
	s.mu.Lock()
	defer s.mu.Unlock()
	s.callInReq++
	var hit *Fault
	for i := range s.Faults {
		f := &s.Faults[i]
		if (f.Req == 0 || f.Req == s.curReq) && (f.Call == 0 || f.Call == s.callInReq) && (f.Method == "" || f.Method == method) {
			hit = f
			break
		}
	}
	if !s.NoJournal {
		s.Journal = append(s.Journal, JEntry{Req: s.curReq, Call: s.callInReq, Method: method, Args: args, Fault: hit != nil})
	}
	return hit
}

// Gate parks one storage call until the harness releases it, so that a check owns the interleaving of concurrent requests:
// the Nth call (1-based, counted per method over the life of the store) of Method blocks either on entry (before the
// storage looked at its state) or on exit (the result is computed, the answer is delayed). Nothing in the library sees a
// difference from a slow storage. A parked call resumes by itself after GateTimeout so that a harness bug cannot wedge a run.
type Gate struct {
	Method   string
	Nth      int
	AtExit   bool
	parked   chan struct{}
	release  chan struct{}
	TimedOut bool
}

const GateTimeout = 20 * time.Second

// AddGate registers a gate; call it before the request that is to be parked is sent.
func (s *Store) AddGate(method string, nth int, atExit bool) *Gate {
	g := &Gate{Method: method, Nth: nth, AtExit: atExit, parked: make(chan struct{}), release: make(chan struct{})}
	s.mu.Lock()
	s.gates = append(s.gates, g)
	s.mu.Unlock()
	return g
}

// WaitParked reports whether the gated call arrived (and is now blocked) within d.
func (g *Gate) WaitParked(d time.Duration) bool {
	select {
	case <-g.parked:
		return true
	case <-time.After(d):
		return false
	}
}

// Release lets the parked call (or a call that has not arrived yet) continue. Idempotent.
func (g *Gate) Release() {
	select {
	case <-g.release:
	default:
		close(g.release)
	}
}

func (s *Store) gateFor(method string, atExit bool) *Gate {
	s.mu.Lock()
	defer s.mu.Unlock()
	if len(s.gates) == 0 {
		return nil
	}
	if s.gateSeen == nil {
		s.gateSeen = map[string]int{}
	}
	k := method
	if atExit {
		k += "/exit"
	}
	s.gateSeen[k]++
	for _, g := range s.gates {
		if g.Method == method && g.AtExit == atExit && g.Nth == s.gateSeen[k] {
			return g
		}
	}
	return nil
}

func (g *Gate) park() {
	close(g.parked)
	select {
	case <-g.release:
	case <-time.After(GateTimeout):
		g.TimedOut = true
	}
}

// leave is deferred by every storage method: exit gates park here, after the method computed its result.
func (s *Store) leave(method string) {
	if g := s.gateFor(method, true); g != nil {
		g.park()
	}
}

func (s *Store) nextID(prefix string) string {
	s.n++
	return fmt.Sprintf("%s-%d", prefix, s.n)
}

func (s *Store) accessTTL() time.Duration {
	if s.Policy.AccessTTLS != 0 {
		return time.Duration(s.Policy.AccessTTLS) * time.Second
	}
	return 5 * time.Minute
}

func (s *Store) refreshTTL() time.Duration {
	if s.Policy.RefreshTTLS != 0 {
		return time.Duration(s.Policy.RefreshTTLS) * time.Second
	}
	return 5 * time.Hour
}

// ---------------------------------------------------------------------------
// op.AuthStorage

func (s *Store) CreateAuthRequest(ctx context.Context, r *oidc.AuthRequest, userID string) (op.AuthRequest, error) {
	defer s.leave("CreateAuthRequest")
	f := s.enter("CreateAuthRequest", r.ClientID, r.RedirectURI)
	if f != nil && f.Kind != "partial" {
		return nil, f.err()
	}
	s.mu.Lock()
	defer s.mu.Unlock()
	if s.Policy.PromptNoneLoginError && len(r.Prompt) == 1 && r.Prompt[0] == "none" {
		return nil, oidc.ErrLoginRequired()
	}
	a := &AuthReq{
		ID: s.nextID("ar"), ClientID: r.ClientID, RedirectURI: r.RedirectURI, State: r.State, Nonce: r.Nonce,
		Scopes: slices.Clone([]string(r.Scopes)), ResponseType: r.ResponseType, ResponseMode: r.ResponseMode,
		Prompt: r.Prompt, MaxAge: r.MaxAge, LoginHint: r.LoginHint, UILocales: r.UILocales, HintSubject: userID,
		ExtraAudience: s.Policy.ExtraAudience, SessionState: s.Policy.SessionState, ACR: s.Policy.ACR,
	}
	if r.CodeChallenge != "" {
		a.Challenge = &oidc.CodeChallenge{Challenge: r.CodeChallenge, Method: r.CodeChallengeMethod}
	}
	s.authReqs[a.ID] = a
	if f != nil {
		return s.wrapAR(a), f.err()
	}
	return s.wrapAR(a), nil
}

func (s *Store) wrapAR(a *AuthReq) op.AuthRequest {
	if a.SessionState != "" {
		return authReqSS{a}
	}
	return a
}

func (s *Store) AuthRequestByID(ctx context.Context, id string) (op.AuthRequest, error) {
	defer s.leave("AuthRequestByID")
	f := s.enter("AuthRequestByID", id)
	if f != nil && f.Kind != "partial" {
		return nil, f.err()
	}
	s.mu.Lock()
	defer s.mu.Unlock()
	a, ok := s.authReqs[id]
	if !ok {
		return nil, s.refuse("request", "auth request not found")
	}
	if f != nil {
		return s.wrapAR(a), f.err()
	}
	return s.wrapAR(a), nil
}

func (s *Store) AuthRequestByCode(ctx context.Context, code string) (op.AuthRequest, error) {
	defer s.leave("AuthRequestByCode")
	f := s.enter("AuthRequestByCode", code)
	if f != nil && f.Kind != "partial" {
		return nil, f.err()
	}
	s.mu.Lock()
	defer s.mu.Unlock()
	id, ok := s.codes[code]
	if !ok {
		return nil, s.refuse("grant", "code invalid or expired")
	}
	a, ok := s.authReqs[id]
	if !ok {
		return nil, s.refuse("request", "auth request not found")
	}
	if f != nil {
		return s.wrapAR(a), f.err()
	}
	return s.wrapAR(a), nil
}

func (s *Store) SaveAuthCode(ctx context.Context, id, code string) error {
	defer s.leave("SaveAuthCode")
	f := s.enter("SaveAuthCode", id, code)
	if f != nil && f.Kind != "partial" {
		return f.err()
	}
	s.mu.Lock()
	defer s.mu.Unlock()
	if _, ok := s.authReqs[id]; !ok {
		return s.refuse("request", "auth request not found")
	}
	s.codes[code] = id
	if f != nil {
		return f.err()
	}
	return nil
}

func (s *Store) DeleteAuthRequest(ctx context.Context, id string) error {
	defer s.leave("DeleteAuthRequest")
	f := s.enter("DeleteAuthRequest", id)
	if f != nil && f.Kind != "partial" {
		return f.err()
	}
	s.mu.Lock()
	defer s.mu.Unlock()
	if _, ok := s.authReqs[id]; !ok && !s.Policy.LaxDelete {
		// diligent: the request is gone (another token request spent it meanwhile) - tell the library, so that it can refuse
		// to hand out what it built for a request that no longer exists
		return s.refuse("grant", "auth request does not exist (any more)")
	}
	delete(s.authReqs, id)
	for c, rid := range s.codes {
		if rid == id {
			delete(s.codes, c)
		}
	}
	if f != nil {
		return f.err()
	}
	return nil
}

func reqClient(req op.TokenRequest) (clientID, flow, actor string) {
	switch r := req.(type) {
	case *AuthReq:
		return r.ClientID, "auth", ""
	case authReqSS:
		return r.ClientID, "auth", ""
	case *RefreshReq:
		return r.rt.ClientID, "refresh", ""
	case *CCReq:
		return r.ClientID, "client_credentials", ""
	case *op.DeviceAuthorizationState:
		return r.ClientID, "device", ""
	case op.TokenExchangeRequest:
		return r.GetClientID(), "exchange", r.GetExchangeActor()
	case *oidc.JWTTokenRequest:
		return r.Issuer, "jwt_bearer", ""
	}
	return "", "unknown", ""
}

func (s *Store) newAccess(req op.TokenRequest, refreshID string) *AccessTok {
	cid, flow, actor := reqClient(req)
	t := &AccessTok{
		ID: s.nextID("at"), ClientID: cid, Subject: req.GetSubject(), Audience: slices.Clone(req.GetAudience()),
		Scopes: slices.Clone(req.GetScopes()), Exp: time.Now().Add(s.accessTTL()), RefreshID: refreshID, Flow: flow, Actor: actor,
	}
	s.Tokens[t.ID] = t
	return t
}

func (s *Store) CreateAccessToken(ctx context.Context, req op.TokenRequest) (string, time.Time, error) {
	defer s.leave("CreateAccessToken")
	f := s.enter("CreateAccessToken", req.GetSubject())
	if f != nil && f.Kind != "partial" {
		return "", time.Time{}, f.err()
	}
	s.mu.Lock()
	defer s.mu.Unlock()
	t := s.newAccess(req, "")
	if f != nil {
		return t.ID, t.Exp, f.err()
	}
	return t.ID, t.Exp, nil
}

func (s *Store) CreateAccessAndRefreshTokens(ctx context.Context, req op.TokenRequest, current string) (string, string, time.Time, error) {
	defer s.leave("CreateAccessAndRefreshTokens")
	f := s.enter("CreateAccessAndRefreshTokens", req.GetSubject(), current)
	if f != nil && f.Kind != "partial" {
		return "", "", time.Time{}, f.err()
	}
	s.mu.Lock()
	defer s.mu.Unlock()
	var authTime time.Time
	var amr []string
	lineage := 0
	orig := slices.Clone(req.GetScopes())
	if current != "" {
		old, ok := s.Refresh[current]
		if !ok || old.Dead || time.Now().After(old.Exp) {
			return "", "", time.Time{}, s.refuse("grant", "invalid refresh token")
		}
		rr, isRefresh := req.(*RefreshReq)
		if !isRefresh || rr.rt != old {
			return "", "", time.Time{}, s.refuse("grant", "refresh token does not belong to this request")
		}
		if at, ok := s.Tokens[old.AccessID]; ok {
			at.Revoked = true
		}
		if s.Policy.NoRotate {
			// a storage that keeps the refresh token: the record lives on, the presented string is handed back as the "new" token
			if s.Policy.NarrowPersists {
				old.Scopes = slices.Clone(req.GetScopes())
			}
			at := s.newAccess(req, old.Token)
			old.AccessID = at.ID
			if f != nil {
				return at.ID, old.Token, at.Exp, f.err()
			}
			return at.ID, old.Token, at.Exp, nil
		}
		old.Dead = true
		authTime, amr, lineage, orig = old.AuthTime, old.AMR, old.Lineage, old.OrigScopes
	} else {
		s.lineages++
		lineage = s.lineages
		switch r := req.(type) {
		case *AuthReq:
			authTime, amr = r.AuthTime, r.AMR
		case authReqSS:
			authTime, amr = r.AuthTime, r.AMR
		case *op.DeviceAuthorizationState:
			authTime, amr = r.AuthTime, r.AMR
		case op.TokenExchangeRequest:
			authTime = r.GetAuthTime()
		}
	}
	cid, _, _ := reqClient(req)
	rt := &RefreshTok{
		Token: s.nextID("rt") + "-" + B64([]byte(fmt.Sprint(s.n*7919))), ClientID: cid, Subject: req.GetSubject(),
		Audience: slices.Clone(req.GetAudience()), Scopes: slices.Clone(req.GetScopes()), OrigScopes: orig,
		AuthTime: authTime, AMR: amr, Exp: time.Now().Add(s.refreshTTL()), Lineage: lineage,
	}
	if s.Policy.RefreshIDs {
		rt.ID = s.nextID("rid")
	}
	if current != "" && !s.Policy.NarrowPersists {
		// the grant keeps its original breadth; only this access token is narrowed
		rt.Scopes = slices.Clone(orig)
	}
	at := s.newAccess(req, rt.Token)
	rt.AccessID = at.ID
	s.Refresh[rt.Token] = rt
	if f != nil {
		return at.ID, rt.Token, at.Exp, f.err()
	}
	return at.ID, rt.Token, at.Exp, nil
}

func (s *Store) TokenRequestByRefreshToken(ctx context.Context, token string) (op.RefreshTokenRequest, error) {
	defer s.leave("TokenRequestByRefreshToken")
	f := s.enter("TokenRequestByRefreshToken", token)
	if f != nil && f.Kind != "partial" {
		return nil, f.err()
	}
	s.mu.Lock()
	defer s.mu.Unlock()
	rt, ok := s.Refresh[token]
	if !ok || rt.Dead || time.Now().After(rt.Exp) {
		return nil, s.refuse("grant", "invalid refresh token")
	}
	r := &RefreshReq{rt: rt, scopes: slices.Clone(rt.Scopes)}
	if f != nil {
		return r, f.err()
	}
	return r, nil
}

func (s *Store) TerminateSession(ctx context.Context, userID, clientID string) error {
	defer s.leave("TerminateSession")
	f := s.enter("TerminateSession", userID, clientID)
	if f != nil && f.Kind != "partial" {
		return f.err()
	}
	s.mu.Lock()
	defer s.mu.Unlock()
	s.terminate(userID, clientID)
	if f != nil {
		return f.err()
	}
	return nil
}

func (s *Store) terminate(userID, clientID string) {
	s.Ended = append(s.Ended, [2]string{userID, clientID})
	for _, t := range s.Tokens {
		if t.ClientID == clientID && t.Subject == userID {
			t.Revoked = true
		}
	}
	for _, r := range s.Refresh {
		if r.ClientID == clientID && r.Subject == userID {
			r.Dead = true
		}
	}
}

func (s *Store) RevokeToken(ctx context.Context, tokenOrID, userID, clientID string) *oidc.Error {
	defer s.leave("RevokeToken")
	f := s.enter("RevokeToken", tokenOrID, userID, clientID)
	if f != nil && f.Kind != "partial" {
		return oidc.ErrServerError().WithParent(f.err())
	}
	s.mu.Lock()
	defer s.mu.Unlock()
	var res *oidc.Error
	if at, ok := s.Tokens[tokenOrID]; ok {
		if at.ClientID != clientID {
			res = oidc.ErrInvalidClient().WithDescription("token was not issued for this client")
		} else {
			at.Revoked = true
		}
	} else if rt, ok := s.refreshByRevocationID(tokenOrID); ok {
		if rt.ClientID != clientID {
			res = oidc.ErrInvalidClient().WithDescription("token was not issued for this client")
		} else {
			rt.Dead = true
			if at, ok := s.Tokens[rt.AccessID]; ok {
				at.Revoked = true
			}
		}
	}
	if f != nil {
		return oidc.ErrServerError().WithParent(f.err())
	}
	return res
}

// refreshByRevocationID: the id RevokeToken receives for a refresh token is what GetRefreshTokenInfo returned.
func (s *Store) refreshByRevocationID(id string) (*RefreshTok, bool) {
	if !s.Policy.RefreshIDs {
		rt, ok := s.Refresh[id]
		return rt, ok
	}
	for _, rt := range s.Refresh {
		if rt.ID == id {
			return rt, true
		}
	}
	return nil, false
}

func (s *Store) GetRefreshTokenInfo(ctx context.Context, clientID, token string) (string, string, error) {
	defer s.leave("GetRefreshTokenInfo")
	f := s.enter("GetRefreshTokenInfo", clientID, token)
	if f != nil && f.Kind != "partial" {
		return "", "", f.err()
	}
	s.mu.Lock()
	defer s.mu.Unlock()
	rt, ok := s.Refresh[token]
	if !ok {
		return "", "", s.sentinel(op.ErrInvalidRefreshToken)
	}
	id := rt.Token
	if s.Policy.RefreshIDs {
		id = rt.ID
	}
	if f != nil {
		return rt.Subject, id, f.err()
	}
	return rt.Subject, id, nil
}

func (s *Store) SigningKey(ctx context.Context) (op.SigningKey, error) {
	defer s.leave("SigningKey")
	f := s.enter("SigningKey")
	if f != nil && f.Kind != "partial" {
		return nil, f.err()
	}
	s.mu.Lock()
	defer s.mu.Unlock()
	// key roll-over: the storage switches to the next signing key once SigningKey has been read RollAfter times (the
	// roll-over can thus land between two reads of one request); both public keys are published throughout
	if s.Roll != nil && !s.rolled && s.signReads >= s.Roll.After {
		s.SignKey, s.rolled = s.Roll.Next, true
	}
	s.signReads++
	if f != nil {
		return signingKey{s.SignKey}, f.err()
	}
	return signingKey{s.SignKey}, nil
}

// KeyRoll describes a signing-key roll-over of the storage (see SigningKey).
type KeyRoll struct {
	After int         `json:"after"` // number of SigningKey reads answered with the old key
	Next  SignKeySpec `json:"next"`
}

// SetKeyRoll arms a roll-over and publishes the next key next to the current one.
func (s *Store) SetKeyRoll(r KeyRoll) {
	s.mu.Lock()
	defer s.mu.Unlock()
	s.Roll, s.rolled, s.signReads = &r, false, 0
	s.PubKeys = append(s.PubKeys, PubKeySpec{KeyName: r.Next.KeyName, Alg: r.Next.Alg, KID: r.Next.KID, Use: "sig"})
}

func (s *Store) SignatureAlgorithms(ctx context.Context) ([]jose.SignatureAlgorithm, error) {
	defer s.leave("SignatureAlgorithms")
	f := s.enter("SignatureAlgorithms")
	if f != nil {
		return nil, f.err()
	}
	s.mu.Lock()
	defer s.mu.Unlock()
	algs := []jose.SignatureAlgorithm{jose.SignatureAlgorithm(s.SignKey.Alg)}
	for _, k := range s.PubKeys {
		if a := jose.SignatureAlgorithm(k.Alg); k.Alg != "" && !slices.Contains(algs, a) {
			algs = append(algs, a)
		}
	}
	return algs, nil
}

func (s *Store) KeySet(ctx context.Context) ([]op.Key, error) {
	defer s.leave("KeySet")
	f := s.enter("KeySet")
	if f != nil && f.Kind != "partial" {
		return nil, f.err()
	}
	s.mu.Lock()
	defer s.mu.Unlock()
	out := make([]op.Key, len(s.PubKeys))
	for i, k := range s.PubKeys {
		out[i] = pubKey{k}
	}
	if f != nil {
		return out, f.err()
	}
	return out, nil
}

// ---------------------------------------------------------------------------
// op.OPStorage

func (s *Store) GetClientByClientID(ctx context.Context, id string) (op.Client, error) {
	defer s.leave("GetClientByClientID")
	f := s.enter("GetClientByClientID", id)
	if f != nil && f.Kind != "partial" {
		return nil, f.err()
	}
	s.mu.Lock()
	defer s.mu.Unlock()
	c, ok := s.Clients[id]
	if !ok {
		return nil, s.refuse("client", "client not found")
	}
	if f != nil {
		return AsOPClient(c), f.err()
	}
	return AsOPClient(c), nil
}

func (s *Store) AuthorizeClientIDSecret(ctx context.Context, id, secret string) error {
	defer s.leave("AuthorizeClientIDSecret")
	f := s.enter("AuthorizeClientIDSecret", id)
	if f != nil {
		return f.err()
	}
	s.mu.Lock()
	defer s.mu.Unlock()
	c, ok := s.Clients[id]
	if !ok {
		return s.refuse("client", "client not found")
	}
	if c.Secret == "" && secret == "" && s.Policy.EmptySecretOK {
		return nil
	}
	if c.Secret == "" || c.Secret != secret {
		return s.refuse("client", "invalid secret")
	}
	return nil
}

func fillUserinfo(ui *oidc.UserInfo, userID, clientID string, scopes []string) error {
	u := Users[userID]
	if u == nil {
		return errors.New("user not found")
	}
	for _, sc := range scopes {
		switch sc {
		case "openid":
			ui.Subject = u.ID
		case "email":
			ui.Email = u.Email
			ui.EmailVerified = oidc.Bool(u.EmailVerified)
		case "profile":
			ui.PreferredUsername = u.Username
			ui.Name = u.Given + " " + u.Family
			ui.GivenName = u.Given
			ui.FamilyName = u.Family
			ui.Locale = oidc.NewLocale(language.MustParse(u.Locale))
		case "phone":
			ui.PhoneNumber = u.Phone
			ui.PhoneNumberVerified = u.PhoneVerified
		case "address":
			ui.Address = &oidc.UserInfoAddress{Locality: "town-of-" + u.ID}
		case CustomScope:
			ui.AppendClaims(CustomClaim, map[string]any{"client": clientID, "user": u.ID})
		}
	}
	return nil
}

const (
	CustomScope = "custom_scope"
	CustomClaim = "custom_claim"
)

func (s *Store) SetUserinfoFromScopes(ctx context.Context, ui *oidc.UserInfo, userID, clientID string, scopes []string) error {
	defer s.leave("SetUserinfoFromScopes")
	f := s.enter("SetUserinfoFromScopes", userID, clientID, strings.Join(scopes, " "))
	if f != nil && f.Kind != "partial" {
		return f.err()
	}
	// service accounts (client_credentials / jwt-bearer subjects) have no user record
	if _, ok := Users[userID]; !ok {
		ui.Subject = userID
	} else if err := fillUserinfo(ui, userID, clientID, scopes); err != nil {
		return err
	}
	if f != nil {
		return f.err()
	}
	return nil
}

func (s *Store) liveToken(tokenID, subject string) (*AccessTok, error) {
	t, ok := s.Tokens[tokenID]
	if !ok {
		return nil, s.refuse("token", "token unknown")
	}
	if t.Revoked {
		return nil, s.refuse("token", "token revoked")
	}
	if time.Now().After(t.Exp) {
		return nil, s.refuse("token", "token expired")
	}
	if t.Subject != subject {
		return nil, s.refuse("token", "subject mismatch")
	}
	return t, nil
}

func (s *Store) SetUserinfoFromToken(ctx context.Context, ui *oidc.UserInfo, tokenID, subject, origin string) error {
	defer s.leave("SetUserinfoFromToken")
	f := s.enter("SetUserinfoFromToken", tokenID, subject)
	if f != nil && f.Kind != "partial" {
		return f.err()
	}
	s.mu.Lock()
	defer s.mu.Unlock()
	if f != nil {
		// partial fill: the out-parameter already carries claims when the failure is reported
		if t, ok := s.Tokens[tokenID]; ok {
			fillUserinfo(ui, t.Subject, t.ClientID, t.Scopes)
		} else {
			ui.Subject = subject
			ui.Email = "partial@example.com"
		}
		return f.err()
	}
	t, err := s.liveToken(tokenID, subject)
	if err != nil {
		return err
	}
	if _, ok := Users[t.Subject]; !ok {
		ui.Subject = t.Subject
		return nil
	}
	return fillUserinfo(ui, t.Subject, t.ClientID, t.Scopes)
}

func (s *Store) SetIntrospectionFromToken(ctx context.Context, ir *oidc.IntrospectionResponse, tokenID, subject, clientID string) error {
	defer s.leave("SetIntrospectionFromToken")
	f := s.enter("SetIntrospectionFromToken", tokenID, subject, clientID)
	if f != nil && f.Kind != "partial" {
		return f.err()
	}
	s.mu.Lock()
	defer s.mu.Unlock()
	fill := func(t *AccessTok) {
		ui := new(oidc.UserInfo)
		if _, ok := Users[t.Subject]; ok {
			fillUserinfo(ui, t.Subject, t.ClientID, t.Scopes)
		}
		ir.SetUserInfo(ui)
		ir.Subject = t.Subject
		ir.Scope = t.Scopes
		ir.ClientID = t.ClientID
		ir.Audience = t.Audience
		ir.Expiration = oidc.FromTime(t.Exp)
		ir.JWTID = t.ID
	}
	if f != nil {
		if t, ok := s.Tokens[tokenID]; ok {
			fill(t)
		} else {
			ir.Subject = subject
			ir.ClientID = "partial"
		}
		return f.err()
	}
	t, err := s.liveToken(tokenID, subject)
	if err != nil {
		return err
	}
	if !slices.Contains(t.Audience, clientID) {
		return s.refuse("token", "caller not in audience")
	}
	fill(t)
	return nil
}

func privateClaims(clientID string, scopes []string) map[string]any {
	var claims map[string]any
	for _, sc := range scopes {
		if sc == CustomScope {
			claims = map[string]any{CustomClaim: map[string]any{"client": clientID}}
		}
	}
	return claims
}

func (s *Store) GetPrivateClaimsFromScopes(ctx context.Context, userID, clientID string, scopes []string) (map[string]any, error) {
	defer s.leave("GetPrivateClaimsFromScopes")
	f := s.enter("GetPrivateClaimsFromScopes", userID, clientID, strings.Join(scopes, " "))
	if f != nil && f.Kind != "partial" {
		return nil, f.err()
	}
	c := privateClaims(clientID, scopes)
	if f != nil {
		return c, f.err()
	}
	return c, nil
}

func (s *Store) GetKeyByIDAndClientID(ctx context.Context, keyID, clientID string) (*jose.JSONWebKey, error) {
	defer s.leave("GetKeyByIDAndClientID")
	f := s.enter("GetKeyByIDAndClientID", keyID, clientID)
	if f != nil && f.Kind != "partial" {
		return nil, f.err()
	}
	s.mu.Lock()
	defer s.mu.Unlock()
	c, ok := s.Clients[clientID]
	if !ok {
		return nil, s.refuse("client", "client not found")
	}
	kn, ok := c.Keys[keyID]
	if !ok {
		return nil, s.refuse("client", "key not found")
	}
	jwk := Key(kn).JWK(keyID, "sig", "")
	if f != nil {
		return &jwk, f.err()
	}
	return &jwk, nil
}

func (s *Store) ValidateJWTProfileScopes(ctx context.Context, userID string, scopes []string) ([]string, error) {
	defer s.leave("ValidateJWTProfileScopes")
	f := s.enter("ValidateJWTProfileScopes", userID, strings.Join(scopes, " "))
	if f != nil && f.Kind != "partial" {
		return nil, f.err()
	}
	out := []string{}
	for _, sc := range scopes {
		if sc == "openid" || sc == CustomScope {
			out = append(out, sc)
		}
	}
	if f != nil {
		return out, f.err()
	}
	return out, nil
}

func (s *Store) Health(ctx context.Context) error {
	defer s.leave("Health")
	if f := s.enter("Health"); f != nil {
		return f.err()
	}
	return nil
}

// ---------------------------------------------------------------------------
// optional capabilities (exposed through the wrapper types in caps.go)

func (s *Store) clientCredentials(ctx context.Context, id, secret string) (op.Client, error) {
	defer s.leave("ClientCredentials")
	f := s.enter("ClientCredentials", id)
	if f != nil && f.Kind != "partial" {
		return nil, f.err()
	}
	s.mu.Lock()
	defer s.mu.Unlock()
	c, ok := s.Clients[id]
	if !ok || !c.Service || c.Secret == "" || c.Secret != secret {
		return nil, s.refuse("client", "wrong service user or password")
	}
	if f != nil {
		return AsOPClient(c), f.err()
	}
	return AsOPClient(c), nil
}

func (s *Store) clientCredentialsTokenRequest(ctx context.Context, id string, scopes []string) (op.TokenRequest, error) {
	defer s.leave("ClientCredentialsTokenRequest")
	f := s.enter("ClientCredentialsTokenRequest", id)
	if f != nil && f.Kind != "partial" {
		return nil, f.err()
	}
	s.mu.Lock()
	defer s.mu.Unlock()
	if c, ok := s.Clients[id]; !ok || !c.Service {
		return nil, s.refuse("client", "wrong service user or password")
	}
	r := &CCReq{ClientID: id, Scopes: slices.Clone(scopes)}
	if f != nil {
		return r, f.err()
	}
	return r, nil
}

func (s *Store) validateTokenExchangeRequest(ctx context.Context, r op.TokenExchangeRequest) error {
	defer s.leave("ValidateTokenExchangeRequest")
	f := s.enter("ValidateTokenExchangeRequest", r.GetExchangeSubject(), string(r.GetRequestedTokenType()))
	if f != nil {
		return f.err()
	}
	p := s.Policy.TE
	if p.Veto {
		return oidc.ErrInvalidRequest().WithDescription("exchange not permitted")
	}
	// diligent: the framework only decrypts / verifies access tokens presented as subject or actor, it never asks the
	// storage whether they are still live; the token id is handed to this call, so the liveness check is made here.
	if !s.Policy.TE.NoLivenessCheck {
		s.mu.Lock()
		var lerr error
		if r.GetExchangeSubjectTokenType() == oidc.AccessTokenType && !strings.HasPrefix(r.GetExchangeSubjectTokenIDOrToken(), "third:") {
			_, lerr = s.liveToken(r.GetExchangeSubjectTokenIDOrToken(), r.GetExchangeSubject())
		}
		if lerr == nil && r.GetExchangeActorTokenType() == oidc.AccessTokenType && (r.GetExchangeActorTokenIDOrToken() != "" || r.GetExchangeActor() != "") &&
			!strings.HasPrefix(r.GetExchangeActorTokenIDOrToken(), "third:") {
			_, lerr = s.liveToken(r.GetExchangeActorTokenIDOrToken(), r.GetExchangeActor())
		}
		s.mu.Unlock()
		if lerr != nil {
			return oidc.ErrInvalidRequest().WithDescription("subject or actor token is not live").WithParent(lerr)
		}
	}
	if r.GetRequestedTokenType() == "" {
		switch p.DefaultType {
		case "refresh":
			r.SetRequestedTokenType(oidc.RefreshTokenType)
		case "id":
			r.SetRequestedTokenType(oidc.IDTokenType)
		case "none": // a storage that leaves an absent requested_token_type unset
		default:
			r.SetRequestedTokenType(oidc.AccessTokenType)
		}
	}
	if p.Impersonate != "" {
		r.SetSubject(p.Impersonate)
	}
	keep := []string{}
	for _, sc := range r.GetScopes() {
		if !slices.Contains(p.DropScopes, sc) && sc != "" {
			keep = append(keep, sc)
		}
	}
	r.SetCurrentScopes(keep)
	return nil
}

func (s *Store) createTokenExchangeRequest(ctx context.Context, r op.TokenExchangeRequest) error {
	defer s.leave("CreateTokenExchangeRequest")
	if f := s.enter("CreateTokenExchangeRequest", r.GetSubject()); f != nil {
		return f.err()
	}
	return nil
}

func (s *Store) tePrivateClaims(ctx context.Context, r op.TokenExchangeRequest) (map[string]any, error) {
	defer s.leave("GetPrivateClaimsFromTokenExchangeRequest")
	f := s.enter("GetPrivateClaimsFromTokenExchangeRequest", r.GetSubject())
	if f != nil && f.Kind != "partial" {
		return nil, f.err()
	}
	claims := privateClaims(r.GetClientID(), r.GetScopes())
	if a := r.GetExchangeActor(); a != "" {
		if claims == nil {
			claims = map[string]any{}
		}
		claims["act"] = map[string]any{"sub": a}
	}
	if f != nil {
		return claims, f.err()
	}
	return claims, nil
}

func (s *Store) teUserinfo(ctx context.Context, ui *oidc.UserInfo, r op.TokenExchangeRequest) error {
	defer s.leave("SetUserinfoFromTokenExchangeRequest")
	f := s.enter("SetUserinfoFromTokenExchangeRequest", r.GetSubject())
	if f != nil && f.Kind != "partial" {
		return f.err()
	}
	if _, ok := Users[r.GetSubject()]; ok {
		if err := fillUserinfo(ui, r.GetSubject(), r.GetClientID(), r.GetScopes()); err != nil {
			return err
		}
	}
	ui.Subject = r.GetSubject()
	if a := r.GetExchangeActor(); a != "" {
		ui.AppendClaims("act", map[string]any{"sub": a})
	}
	if f != nil {
		return f.err()
	}
	return nil
}

func (s *Store) verifyThird(ctx context.Context, token string, tt oidc.TokenType, actor bool) (string, string, map[string]any, error) {
	defer s.leave("VerifyExchangeToken")
	f := s.enter("VerifyExchangeToken", token, string(tt))
	if f != nil {
		return "", "", nil, f.err()
	}
	if s.Policy.TE.VerifyThird && strings.HasPrefix(token, "third:") {
		return token, strings.TrimPrefix(token, "third:"), map[string]any{"third": true}, nil
	}
	return "", "", nil, s.refuse("token", "unknown third party token")
}

func (s *Store) storeDeviceAuthorization(ctx context.Context, clientID, deviceCode, userCode string, expires time.Time, scopes []string) error {
	defer s.leave("StoreDeviceAuthorization")
	f := s.enter("StoreDeviceAuthorization", clientID, deviceCode, userCode)
	if f != nil && f.Kind != "partial" {
		return f.err()
	}
	s.mu.Lock()
	defer s.mu.Unlock()
	if _, ok := s.Clients[clientID]; !ok {
		return s.refuse("client", "client not found")
	}
	if _, ok := s.userCode[userCode]; ok {
		return s.sentinel(op.ErrDuplicateUserCode)
	}
	s.Devices[deviceCode] = &DeviceEntry{DeviceCode: deviceCode, UserCode: userCode,
		State: &op.DeviceAuthorizationState{ClientID: clientID, Scopes: slices.Clone(scopes), Expires: expires}}
	s.userCode[userCode] = deviceCode
	if f != nil {
		return f.err()
	}
	return nil
}

func (s *Store) getDeviceAuthorizationState(ctx context.Context, clientID, deviceCode string) (*op.DeviceAuthorizationState, error) {
	defer s.leave("GetDeviceAuthorizatonState")
	f := s.enter("GetDeviceAuthorizatonState", clientID, deviceCode)
	if f != nil && f.Kind != "partial" {
		return nil, f.err()
	}
	if ctx.Err() != nil {
		return nil, ctx.Err()
	}
	s.mu.Lock()
	defer s.mu.Unlock()
	e, ok := s.Devices[deviceCode]
	if !ok || e.State.ClientID != clientID {
		return nil, s.refuse("grant", "device code not found for client")
	}
	if f != nil {
		return e.State, f.err()
	}
	return e.State, nil
}

func (s *Store) terminateSessionFromRequest(ctx context.Context, r *op.EndSessionRequest) (string, error) {
	defer s.leave("TerminateSessionFromRequest")
	f := s.enter("TerminateSessionFromRequest", r.UserID, r.ClientID, r.RedirectURI)
	if f != nil && f.Kind != "partial" {
		return "", f.err()
	}
	s.mu.Lock()
	defer s.mu.Unlock()
	s.terminate(r.UserID, r.ClientID)
	if f != nil {
		return r.RedirectURI, f.err()
	}
	return r.RedirectURI, nil
}

func (s *Store) setUserinfoFromRequest(ctx context.Context, ui *oidc.UserInfo, r op.IDTokenRequest, scopes []string) error {
	defer s.leave("SetUserinfoFromRequest")
	f := s.enter("SetUserinfoFromRequest", r.GetSubject(), strings.Join(scopes, " "))
	if f != nil {
		return f.err()
	}
	ui.AppendClaims("from_request", r.GetClientID())
	return nil
}

func (s *Store) getPrivateClaimsFromRequest(ctx context.Context, r op.TokenRequest, scopes []string) (map[string]any, error) {
	defer s.leave("GetPrivateClaimsFromRequest")
	f := s.enter("GetPrivateClaimsFromRequest", r.GetSubject(), strings.Join(scopes, " "))
	if f != nil {
		return nil, f.err()
	}
	cid, _, _ := reqClient(r)
	c := privateClaims(cid, scopes)
	if c == nil {
		c = map[string]any{}
	}
	c["from_request"] = cid
	return c, nil
}

func (s *Store) jwtProfileTokenType(ctx context.Context, r op.TokenRequest) (op.AccessTokenType, error) {
	defer s.leave("JWTProfileTokenType")
	f := s.enter("JWTProfileTokenType", r.GetSubject())
	if f != nil {
		return op.AccessTokenTypeBearer, f.err()
	}
	if s.Policy.JWTProfileJWT {
		return op.AccessTokenTypeJWT, nil
	}
	return op.AccessTokenTypeBearer, nil
}

// ---------------------------------------------------------------------------
// test-side operations (never called by the framework)

// Login marks an auth request as completed by user.
func (s *Store) Login(reqID, userID string) bool {
	s.mu.Lock()
	defer s.mu.Unlock()
	a, ok := s.authReqs[reqID]
	if !ok {
		return false
	}
	a.UserID = userID
	a.IsDone = true
	a.AuthTime = time.Now().Add(-3 * time.Second).Truncate(time.Second)
	a.AMR = []string{"pwd"}
	return true
}

func (s *Store) AuthReqSnapshot(id string) (AuthReq, bool) {
	s.mu.Lock()
	defer s.mu.Unlock()
	a, ok := s.authReqs[id]
	if !ok {
		return AuthReq{}, false
	}
	return *a, true
}

func (s *Store) CodeRequest(code string) (string, bool) {
	s.mu.Lock()
	defer s.mu.Unlock()
	id, ok := s.codes[code]
	return id, ok
}

func (s *Store) TokenSnapshot(id string) (AccessTok, bool) {
	s.mu.Lock()
	defer s.mu.Unlock()
	t, ok := s.Tokens[id]
	if !ok {
		return AccessTok{}, false
	}
	return *t, true
}

func (s *Store) RefreshSnapshot(tok string) (RefreshTok, bool) {
	s.mu.Lock()
	defer s.mu.Unlock()
	t, ok := s.Refresh[tok]
	if !ok {
		return RefreshTok{}, false
	}
	return *t, true
}

func (s *Store) ExpireToken(id string) {
	s.mu.Lock()
	defer s.mu.Unlock()
	if t, ok := s.Tokens[id]; ok {
		t.Exp = time.Now().Add(-time.Hour)
	}
}

func (s *Store) ExpireRefresh(tok string) {
	s.mu.Lock()
	defer s.mu.Unlock()
	if t, ok := s.Refresh[tok]; ok {
		t.Exp = time.Now().Add(-time.Hour)
	}
}

func (s *Store) DeviceByUserCode(uc string) *DeviceEntry {
	s.mu.Lock()
	defer s.mu.Unlock()
	return s.Devices[s.userCode[uc]]
}

func (s *Store) ApproveDevice(deviceCode, userID string) bool {
	s.mu.Lock()
	defer s.mu.Unlock()
	e, ok := s.Devices[deviceCode]
	if !ok {
		return false
	}
	e.State.Subject = userID
	e.State.Done = true
	e.State.AuthTime = time.Now().Add(-2 * time.Second).Truncate(time.Second)
	e.State.AMR = []string{"pwd"}
	return true
}

func (s *Store) DenyDevice(deviceCode string) bool {
	s.mu.Lock()
	defer s.mu.Unlock()
	e, ok := s.Devices[deviceCode]
	if !ok {
		return false
	}
	e.State.Denied = true
	return true
}

func (s *Store) ExpireDevice(deviceCode string) bool {
	s.mu.Lock()
	defer s.mu.Unlock()
	e, ok := s.Devices[deviceCode]
	if !ok {
		return false
	}
	e.State.Expires = time.Now().Add(-time.Hour)
	return true
}

func (s *Store) DeviceSnapshot(deviceCode string) (op.DeviceAuthorizationState, string, bool) {
	s.mu.Lock()
	defer s.mu.Unlock()
	e, ok := s.Devices[deviceCode]
	if !ok {
		return op.DeviceAuthorizationState{}, "", false
	}
	return *e.State, e.UserCode, true
}

// SetFaults replaces the fault plan.
func (s *Store) SetFaults(f ...Fault) {
	s.mu.Lock()
	s.Faults = f
	s.mu.Unlock()
}
