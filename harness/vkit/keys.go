package vkit

import (
	"crypto"
	"crypto/ecdsa"
	"crypto/ed25519"
	"crypto/rsa"
	"crypto/x509"
	"embed"
	"encoding/pem"
	"fmt"
	"sort"
	"strings"

	jose "github.com/go-jose/go-jose/v4"
)

//go:embed keys/*.pem
var keyFS embed.FS

// KeyInfo is one entry of the fixed key pool (committed PEM test vectors, so
// that a run is a pure function of code + seed).
type KeyInfo struct {
	Name string
	Priv crypto.Signer
	Pub  crypto.PublicKey
	Kind string // RSA, P256, P384, P521, ED
}

var pool = map[string]*KeyInfo{}

// KeyNames lists the pool in a fixed order.
var KeyNames []string

func init() {
	ents, err := keyFS.ReadDir("keys")
	if err != nil {
		panic(err)
	}
	for _, e := range ents {
		b, _ := keyFS.ReadFile("keys/" + e.Name())
		blk, _ := pem.Decode(b)
		k, err := x509.ParsePKCS8PrivateKey(blk.Bytes)
		if err != nil {
			panic(err)
		}
		name := strings.TrimSuffix(e.Name(), ".pem")
		ki := &KeyInfo{Name: name, Priv: k.(crypto.Signer)}
		ki.Pub = ki.Priv.Public()
		switch p := k.(type) {
		case *rsa.PrivateKey:
			ki.Kind = "RSA"
		case *ecdsa.PrivateKey:
			ki.Kind = fmt.Sprintf("P%d", p.Curve.Params().BitSize)
		case ed25519.PrivateKey:
			ki.Kind = "ED"
		}
		pool[name] = ki
		KeyNames = append(KeyNames, name)
	}
	sort.Strings(KeyNames)
}

// Key returns a pool key by name (panics on unknown names: harness bug).
func Key(name string) *KeyInfo {
	k, ok := pool[name]
	if !ok {
		panic("vkit: unknown key " + name)
	}
	return k
}

// AlgFitsKey reports whether alg can be produced by key kind (independent of
// the library's algToKeyType).
func AlgFitsKey(alg string, k *KeyInfo) bool {
	switch alg {
	case "RS256", "RS384", "RS512", "PS256", "PS384", "PS512":
		return k.Kind == "RSA"
	case "ES256":
		return k.Kind == "P256"
	case "ES384":
		return k.Kind == "P384"
	case "ES512":
		return k.Kind == "P521"
	case "EdDSA":
		return k.Kind == "ED"
	}
	return false
}

// AlgFamilyFitsKey is the coarser relation the statement of C02 uses ("key
// type fits the algorithm"): RS/PS need RSA, ES needs EC, EdDSA needs Ed25519.
func AlgFamilyFitsKey(alg string, k *KeyInfo) bool {
	switch {
	case strings.HasPrefix(alg, "RS"), strings.HasPrefix(alg, "PS"):
		return k.Kind == "RSA"
	case strings.HasPrefix(alg, "ES"):
		return strings.HasPrefix(k.Kind, "P")
	case alg == "EdDSA":
		return k.Kind == "ED"
	}
	return false
}

// AlgsOf lists the algorithms a key can sign with.
func AlgsOf(k *KeyInfo) []string {
	switch k.Kind {
	case "RSA":
		return []string{"RS256", "RS384", "RS512", "PS256", "PS384", "PS512"}
	case "P256":
		return []string{"ES256"}
	case "P384":
		return []string{"ES384"}
	case "P521":
		return []string{"ES512"}
	case "ED":
		return []string{"EdDSA"}
	}
	return nil
}

// JWK returns the public JWK of the key.
func (k *KeyInfo) JWK(kid, use, alg string) jose.JSONWebKey {
	return jose.JSONWebKey{Key: k.Pub, KeyID: kid, Use: use, Algorithm: alg}
}

// PKCS8PEM / PKCS1PEM give the private key serialisations the client helpers read.
func (k *KeyInfo) PKCS8PEM() []byte {
	b, err := x509.MarshalPKCS8PrivateKey(k.Priv)
	if err != nil {
		panic(err)
	}
	return pem.EncodeToMemory(&pem.Block{Type: "PRIVATE KEY", Bytes: b})
}

func (k *KeyInfo) PKCS1PEM() []byte {
	r, ok := k.Priv.(*rsa.PrivateKey)
	if !ok {
		panic("not rsa")
	}
	return pem.EncodeToMemory(&pem.Block{Type: "RSA PRIVATE KEY", Bytes: x509.MarshalPKCS1PrivateKey(r)})
}

func (k *KeyInfo) ECPEM() []byte {
	e, ok := k.Priv.(*ecdsa.PrivateKey)
	if !ok {
		panic("not ec")
	}
	b, err := x509.MarshalECPrivateKey(e)
	if err != nil {
		panic(err)
	}
	return pem.EncodeToMemory(&pem.Block{Type: "EC PRIVATE KEY", Bytes: b})
}
