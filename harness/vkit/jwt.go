package vkit

import (
	"crypto"
	"crypto/ecdsa"
	"crypto/ed25519"
	"crypto/hmac"
	"crypto/rand"
	"crypto/rsa"
	"crypto/sha256"
	"crypto/sha512"
	"crypto/x509"
	"encoding/base64"
	"encoding/json"
	"encoding/pem"
	"fmt"
	"hash"
	"strings"
)

// B64 is base64url without padding.
func B64(b []byte) string { return base64.RawURLEncoding.EncodeToString(b) }

func UnB64(s string) ([]byte, error) { return base64.RawURLEncoding.DecodeString(s) }

func hashFor(alg string) (crypto.Hash, func() hash.Hash) {
	switch {
	case strings.HasSuffix(alg, "256"):
		return crypto.SHA256, sha256.New
	case strings.HasSuffix(alg, "384"):
		return crypto.SHA384, sha512.New384
	case strings.HasSuffix(alg, "512"):
		return crypto.SHA512, sha512.New
	}
	return 0, nil
}

// SignRaw signs input with alg using the harness' own code (crypto/* only;
// go-jose is not involved in producing tokens).
func SignRaw(alg string, key *KeyInfo, input []byte) ([]byte, error) {
	if alg == "none" {
		return nil, nil
	}
	if alg == "EdDSA" {
		k, ok := key.Priv.(ed25519.PrivateKey)
		if !ok {
			return nil, fmt.Errorf("key %s not ed25519", key.Name)
		}
		return ed25519.Sign(k, input), nil
	}
	ch, hf := hashFor(alg)
	if hf == nil {
		return nil, fmt.Errorf("unknown alg %q", alg)
	}
	h := hf()
	h.Write(input)
	digest := h.Sum(nil)
	switch alg[:2] {
	case "RS":
		k, ok := key.Priv.(*rsa.PrivateKey)
		if !ok {
			return nil, fmt.Errorf("key %s not rsa", key.Name)
		}
		return rsa.SignPKCS1v15(rand.Reader, k, ch, digest)
	case "PS":
		k, ok := key.Priv.(*rsa.PrivateKey)
		if !ok {
			return nil, fmt.Errorf("key %s not rsa", key.Name)
		}
		return rsa.SignPSS(rand.Reader, k, ch, digest, &rsa.PSSOptions{SaltLength: rsa.PSSSaltLengthEqualsHash})
	case "ES":
		k, ok := key.Priv.(*ecdsa.PrivateKey)
		if !ok {
			return nil, fmt.Errorf("key %s not ecdsa", key.Name)
		}
		r, s, err := ecdsa.Sign(rand.Reader, k, digest)
		if err != nil {
			return nil, err
		}
		n := (k.Curve.Params().BitSize + 7) / 8
		out := make([]byte, 2*n)
		r.FillBytes(out[:n])
		s.FillBytes(out[n:])
		return out, nil
	}
	return nil, fmt.Errorf("unknown alg %q", alg)
}

// HMACSig computes an HS* signature with an arbitrary secret.
func HMACSig(alg string, secret, input []byte) []byte {
	_, hf := hashFor(alg)
	m := hmac.New(hf, secret)
	m.Write(input)
	return m.Sum(nil)
}

// Token is a JWS in pieces so that manipulations are easy.
type Token struct {
	Header  string // base64url protected header
	Payload string // base64url payload
	Sig     string // base64url signature
}

func (t Token) Compact() string { return t.Header + "." + t.Payload + "." + t.Sig }

func (t Token) SigningInput() []byte { return []byte(t.Header + "." + t.Payload) }

// MakeToken signs payload under header hdr (alg is read from hdr["alg"]).
func MakeToken(hdr map[string]any, payload []byte, key *KeyInfo) (Token, error) {
	hb, err := json.Marshal(hdr)
	if err != nil {
		return Token{}, err
	}
	t := Token{Header: B64(hb), Payload: B64(payload)}
	alg, _ := hdr["alg"].(string)
	sig, err := SignRaw(alg, key, t.SigningInput())
	if err != nil {
		return Token{}, err
	}
	t.Sig = B64(sig)
	return t, nil
}

// SignJWT is the common case: compact JWS with alg and optional kid.
func SignJWT(alg, kid string, key *KeyInfo, payload []byte) (string, error) {
	hdr := map[string]any{"alg": alg, "typ": "JWT"}
	if kid != "" {
		hdr["kid"] = kid
	}
	t, err := MakeToken(hdr, payload, key)
	return t.Compact(), err
}

// MustSignJWT panics on harness misuse (key/alg mismatch).
func MustSignJWT(alg, kid string, key *KeyInfo, payload []byte) string {
	s, err := SignJWT(alg, kid, key, payload)
	if err != nil {
		panic(err)
	}
	return s
}

// SplitCompact splits a compact token into its pieces.
func SplitCompact(tok string) (Token, bool) {
	p := strings.Split(tok, ".")
	if len(p) != 3 {
		return Token{}, false
	}
	return Token{p[0], p[1], p[2]}, true
}

// PublicKeyBytes gives the serialisations of a public key an attacker would use
// as HMAC secret in the classic alg-confusion attack.
func PublicKeyBytes(k *KeyInfo) map[string][]byte {
	out := map[string][]byte{}
	if der, err := x509.MarshalPKIXPublicKey(k.Pub); err == nil {
		out["der"] = der
		out["pem"] = pem.EncodeToMemory(&pem.Block{Type: "PUBLIC KEY", Bytes: der})
	}
	if r, ok := k.Pub.(*rsa.PublicKey); ok {
		out["pkcs1pem"] = pem.EncodeToMemory(&pem.Block{Type: "RSA PUBLIC KEY", Bytes: x509.MarshalPKCS1PublicKey(r)})
	}
	jwk := k.JWK("", "", "")
	if b, err := jwk.MarshalJSON(); err == nil {
		out["jwk"] = b
	}
	return out
}

// JSONFlattened renders the flattened JWS JSON serialisation.
func JSONFlattened(t Token, unprotected map[string]any) string {
	m := map[string]any{"protected": t.Header, "payload": t.Payload, "signature": t.Sig}
	if unprotected != nil {
		m["header"] = unprotected
	}
	b, _ := json.Marshal(m)
	return string(b)
}

// JSONGeneral renders the general JWS JSON serialisation with the given signatures over one payload.
func JSONGeneral(payloadB64 string, sigs []Token, unprotected []map[string]any) string {
	arr := []map[string]any{}
	for i, s := range sigs {
		e := map[string]any{"protected": s.Header, "signature": s.Sig}
		if i < len(unprotected) && unprotected[i] != nil {
			e["header"] = unprotected[i]
		}
		arr = append(arr, e)
	}
	b, _ := json.Marshal(map[string]any{"payload": payloadB64, "signatures": arr})
	return string(b)
}

// LeftHalfHash is the independent at_hash / c_hash computation (OIDC Core 3.1.3.6).
func LeftHalfHash(alg, value string) string {
	var sum []byte
	switch alg {
	case "RS256", "ES256", "PS256", "HS256":
		s := sha256.Sum256([]byte(value))
		sum = s[:]
	case "RS384", "ES384", "PS384", "HS384":
		s := sha512.Sum384([]byte(value))
		sum = s[:]
	case "RS512", "ES512", "PS512", "HS512", "EdDSA":
		s := sha512.Sum512([]byte(value))
		sum = s[:]
	default:
		return ""
	}
	return B64(sum[:len(sum)/2])
}
