package vkit

import (
	"bytes"
	"crypto/sha256"
	"encoding/base64"
	"encoding/json"
	"fmt"
	"io"
	"net/http"
	"net/http/httptest"
	"net/url"
	"runtime/debug"
	"strings"
	"time"
)

// Resp is the recorded outcome of one request through ServeHTTP.
type Resp struct {
	Status           int
	Header           http.Header
	Body             []byte
	Panic            any
	Stack            string
	WriteHeaderCalls int
	Req              int // request number in the store journal
	JournalAtWrite   int // journal length when the first response byte / header was written (-1: never written)
	JournalAtEnd     int
}

type recWriter struct {
	hdr       http.Header
	status    int
	body      bytes.Buffer
	whCalls   int
	store     *Store
	jAtWrite  int
	wroteOnce bool
}

func (w *recWriter) Header() http.Header { return w.hdr }
func (w *recWriter) mark() {
	if !w.wroteOnce {
		w.wroteOnce = true
		if w.store != nil {
			w.jAtWrite = w.store.JournalLen()
		}
	}
}
func (w *recWriter) WriteHeader(code int) {
	w.mark()
	w.whCalls++
	if w.status == 0 {
		w.status = code
	}
}
func (w *recWriter) Write(b []byte) (int, error) {
	w.mark()
	if w.status == 0 {
		w.status = 200
	}
	return w.body.Write(b)
}

// Serve runs one request through handler with recover().
func Serve(h http.Handler, store *Store, r *http.Request) *Resp {
	w := &recWriter{hdr: http.Header{}, store: store, jAtWrite: -1}
	resp := &Resp{}
	if store != nil {
		resp.Req = store.BeginRequest()
	}
	func() {
		defer func() {
			if p := recover(); p != nil {
				resp.Panic = p
				resp.Stack = string(debug.Stack())
			}
		}()
		h.ServeHTTP(w, r)
	}()
	resp.Status = w.status
	if resp.Status == 0 && resp.Panic == nil {
		resp.Status = 200
	}
	resp.Header = w.hdr
	resp.Body = w.body.Bytes()
	resp.WriteHeaderCalls = w.whCalls
	resp.JournalAtWrite = w.jAtWrite
	if store != nil {
		resp.JournalAtEnd = store.JournalLen()
	}
	return resp
}

// PanicFrame returns the first zitadel/oidc frame of a recovered panic (the fingerprint).
func (r *Resp) PanicFrame() string { return FirstLibFrame(r.Stack) }

// FirstLibFrame extracts the first function of github.com/zitadel/oidc from a stack dump.
func FirstLibFrame(stack string) string {
	for _, l := range strings.Split(stack, "\n") {
		l = strings.TrimSpace(l)
		if strings.HasPrefix(l, "github.com/zitadel/oidc/v3/") {
			if i := strings.LastIndex(l, "("); i > 0 {
				l = l[:i]
			}
			l = strings.TrimPrefix(l, "github.com/zitadel/oidc/v3/")
			// strip generic instantiation noise
			if i := strings.Index(l, "["); i > 0 {
				l = l[:i]
			}
			return l
		}
	}
	return "unknown"
}

// JSON decodes the body as a JSON object (nil if it is not one).
func (r *Resp) JSON() map[string]any {
	var m map[string]any
	dec := json.NewDecoder(bytes.NewReader(r.Body))
	if err := dec.Decode(&m); err != nil {
		return nil
	}
	return m
}

// SingleJSON reports whether the body is exactly one JSON value (plus whitespace).
func (r *Resp) SingleJSON() bool {
	dec := json.NewDecoder(bytes.NewReader(r.Body))
	var v any
	if err := dec.Decode(&v); err != nil {
		return false
	}
	_, err := dec.Token()
	return err == io.EOF
}

func (r *Resp) Str(key string) string {
	if m := r.JSON(); m != nil {
		if s, ok := m[key].(string); ok {
			return s
		}
	}
	return ""
}

// OAuthError returns the "error" member of a JSON error document.
func (r *Resp) OAuthError() string { return r.Str("error") }

func (r *Resp) IsRedirect() bool { return r.Status >= 300 && r.Status < 400 }

func (r *Resp) Location() string { return r.Header.Get("Location") }

// Success is a 2xx answer.
func (r *Resp) Success() bool { return r.Status >= 200 && r.Status < 300 }

// HasTokenMaterial reports whether the body (JSON or not) carries any token / code member.
func (r *Resp) HasTokenMaterial() []string {
	var found []string
	if m := r.JSON(); m != nil {
		for _, k := range []string{"access_token", "id_token", "refresh_token", "device_code", "code"} {
			if s, ok := m[k].(string); ok && s != "" {
				found = append(found, k)
			}
		}
		if a, ok := m["active"].(bool); ok && a {
			found = append(found, "active:true")
		}
	}
	return found
}

// Agent drives one SUT.
type Agent struct {
	S         *SUT
	Host      string
	Forwarded string
}

func NewAgent(s *SUT) *Agent { return &Agent{S: s, Host: s.Host} }

func (a *Agent) newReq(method, target string, body io.Reader) *http.Request {
	r := httptest.NewRequest(method, "http://"+a.Host+target, body)
	r.Host = a.Host
	if a.Forwarded != "" {
		r.Header.Set("Forwarded", a.Forwarded)
	}
	return r
}

// Get issues GET path?query.
func (a *Agent) Get(path string, q url.Values, hdr http.Header) *Resp {
	target := path
	if len(q) > 0 {
		target += "?" + q.Encode()
	}
	r := a.newReq("GET", target, nil)
	for k, v := range hdr {
		r.Header[k] = v
	}
	return Serve(a.S.Handler, a.S.Store, r)
}

// Post issues a form POST.
func (a *Agent) Post(path string, form url.Values, hdr http.Header) *Resp {
	r := a.newReq("POST", path, strings.NewReader(form.Encode()))
	r.Header.Set("Content-Type", "application/x-www-form-urlencoded")
	for k, v := range hdr {
		r.Header[k] = v
	}
	return Serve(a.S.Handler, a.S.Store, r)
}

// Cred is a credential presentation.
type Cred struct {
	Kind      string `json:"kind"` // none | basic | post | assertion | rawbasic
	ClientID  string `json:"client_id,omitempty"`
	Secret    string `json:"secret,omitempty"`
	Assertion string `json:"assertion,omitempty"`
	BodyID    string `json:"body_id,omitempty"` // additional client_id form value (e.g. with basic or assertion)
	NoEscape  bool   `json:"no_escape,omitempty"`
	Raw       string `json:"raw,omitempty"` // raw Authorization header value for rawbasic
}

const AssertionType = "urn:ietf:params:oauth:client-assertion-type:jwt-bearer"

// Apply adds the credential to a form / header pair.
func (c Cred) Apply(form url.Values, hdr http.Header) {
	switch c.Kind {
	case "basic":
		id, sec := c.ClientID, c.Secret
		if !c.NoEscape {
			id, sec = url.QueryEscape(id), url.QueryEscape(sec)
		}
		hdr.Set("Authorization", "Basic "+base64.StdEncoding.EncodeToString([]byte(id+":"+sec)))
	case "rawbasic":
		hdr.Set("Authorization", c.Raw)
	case "post":
		form.Set("client_id", c.ClientID)
		form.Set("client_secret", c.Secret)
	case "assertion":
		form.Set("client_assertion", c.Assertion)
		form.Set("client_assertion_type", AssertionType)
	case "none":
		if c.ClientID != "" {
			form.Set("client_id", c.ClientID)
		}
	}
	if c.BodyID != "" {
		form.Set("client_id", c.BodyID)
	}
}

// Token posts to the token endpoint.
func (a *Agent) Token(form url.Values, c Cred) *Resp {
	hdr := http.Header{}
	f := url.Values{}
	for k, v := range form {
		f[k] = v
	}
	c.Apply(f, hdr)
	return a.Post(a.S.Paths["token"], f, hdr)
}

func (a *Agent) Authorize(q url.Values) *Resp { return a.Get(a.S.Paths["authorization"], q, nil) }

func (a *Agent) Callback(id string) *Resp {
	return a.Get(a.S.CallbackPath(), url.Values{"id": {id}}, nil)
}

func (a *Agent) UserInfo(token string) *Resp {
	return a.Get(a.S.Paths["userinfo"], nil, http.Header{"Authorization": {"Bearer " + token}})
}

func (a *Agent) Introspect(token string, c Cred) *Resp {
	hdr := http.Header{}
	f := url.Values{"token": {token}}
	c.Apply(f, hdr)
	return a.Post(a.S.Paths["introspection"], f, hdr)
}

func (a *Agent) Revoke(token, hint string, c Cred) *Resp {
	hdr := http.Header{}
	f := url.Values{"token": {token}}
	if hint != "" {
		f.Set("token_type_hint", hint)
	}
	c.Apply(f, hdr)
	return a.Post(a.S.Paths["revocation"], f, hdr)
}

func (a *Agent) EndSession(q url.Values) *Resp { return a.Get(a.S.Paths["end_session"], q, nil) }

func (a *Agent) Discovery() *Resp { return a.Get("/.well-known/openid-configuration", nil, nil) }

func (a *Agent) Keys() *Resp { return a.Get(a.S.Paths["keys"], nil, nil) }

func (a *Agent) DeviceAuthorize(scope string, c Cred) *Resp {
	hdr := http.Header{}
	f := url.Values{}
	if scope != "" {
		f.Set("scope", scope)
	}
	c.Apply(f, hdr)
	return a.Post(a.S.Paths["device_authorization"], f, hdr)
}

// LoginRequestID extracts the auth request id from the redirect to the login UI.
func LoginRequestID(r *Resp) (string, bool) {
	if !r.IsRedirect() {
		return "", false
	}
	u, err := url.Parse(r.Location())
	if err != nil || u.Path != LoginPath {
		return "", false
	}
	id := u.Query().Get("authRequestID")
	return id, id != ""
}

// S256 computes the PKCE S256 challenge independently of the library.
func S256(verifier string) string {
	s := sha256.Sum256([]byte(verifier))
	return base64.RawURLEncoding.EncodeToString(s[:])
}

// RightCred returns the correct credential presentation for a client.
func RightCred(c *ClientSpec, issuer string) Cred {
	switch c.AuthMethod {
	case "client_secret_basic":
		return Cred{Kind: "basic", ClientID: c.ID, Secret: c.Secret}
	case "client_secret_post":
		return Cred{Kind: "post", ClientID: c.ID, Secret: c.Secret}
	case "private_key_jwt":
		return Cred{Kind: "assertion", Assertion: ClientAssertion(c, issuer, time.Now())}
	}
	return Cred{Kind: "none", ClientID: c.ID}
}

// ClientAssertion builds a valid private_key_jwt / jwt-bearer assertion for c (first key in kid order).
func ClientAssertion(c *ClientSpec, audience string, now time.Time) string {
	kid := ""
	for k := range c.Keys {
		if kid == "" || k < kid {
			kid = k
		}
	}
	if kid == "" {
		return "no-key"
	}
	return AssertionWith(c.ID, c.ID, []string{audience}, kid, c.Keys[kid], now.Add(-5*time.Second), now.Add(5*time.Minute), nil)
}

// AssertionWith builds an assertion with explicit claims.
func AssertionWith(iss, sub string, aud []string, kid, keyName string, iat, exp time.Time, extra map[string]any) string {
	m := map[string]any{"iss": iss, "sub": sub, "aud": aud, "iat": iat.Unix(), "exp": exp.Unix()}
	for k, v := range extra {
		m[k] = v
	}
	b, _ := json.Marshal(m)
	k := Key(keyName)
	return MustSignJWT(AlgsOf(k)[0], kid, k, b)
}

// Flow is the outcome of driving an authorization request to its end.
type Flow struct {
	AuthResp     *Resp
	ReqID        string
	CallbackResp *Resp
	Code         string
	Params       url.Values // parameters delivered to the redirect URI (query or fragment)
}

// AuthParams builds the standard authorize query.
func AuthParams(c *ClientSpec, redirect, responseType, scope, state, nonce string) url.Values {
	q := url.Values{"client_id": {c.ID}, "redirect_uri": {redirect}, "response_type": {responseType}, "scope": {scope}}
	if state != "" {
		q.Set("state", state)
	}
	if nonce != "" {
		q.Set("nonce", nonce)
	}
	return q
}

// RunAuth performs authorize -> login(user) -> callback and decodes what reached the redirect URI.
func (a *Agent) RunAuth(q url.Values, user string) *Flow {
	f := &Flow{}
	f.AuthResp = a.Authorize(q)
	id, ok := LoginRequestID(f.AuthResp)
	if !ok {
		return f
	}
	f.ReqID = id
	if user != "" {
		a.S.Store.Login(id, user)
	}
	f.CallbackResp = a.Callback(id)
	if f.CallbackResp.IsRedirect() {
		f.Params = DeliveredParams(f.CallbackResp.Location())
		f.Code = f.Params.Get("code")
	}
	return f
}

// DeliveredParams decodes the parameters a user agent hands to the redirect URI:
// query parameters plus the fragment, form-decoded once from the raw Location.
func DeliveredParams(location string) url.Values {
	out := url.Values{}
	raw := location
	frag := ""
	if i := strings.Index(raw, "#"); i >= 0 {
		frag = raw[i+1:]
		raw = raw[:i]
	}
	if i := strings.Index(raw, "?"); i >= 0 {
		if q, err := url.ParseQuery(raw[i+1:]); err == nil {
			for k, v := range q {
				out[k] = append(out[k], v...)
			}
		}
	}
	if frag != "" {
		if q, err := url.ParseQuery(frag); err == nil {
			for k, v := range q {
				out[k] = append(out[k], v...)
			}
		}
	}
	return out
}

// CodeExchangeForm builds the token request of the code grant.
func CodeExchangeForm(code, redirect, verifier string) url.Values {
	f := url.Values{"grant_type": {GCode}, "code": {code}}
	if redirect != "" {
		f.Set("redirect_uri", redirect)
	}
	if verifier != "" {
		f.Set("code_verifier", verifier)
	}
	return f
}

// Describe is a short human-readable rendering for messages.
func (r *Resp) Describe() string {
	b := string(r.Body)
	if len(b) > 300 {
		b = b[:300] + "..."
	}
	if r.Panic != nil {
		return fmt.Sprintf("PANIC %v at %s", r.Panic, r.PanicFrame())
	}
	return fmt.Sprintf("status=%d location=%q body=%q", r.Status, r.Location(), b)
}
