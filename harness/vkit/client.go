package vkit

import (
	"time"

	"github.com/zitadel/oidc/v3/pkg/oidc"
	"github.com/zitadel/oidc/v3/pkg/op"
)

// ClientSpec is a generated client registration (JSON-serialisable).
type ClientSpec struct {
	ID                string            `json:"id"`
	Secret            string            `json:"secret,omitempty"`
	AppType           string            `json:"app_type"`    // web | user_agent | native
	AuthMethod        string            `json:"auth_method"` // client_secret_basic | client_secret_post | none | private_key_jwt
	GrantTypes        []string          `json:"grant_types"`
	ResponseTypes     []string          `json:"response_types"`
	RedirectURIs      []string          `json:"redirect_uris"`
	PostLogoutURIs    []string          `json:"post_logout_uris,omitempty"`
	UseGlobs          bool              `json:"use_globs,omitempty"` // client opts into glob matching (implements HasRedirectGlobs)
	RedirectGlobs     []string          `json:"redirect_globs,omitempty"`
	PostLogoutGlobs   []string          `json:"post_logout_globs,omitempty"`
	DevMode           bool              `json:"dev_mode,omitempty"`
	JWTAccessToken    bool              `json:"jwt_at,omitempty"`
	ClockSkewS        int               `json:"clock_skew_s,omitempty"`
	IDTokenLifetimeS  int               `json:"id_token_lifetime_s,omitempty"` // 0 => 3600
	UserinfoAssertion bool              `json:"userinfo_assertion,omitempty"`
	Keys              map[string]string `json:"keys,omitempty"` // kid -> pool key name (private_key_jwt / jwt-bearer / request objects)
	AllowedScopes     []string          `json:"allowed_scopes,omitempty"`
	DropIDTokenScopes []string          `json:"drop_idt_scopes,omitempty"` // RestrictAdditionalIdTokenScopes removes these
	DropATScopes      []string          `json:"drop_at_scopes,omitempty"`
	Service           bool              `json:"service,omitempty"` // usable with client_credentials
}

func (c *ClientSpec) HasGrant(g string) bool {
	for _, x := range c.GrantTypes {
		if x == g {
			return true
		}
	}
	return false
}

func (c *ClientSpec) Confidential() bool { return c.AppType == "web" }

// client adapts a ClientSpec to op.Client.
type client struct{ s *ClientSpec }

// globClient additionally implements op.HasRedirectGlobs (the explicit opt-in).
type globClient struct{ client }

func (c globClient) RedirectURIGlobs() []string           { return c.s.RedirectGlobs }
func (c globClient) PostLogoutRedirectURIGlobs() []string { return c.s.PostLogoutGlobs }

// AsOPClient returns the op.Client view of the spec.
func AsOPClient(s *ClientSpec) op.Client {
	if s.UseGlobs {
		return globClient{client{s}}
	}
	return client{s}
}

func (c client) GetID() string                    { return c.s.ID }
func (c client) RedirectURIs() []string           { return c.s.RedirectURIs }
func (c client) PostLogoutRedirectURIs() []string { return c.s.PostLogoutURIs }
func (c client) ApplicationType() op.ApplicationType {
	switch c.s.AppType {
	case "native":
		return op.ApplicationTypeNative
	case "user_agent":
		return op.ApplicationTypeUserAgent
	}
	return op.ApplicationTypeWeb
}
func (c client) AuthMethod() oidc.AuthMethod { return oidc.AuthMethod(c.s.AuthMethod) }
func (c client) ResponseTypes() []oidc.ResponseType {
	out := make([]oidc.ResponseType, len(c.s.ResponseTypes))
	for i, r := range c.s.ResponseTypes {
		out[i] = oidc.ResponseType(r)
	}
	return out
}
func (c client) GrantTypes() []oidc.GrantType {
	out := make([]oidc.GrantType, len(c.s.GrantTypes))
	for i, g := range c.s.GrantTypes {
		out[i] = oidc.GrantType(g)
	}
	return out
}
func (c client) LoginURL(id string) string { return LoginPath + "?authRequestID=" + id }
func (c client) AccessTokenType() op.AccessTokenType {
	if c.s.JWTAccessToken {
		return op.AccessTokenTypeJWT
	}
	return op.AccessTokenTypeBearer
}
func (c client) IDTokenLifetime() time.Duration {
	if c.s.IDTokenLifetimeS > 0 {
		return time.Duration(c.s.IDTokenLifetimeS) * time.Second
	}
	return time.Hour
}
func (c client) DevMode() bool { return c.s.DevMode }
func (c client) RestrictAdditionalIdTokenScopes() func([]string) []string {
	return dropScopes(c.s.DropIDTokenScopes)
}
func (c client) RestrictAdditionalAccessTokenScopes() func([]string) []string {
	return dropScopes(c.s.DropATScopes)
}
func (c client) IsScopeAllowed(scope string) bool {
	for _, s := range c.s.AllowedScopes {
		if s == scope {
			return true
		}
	}
	return false
}
func (c client) IDTokenUserinfoClaimsAssertion() bool { return c.s.UserinfoAssertion }
func (c client) ClockSkew() time.Duration             { return time.Duration(c.s.ClockSkewS) * time.Second }

func dropScopes(drop []string) func([]string) []string {
	return func(scopes []string) []string {
		if len(drop) == 0 {
			return scopes
		}
		out := make([]string, 0, len(scopes))
	next:
		for _, s := range scopes {
			for _, d := range drop {
				if d == s {
					continue next
				}
			}
			out = append(out, s)
		}
		return out
	}
}

// LoginPath is where clients send the user agent for login (the harness plays the login UI).
const LoginPath = "/login/username"

// Grant type strings.
const (
	GCode   = "authorization_code"
	GRefr   = "refresh_token"
	GCC     = "client_credentials"
	GBearer = "urn:ietf:params:oauth:grant-type:jwt-bearer"
	GTE     = "urn:ietf:params:oauth:grant-type:token-exchange"
	GImpl   = "implicit"
	GDevice = "urn:ietf:params:oauth:grant-type:device_code"
)

// AllGrants lists every grant a client can be registered for.
var AllGrants = []string{GCode, GRefr, GCC, GBearer, GTE, GImpl, GDevice}

// User is a fixed test user.
type User struct {
	ID, Username, Email, Given, Family, Phone, Locale string
	EmailVerified, PhoneVerified                      bool
}

// Users is the fixed user table.
var Users = map[string]*User{
	"u1": {ID: "u1", Username: "alice", Email: "alice@example.com", Given: "Alice", Family: "A", Phone: "+41000001", Locale: "de", EmailVerified: true, PhoneVerified: true},
	"u2": {ID: "u2", Username: "bob", Email: "bob@example.com", Given: "Bob", Family: "B", Phone: "+41000002", Locale: "en"},
	"u3": {ID: "u3", Username: "carol", Email: "carol@example.com", Given: "Carol", Family: "C", Phone: "+41000003", Locale: "fr", EmailVerified: true},
}

// UserIDs in fixed order.
var UserIDs = []string{"u1", "u2", "u3"}

// OddUserIDs are subjects with characters that escaping / splitting code trips over (e-mail style, reserved URL
// characters and a space, a colon as in URN- or provider-prefixed subjects). OIDC Core: sub is a case-sensitive ASCII
// string of at most 255 characters - all of these are legal.
var OddUserIDs = []string{"dave@example.com", "erin+tag/x y%41", "urn:user:frank"}

// AllUserIDs = UserIDs + OddUserIDs.
var AllUserIDs = append(append([]string{}, UserIDs...), OddUserIDs...)

func init() {
	Users["dave@example.com"] = &User{ID: "dave@example.com", Username: "dave", Email: "dave@example.com", Given: "Dave", Family: "D", Phone: "+41000004", Locale: "en", EmailVerified: true}
	Users["erin+tag/x y%41"] = &User{ID: "erin+tag/x y%41", Username: "erin", Email: "erin@example.com", Given: "Erin", Family: "E", Phone: "+41000005", Locale: "it"}
	Users["urn:user:frank"] = &User{ID: "urn:user:frank", Username: "frank", Email: "frank@example.com", Given: "Frank", Family: "F", Phone: "+41000006", Locale: "de", PhoneVerified: true}
}
