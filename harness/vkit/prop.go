package vkit

import (
	"crypto/sha256"
	"encoding/binary"
	"encoding/json"
	"fmt"
	"hash/fnv"
	"io"
	"log"
	"log/slog"
	"os"
	"path/filepath"
	"sort"
	"strconv"
	"strings"
	"sync"
	"testing"
	"time"

	"pgregory.net/rapid"
)

func init() {
	// the library logs through slog.Default() and log.Printf; keep the test output readable
	log.SetOutput(io.Discard)
	slog.SetDefault(slog.New(slog.NewTextHandler(io.Discard, nil)))
}

// DiscardLogger is handed to providers.
func DiscardLogger() *slog.Logger { return slog.New(slog.NewTextHandler(io.Discard, nil)) }

// Violation is one failed assertion of an oracle. FP is the fingerprint (root
// cause id) that known_findings.json refers to.
type Violation struct {
	FP  string `json:"fp"`
	Msg string `json:"msg"`
}

// Result is what running one case yields.
type Result struct {
	Viol       []Violation
	Labels     []string // class labels for the histogram
	NonTrivial bool     // by the property's stated rule
	Key        string   // distinctness key (class of the case); hashed
	Grey       bool     // the oracle asserted nothing about the main question
	Info       any      // optional: observed outcome, put into samples
}

func (r *Result) Fail(fp, format string, a ...any) {
	r.Viol = append(r.Viol, Violation{FP: fp, Msg: fmt.Sprintf(format, a...)})
}

func (r *Result) Label(l ...string) { r.Labels = append(r.Labels, l...) }

// Known findings -------------------------------------------------------------

type KnownFinding struct {
	Property    string `json:"property"`
	Fingerprint string `json:"fingerprint"`
	What        string `json:"what"`
	Replay      string `json:"replay"`
}

type knownFile struct {
	Known []KnownFinding `json:"known"`
	Fixed []any          `json:"fixed"`
}

var (
	knownOnce sync.Once
	knownSet  map[string]KnownFinding
)

func known(property, fp string) (KnownFinding, bool) {
	knownOnce.Do(func() {
		knownSet = map[string]KnownFinding{}
		p := os.Getenv("VERIF_KNOWN")
		if p == "" {
			p = "/verif/known_findings.json"
		}
		files := []string{p}
		extra, _ := filepath.Glob(filepath.Join(filepath.Dir(p), "known.d", "*.json"))
		files = append(files, extra...)
		for _, f := range files {
			b, err := os.ReadFile(f)
			if err != nil {
				continue
			}
			var kf knownFile
			if json.Unmarshal(b, &kf) != nil {
				continue
			}
			for _, k := range kf.Known {
				knownSet[k.Property+"|"+k.Fingerprint] = k
			}
		}
	})
	k, ok := knownSet[property+"|"+fp]
	return k, ok
}

// Recorder ---------------------------------------------------------------------

type sample struct {
	h    uint64
	Case any `json:"case"`
	Info any `json:"info,omitempty"`
}

type Recorder struct {
	mu          sync.Mutex
	ID          string
	Rule        string
	Evaluations int
	NonTrivial  int
	Grey        int
	Labels      map[string]int
	Excluded    map[string]int
	hashes      map[uint64]struct{}
	samples     []sample
	Extra       map[string]any
	start       time.Time
	outDir      string
}

func NewRecorder(id, rule string) *Recorder {
	out := os.Getenv("VERIF_OUT")
	if out == "" {
		out = filepath.Join(os.TempDir(), "verif-out-"+id)
	}
	os.MkdirAll(out, 0o755)
	return &Recorder{ID: id, Rule: rule, Labels: map[string]int{}, Excluded: map[string]int{},
		hashes: map[uint64]struct{}{}, Extra: map[string]any{}, start: time.Now(), outDir: out}
}

func hash64(s string) uint64 {
	h := fnv.New64a()
	h.Write([]byte(s))
	return h.Sum64()
}

const maxSamples = 8

func (r *Recorder) Record(c any, res *Result) {
	r.mu.Lock()
	defer r.mu.Unlock()
	r.Evaluations++
	for _, l := range res.Labels {
		r.Labels[l]++
	}
	if res.Grey {
		r.Grey++
	}
	if !res.NonTrivial {
		return
	}
	r.NonTrivial++
	key := res.Key
	if key == "" {
		b, _ := json.Marshal(c)
		key = string(b)
	}
	h := hash64(key)
	if _, seen := r.hashes[h]; seen {
		return
	}
	r.hashes[h] = struct{}{}
	// deterministic "reservoir": keep the samples with the smallest hashes
	if len(r.samples) < maxSamples || h < r.samples[len(r.samples)-1].h {
		r.samples = append(r.samples, sample{h: h, Case: c, Info: res.Info})
		sort.Slice(r.samples, func(i, j int) bool { return r.samples[i].h < r.samples[j].h })
		if len(r.samples) > maxSamples {
			r.samples = r.samples[:maxSamples]
		}
	}
}

func (r *Recorder) Exclude(fp string) {
	r.mu.Lock()
	r.Excluded[fp]++
	r.mu.Unlock()
}

func (r *Recorder) SetExtra(k string, v any) {
	r.mu.Lock()
	r.Extra[k] = v
	r.mu.Unlock()
}

func (r *Recorder) AddExtra(k string, n int) {
	r.mu.Lock()
	cur, _ := r.Extra[k].(int)
	r.Extra[k] = cur + n
	r.mu.Unlock()
}

// Flush writes report.json and hashes.bin into $VERIF_OUT.
func (r *Recorder) Flush() {
	r.mu.Lock()
	defer r.mu.Unlock()
	rep := map[string]any{
		"property":            r.ID,
		"rule":                r.Rule,
		"evaluations":         r.Evaluations,
		"nontrivial":          r.NonTrivial,
		"distinct_nontrivial": len(r.hashes),
		"grey":                r.Grey,
		"labels":              r.Labels,
		"excluded_known":      r.Excluded,
		"samples":             r.samples,
		"extra":               r.Extra,
		"wall_s":              time.Since(r.start).Seconds(),
	}
	b, _ := json.MarshalIndent(rep, "", " ")
	os.WriteFile(filepath.Join(r.outDir, "report.json"), b, 0o644)
	hb := make([]byte, 0, 8*len(r.hashes))
	for h := range r.hashes {
		hb = binary.LittleEndian.AppendUint64(hb, h)
	}
	os.WriteFile(filepath.Join(r.outDir, "hashes.bin"), hb, 0o644)
}

func (r *Recorder) OutDir() string { return r.outDir }

// WriteFail stores the failing case; the last one written is the shrunk one.
func (r *Recorder) WriteFail(c any, v []Violation) string {
	p := filepath.Join(r.outDir, "fail.json")
	b, _ := json.MarshalIndent(map[string]any{"property": r.ID, "case": c, "violations": v}, "", " ")
	os.WriteFile(p, b, 0o644)
	return p
}

// Prop -----------------------------------------------------------------------

// Prop is one generated check: Gen draws a case (all randomness from rapid),
// Run executes it from scratch and judges it.
type Prop[C any] struct {
	ID   string
	Rule string
	Gen  func(t *rapid.T) C
	Run  func(c C) *Result
	// Track writes every case to $VERIF_OUT/current.json before running it, so that a case that kills the
	// process (stack overflow, fatal error, race report with halt_on_error) is identified by the driver.
	Track bool
}

// Tier returns "quick" or "thorough".
func Tier() string {
	if t := os.Getenv("VERIF_TIER"); t != "" {
		return t
	}
	return "quick"
}

// Scale returns a for quick and b for thorough.
func Scale(a, b int) int {
	if Tier() == "thorough" {
		return b
	}
	return a
}

// Judge applies the known-findings filter: returns the violations that are not
// listed (those fail the run) and counts the listed ones.
func Judge(rec *Recorder, id string, res *Result) []Violation {
	var fresh []Violation
	for _, v := range res.Viol {
		if _, ok := known(id, v.FP); ok {
			rec.Exclude(v.FP)
			continue
		}
		fresh = append(fresh, v)
	}
	return fresh
}

// Check runs the property under rapid (-rapid.checks / -rapid.seed come from the driver).
func (p Prop[C]) Check(t *testing.T) {
	rec := NewRecorder(p.ID, p.Rule)
	defer rec.Flush()
	p.CheckWith(t, rec)
}

func (p Prop[C]) CheckWith(t *testing.T, rec *Recorder) {
	rapid.Check(t, func(rt *rapid.T) {
		c := p.Gen(rt)
		if p.Track {
			b, _ := json.Marshal(map[string]any{"property": p.ID, "case": c})
			os.WriteFile(filepath.Join(rec.OutDir(), "current.json"), b, 0o644)
		}
		res := p.Run(c)
		rec.Record(c, res)
		if fresh := Judge(rec, p.ID, res); len(fresh) > 0 {
			rec.WriteFail(c, fresh)
			rt.Fatalf("VIOLATION %s: %s [%s]", p.ID, fresh[0].Msg, fresh[0].FP)
		}
	})
}

// ReplayEntry is the on-disk form of a replay file.
type ReplayEntry[C any] struct {
	Property string `json:"property"`
	Note     string `json:"note,omitempty"`
	Case     C      `json:"case"`
}

// Replay runs every file named in $VERIF_REPLAY (path list separated by ':',
// directories are expanded) without rapid and writes replay.json.
func (p Prop[C]) Replay(t *testing.T) {
	rec := NewRecorder(p.ID, p.Rule)
	defer rec.Flush()
	type out struct {
		File  string      `json:"file"`
		Viol  []Violation `json:"violations"`
		Known []Violation `json:"known"`
		Err   string      `json:"err,omitempty"`
	}
	var outs []out
	for _, f := range ReplayFiles() {
		o := out{File: f}
		b, err := os.ReadFile(f)
		if err == nil {
			var e ReplayEntry[C]
			if err = json.Unmarshal(b, &e); err == nil {
				if e.Property != "" && e.Property != p.ID {
					continue
				}
				res := p.Run(e.Case)
				rec.Record(e.Case, res)
				for _, v := range res.Viol {
					if _, ok := known(p.ID, v.FP); ok {
						o.Known = append(o.Known, v)
					} else {
						o.Viol = append(o.Viol, v)
					}
				}
			}
		}
		if err != nil {
			o.Err = err.Error()
		}
		outs = append(outs, o)
	}
	b, _ := json.MarshalIndent(outs, "", " ")
	os.WriteFile(filepath.Join(rec.OutDir(), "replay.json"), b, 0o644)
	for _, o := range outs {
		for _, v := range o.Viol {
			t.Errorf("replay %s: %s [%s]", o.File, v.Msg, v.FP)
		}
		if o.Err != "" {
			t.Logf("replay %s: unreadable: %s", o.File, o.Err)
		}
	}
}

// ReplayFiles expands $VERIF_REPLAY.
func ReplayFiles() []string {
	var files []string
	for _, p := range strings.Split(os.Getenv("VERIF_REPLAY"), ":") {
		if p == "" {
			continue
		}
		st, err := os.Stat(p)
		if err != nil {
			continue
		}
		if st.IsDir() {
			m, _ := filepath.Glob(filepath.Join(p, "*.json"))
			sort.Strings(m)
			files = append(files, m...)
		} else {
			files = append(files, p)
		}
	}
	return files
}

// EnvInt reads an integer environment variable with default.
func EnvInt(name string, def int) int {
	if v, err := strconv.Atoi(os.Getenv(name)); err == nil {
		return v
	}
	return def
}

// Fuzz runs the property under native coverage-guided fuzzing (go test -fuzz).
// decode is the data-provider layer: it maps raw fuzz bytes to a case (false:
// skip). The oracle is p.Run, so a crasher is an ordinary case: it is written to
// $VERIF_OUT/fail.json (the last one written is the minimised one) and becomes a
// replay file. Worker processes count executions in $VERIF_OUT/fuzz-<pid>.count.
func (p Prop[C]) Fuzz(f *testing.F, seeds [][]byte, decode func([]byte) (C, bool)) {
	for _, s := range seeds {
		f.Add(s)
	}
	rec := NewRecorder(p.ID, p.Rule)
	var n, nt int
	var last time.Time
	countFile := filepath.Join(rec.OutDir(), fmt.Sprintf("fuzz-%d.count", os.Getpid()))
	f.Fuzz(func(t *testing.T, b []byte) {
		c, ok := decode(b)
		if !ok {
			return
		}
		if p.Track && os.Getenv("VERIF_TRACK") != "" {
			cb, _ := json.Marshal(map[string]any{"property": p.ID, "case": c})
			os.WriteFile(filepath.Join(rec.OutDir(), "current.json"), cb, 0o644)
		}
		res := p.Run(c)
		n++
		if res.NonTrivial {
			nt++
		}
		if time.Since(last) > time.Second {
			last = time.Now()
			os.WriteFile(countFile, []byte(fmt.Sprintf("%d %d", n, nt)), 0o644)
		}
		if fresh := Judge(rec, p.ID, res); len(fresh) > 0 {
			rec.WriteFail(c, fresh)
			t.Fatalf("VIOLATION %s: %s [%s]", p.ID, fresh[0].Msg, fresh[0].FP)
		}
	})
}

// FuzzGen runs the property's own generator under native coverage-guided fuzzing: the fuzz input is the bit stream rapid
// draws from (rapid.MakeFuzz), so coverage feedback steers the very generator that TestRapid samples blindly. Inputs that
// are too short for a complete case are skipped by rapid. Seeds are deterministic pseudo-random streams (sha256 counter
// mode) of 2-32 KiB. The oracle is p.Run; a failing case is written to $VERIF_OUT/fail.json like in Fuzz.
func (p Prop[C]) FuzzGen(f *testing.F) {
	for i := 0; i < 12; i++ {
		n := 2048 << uint(i%5)
		b := make([]byte, 0, n)
		for ctr := 0; len(b) < n; ctr++ {
			h := sha256.Sum256([]byte(fmt.Sprintf("%s|seed %d|block %d", p.ID, i, ctr)))
			b = append(b, h[:]...)
		}
		f.Add(b[:n])
	}
	rec := NewRecorder(p.ID, p.Rule)
	var n, nt int
	var last time.Time
	countFile := filepath.Join(rec.OutDir(), fmt.Sprintf("fuzz-%d.count", os.Getpid()))
	f.Fuzz(rapid.MakeFuzz(func(rt *rapid.T) {
		c := p.Gen(rt)
		if p.Track && os.Getenv("VERIF_TRACK") != "" {
			cb, _ := json.Marshal(map[string]any{"property": p.ID, "case": c})
			os.WriteFile(filepath.Join(rec.OutDir(), "current.json"), cb, 0o644)
		}
		res := p.Run(c)
		n++
		if res.NonTrivial {
			nt++
		}
		if time.Since(last) > time.Second {
			last = time.Now()
			os.WriteFile(countFile, []byte(fmt.Sprintf("%d %d", n, nt)), 0o644)
		}
		if fresh := Judge(rec, p.ID, res); len(fresh) > 0 {
			rec.WriteFail(c, fresh)
			rt.Fatalf("VIOLATION %s: %s [%s]", p.ID, fresh[0].Msg, fresh[0].FP)
		}
	}))
}
