#!/usr/bin/env python3
"""Regenerate /verif/MANIFEST.json from checks.json (+ the texts kept there)."""
import json, os

ROOT = os.path.dirname(os.path.dirname(os.path.abspath(__file__)))
checks = json.load(open(os.path.join(ROOT, "checks.json")))
import glob
for f in sorted(glob.glob(os.path.join(ROOT, "harness", "checks", "*", "check.json"))):
    checks.update(json.load(open(f)))
props = [json.loads(l) for l in open(os.path.join(ROOT, "properties.jsonl"))]
hooks_commits = []
hf = os.path.join(ROOT, "hooks_commits.txt")
if os.path.exists(hf):
    hooks_commits = [l.strip() for l in open(hf) if l.strip()]

m = {
    "version": 1,
    "setup_cmd": "./check setup",
    "hooks": {
        "guard": "verif",
        "enable": "checks compile the harness module (replace github.com/zitadel/oidc/v3 => /repo) with `go test -c -tags verif`; one hook: rp.VerifAfterInflightDone (pkg/client/rp/jwks_verif.go), a no-op function without the tag (jwks_noverif.go), used by the C13 schedules",
        "baseline_off_cmd": "cd /repo && GOFLAGS=-mod=mod GOPROXY=off go test -json -vet=off -count=1 -timeout 25m ./...",
        "source_commits": hooks_commits,
        "add_only": True,
    },
    "engines": [
        {"name": "rapid-harness", "path": "harness/", "serves_properties": sorted(checks),
         "kind_free_text": "Go module: pgregory.net/rapid v1.3.0 generators + explicit oracles (reference models, round trips, differential / metamorphic relations, fault enumeration, harness-owned schedules, -race), driven by ./check (python3 driver: build from /repo working tree, shard, merge evidence)"},
    ],
    "checks": [],
    "not_applicable": [],
    "notes": "All checks are generated-input search against explicit oracles (property-based testing / fuzzing). See DESIGN.md. known_findings.json lists recorded defects (none suppress unrelated violations) and fixed: entries.",
}
claimed = set(open(os.path.join(ROOT, "claimed.txt")).read().split())
for p in props:
    pid = p["id"]
    c = checks.get(pid)
    if not c or c.get("disabled") or pid not in claimed:
        m["not_applicable"].append({"property_id": pid, "reason": (c or {}).get("na_reason", "check not built yet (work in progress in this session); not claimed")})
        continue
    e = {
        "property_id": pid,
        "quick_cmd": "./check %s quick" % pid,
        "thorough_cmd": "./check %s thorough" % pid,
        "evidence_file": "evidence/%s.json" % pid,
        "replay_cmd_template": "./check %s replay {path}" % pid,
        "engine": "rapid-harness",
        "level_claimed": {
            "category": c.get("level", "exploration"),
            "text": c.get("level_text", "generated cases against an explicit oracle; held on everything explored, evidence reports counts, class histogram and samples"),
            "design_ref": "DESIGN.md §5/" + pid,
        },
        "level_note": c.get("level_note", "trusted: Go toolchain, rapid, harness reference model written from the property statement, crypto/* for independent signatures and hashes"),
        "technique": c.get("technique", "property-based testing (rapid) against a reference model"),
    }
    m["checks"].append(e)
json.dump(m, open(os.path.join(ROOT, "MANIFEST.json"), "w"), indent=1)
print("MANIFEST.json: %d checks, %d not applicable" % (len(m["checks"]), len(m["not_applicable"])))
