#!/usr/bin/env python3
"""record_fixed.py: move pruned known entries (work/dead-<ID>.json, written by prune_known.py --write) into the
"fixed" list of known_findings.json, attributing each to its fix commit in /repo (matched by FIXMAP)."""
import json, os, re, subprocess, glob
ROOT = os.path.dirname(os.path.dirname(os.path.abspath(__file__)))
FIXMAP = [  # (regex on fingerprint, distinctive words of the fix commit subject)
    (r"panic@pkg/op\.VerifyAccessToken|panic@pkg/op\.VerifyIDTokenHint|panic@pkg/client/rp\.VerifyIDToken|GetIssuer", "reject JWT payloads that are not a JSON object"),
    (r"Audience\)\.UnmarshalJSON", "Audience.UnmarshalJSON returns an error"),
    (r"panic@pkg/client\.Discover|panic@pkg/client\.callTokenEndpoint|panic@pkg/client/rp\.Userinfo", "client helpers return an error for a JSON null"),
    (r"DeviceAuthorizationResponse\)\.UnmarshalJSON", "DeviceAuthorizationResponse.UnmarshalJSON"),
    (r"panic@pkg/op\.(CodeExchange|ValidateRefreshTokenRequest|AuthorizeClientCredentialsClient|ValidateTokenExchangeRequest|JWTProfile)|two-responses:direct:ClientCredentialsExchange", "token handlers return after answering"),
    (r"panic@pkg/op\.GetTokenIDAndSubjectFromToken", "opaque access tokens as subject or actor"),
    (r"unissuable-requested-type:jwt", "unissuable requested_token_type"),
    (r"fragment-double-escaped", "fragment response mode"),
    (r"form_post-omits-session_state", "form_post response mode delivers session_state"),
    (r"introspect-inactive-discloses|leak:claims:introspect", "inactive introspection response"),
    (r"scope:null", "SpaceDelimitedArray"),
    (r"idt-sub-blanked|idtoken-sub-lost", "ID token keeps its subject"),
    (r"type-not-declared", "requires actor_token_type"),
    (r"legacy:tokens-despite:foreign-client", "refuses a code issued to another client"),
    (r"legacy:tokens-despite:pkce-verifier-missing", "verifies PKCE whenever"),
    (r"waiter-failed-by-owner-cancel", "shared JWKS download"),
    (r"issuer-accepted:(path-)?query-unparsed", "rejects every query string"),
    (r"issuer-accepted:hostless-port-only", "host-less issuer"),
    (r"CheckRedirect-overwritten", "redirect policy of the caller"),
    (r"GetAudience", "GetAudience does not modify"),
    (r"provider:token-exchange:grant-unregistered", "token exchange on the Provider router requires"),
    (r"legacy:device_authorization:grant-unregistered", "LegacyServer.DeviceAuthorization requires"),
    (r"leaks-into-query:response-type-spelled-as-registered", "default response mode is fragment"),
    (r"hint-access_token:string-unseals-to-pair", "whatever the token_type_hint says"),
]
log = subprocess.run(["git", "-C", "/repo", "log", "--format=%h %s"], stdout=subprocess.PIPE, text=True).stdout.splitlines()
def commit_for(words):
    for l in log:
        if words in l:
            return l.split()[0]
    return None
kf = os.path.join(ROOT, "known_findings.json")
k = json.load(open(kf))
have = set(k["fixed"])
for f in sorted(glob.glob(os.path.join(ROOT, "work", "dead-*.json"))):
    for e in json.load(open(f)):
        c = None
        for rx, words in FIXMAP:
            if re.search(rx, e["fingerprint"]):
                c = commit_for(words)
                break
        if not c:
            print("NO FIX COMMIT FOUND FOR", e["fingerprint"])
            continue
        line = "fixed: property=%s %s %s [%s] regression case: %s" % (e["property"], c, e["what"], e["fingerprint"], e.get("replay", "-"))
        if line not in have:
            k["fixed"].append(line); have.add(line)
    os.remove(f)
k["fixed"].sort()
json.dump(k, open(kf, "w"), indent=1)
print(len(k["fixed"]), "fixed entries")
