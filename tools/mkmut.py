#!/usr/bin/env python3
"""mkmut.py <ID> <name> <repo-relative file> <old> <new>  -> /verif/seeded/own/<ID>/<name>.diff (exact-string replacement, first occurrence unless count given via env N)"""
import os, subprocess, sys
pid, name, f, old, new = sys.argv[1:6]
src = open(os.path.join("/repo", f)).read()
if old not in src:
    print("OLD NOT FOUND in", f); sys.exit(1)
n = int(os.environ.get("N", "1"))
dst = src.replace(old, new, n)
d = "/verif/seeded/own/%s" % pid
os.makedirs(d, exist_ok=True)
tmp = "/tmp/mkmut_%d" % os.getpid()
os.makedirs(tmp + "/a/" + os.path.dirname(f), exist_ok=True); os.makedirs(tmp + "/b/" + os.path.dirname(f), exist_ok=True)
open(tmp + "/a/" + f, "w").write(src); open(tmp + "/b/" + f, "w").write(dst)
p = subprocess.run(["diff", "-u", "a/" + f, "b/" + f], cwd=tmp, stdout=subprocess.PIPE, text=True)
open(os.path.join(d, name + ".diff"), "w").write(p.stdout)
subprocess.run(["rm", "-rf", tmp])
print("wrote", os.path.join(d, name + ".diff"))
