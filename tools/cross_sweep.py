#!/usr/bin/env python3
"""cross_sweep.py [-j N] [--all] [ID/variant ...]: run every independent seeded change against the quick checks of the OTHER
properties whose anchored files it touches (properties.jsonl anchors.files) and record which of them report a violation
(seeded/CROSS.json: {"seeded/<ID>/<v>": {"<other ID>": verdict}}). A change is written against one property; this shows
which further checks notice it."""
import json, os, subprocess, sys, glob, re, concurrent.futures as cf
ROOT = os.path.dirname(os.path.dirname(os.path.abspath(__file__)))
args = sys.argv[1:]
jobs, only = 4, []
i = 0
while i < len(args):
    if args[i] == "-j": jobs = int(args[i + 1]); i += 2
    else: only.append(args[i]); i += 1
props = [json.loads(l) for l in open(os.path.join(ROOT, "properties.jsonl"))]
anch = {p["id"]: set(p["anchors"]["files"]) for p in props}
resf = os.path.join(ROOT, "seeded", "CROSS.json")
res = json.load(open(resf)) if os.path.exists(resf) else {}
work = []
for d in sorted(glob.glob(os.path.join(ROOT, "seeded", "C*", "*"))):
    pf = os.path.join(d, "patch.diff")
    if not os.path.isfile(pf): continue
    name = "seeded/%s/%s" % (os.path.basename(os.path.dirname(d)), os.path.basename(d))
    if only and name.replace("seeded/", "") not in only: continue
    own = name.split("/")[1]
    files = set(re.findall(r"^\+\+\+ b/(\S+)", open(pf).read(), re.M))
    for pid, fs in sorted(anch.items()):
        if pid != own and files & fs and pid not in res.get(name, {}):
            work.append((name, pf, pid))
print(len(work), "runs", flush=True)
def one(w):
    name, pf, pid = w
    p = subprocess.run([os.path.join(ROOT, "tools", "trymut.sh"), pf, pid, "quick"], stdout=subprocess.PIPE, stderr=subprocess.STDOUT, text=True)
    m = re.search(r"trymut rc=(\d+)", p.stdout)
    rc = int(m.group(1)) if m else -1
    v = "caught" if rc == 1 and "VIOLATION" in p.stdout else ("missed" if rc == 0 else ("patch-does-not-apply" if "does not apply" in p.stdout else "inconclusive(rc=%d)" % rc))
    print(name, pid, v, flush=True)
    return name, pid, v
with cf.ThreadPoolExecutor(jobs) as ex:
    for name, pid, v in ex.map(one, work):
        res.setdefault(name, {})[pid] = v
        json.dump(res, open(resf, "w"), indent=1, sort_keys=True)
