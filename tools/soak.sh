#!/bin/bash
# usage: soak.sh "<seeds>" <tier> <ID>... : run each check at each seed on /repo, print one line per run (rc != 0 is a bug of the check)
seeds=$1; tier=$2; shift 2
for id in "$@"; do for s in $seeds; do
  out=$(cd /verif && VERIF_SEED=$s ./check $id $tier 2>&1); rc=$?
  echo "$id seed=$s rc=$rc $(echo "$out" | grep -v 'KNOWN-FINDING\|^built' | tail -1 | cut -c1-200)"
  if [ $rc -ne 0 ]; then echo "$out" | grep -v 'KNOWN-FINDING\|^built' | tail -6 | cut -c1-900; fi
done; done
