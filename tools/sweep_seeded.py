#!/usr/bin/env python3
"""sweep_seeded.py [-j N] [--tier quick] [ID ...]: run every seeded change (seeded/<ID>/<v>/patch.diff and seeded/own/<ID>/*.diff)
against its property's check in a throw-away worktree (tools/trymut.sh) and record the outcome in seeded/RESULTS.json."""
import json, os, subprocess, sys, glob, re, concurrent.futures as cf
ROOT = os.path.dirname(os.path.dirname(os.path.abspath(__file__)))
args = sys.argv[1:]
jobs, tier, own = 3, "quick", True
ids = []
i = 0
while i < len(args):
    if args[i] == "-j": jobs = int(args[i + 1]); i += 2
    elif args[i] == "--tier": tier = args[i + 1]; i += 2
    elif args[i] == "--no-own": own = False; i += 1
    else: ids.append(args[i]); i += 1
work = []
for d in sorted(glob.glob(os.path.join(ROOT, "seeded", "C*"))):
    pid = os.path.basename(d)
    if ids and pid not in ids: continue
    for p in sorted(glob.glob(os.path.join(d, "*", "patch.diff"))):
        work.append((pid, "seeded/%s/%s" % (pid, os.path.basename(os.path.dirname(p))), p))
if own:
    for d in sorted(glob.glob(os.path.join(ROOT, "seeded", "own", "C*"))):
        pid = os.path.basename(d)
        if ids and pid not in ids: continue
        for p in sorted(glob.glob(os.path.join(d, "*.diff"))):
            work.append((pid, "seeded/own/%s/%s" % (pid, os.path.basename(p)), p))
def one(w):
    pid, name, path = w
    mf = os.path.join(os.path.dirname(path), "meta.json")
    if path.endswith("patch.diff") and os.path.exists(mf) and json.load(open(mf)).get("retired"):
        print(name, "retired", flush=True)
        return name, {"property": pid, "tier": tier, "verdict": "retired", "fingerprints": [], "evaluations_until_stop": None}
    p = subprocess.run([os.path.join(ROOT, "tools", "trymut.sh"), path, pid, tier], stdout=subprocess.PIPE, stderr=subprocess.STDOUT, text=True)
    out = p.stdout
    m = re.search(r"trymut rc=(\d+)", out)
    rc = int(m.group(1)) if m else -1
    if "patch does not apply" in out: verdict = "patch-does-not-apply"
    elif rc == 1 and "VIOLATION" in out: verdict = "caught"
    elif rc == 0: verdict = "missed"
    else: verdict = "inconclusive(rc=%d)" % rc
    fps = sorted(set(re.findall(r"\[(C\d\d:[^\]]+)\]", "\n".join(l for l in out.splitlines() if not l.startswith("KNOWN-FINDING")))))[:4]
    ev = re.search(r"evaluations=(\d+)", out)
    print(name, verdict, fps[:2], flush=True)
    return name, {"property": pid, "tier": tier, "verdict": verdict, "fingerprints": fps, "evaluations_until_stop": int(ev.group(1)) if ev else None}
resf = os.path.join(ROOT, "seeded", "RESULTS.json")
import fcntl
def record(name, r):
    # several sweeps may run at once (one per strengthening author): merge under a lock instead of rewriting a stale copy
    with open(resf + ".lock", "w") as lk:
        fcntl.flock(lk, fcntl.LOCK_EX)
        res = json.load(open(resf)) if os.path.exists(resf) else {}
        res[name] = r
        tmp = resf + ".tmp%d" % os.getpid()
        json.dump(res, open(tmp, "w"), indent=1, sort_keys=True)
        os.replace(tmp, resf)
    return res
res = json.load(open(resf)) if os.path.exists(resf) else {}
with cf.ThreadPoolExecutor(jobs) as ex:
    for name, r in ex.map(one, work):
        res = record(name, r)
c = sum(1 for r in res.values() if r["verdict"] == "caught")
print("caught %d of %d recorded" % (c, len(res)))
