#!/opt/veriftools/pyvenv/bin/python
import json, jsonschema, glob, sys
m=json.load(open('/verif/MANIFEST.json')); jsonschema.validate(m,json.load(open('/root/.vp/MANIFEST.schema.json')))
es=json.load(open('/root/.vp/EVIDENCE.schema.json'))
bad=0
for f in sorted(glob.glob('/verif/evidence/*.json')):
    try:
        jsonschema.validate(json.load(open(f)),es)
    except Exception as e:
        bad+=1; print("INVALID",f,str(e)[:300])
print("manifest ok; evidence files checked:",len(glob.glob('/verif/evidence/*.json')),"invalid:",bad)
sys.exit(1 if bad else 0)
