#!/bin/bash
# usage: trymut.sh <patch.diff> <ID> [quick|thorough]   -- apply a seeded change to /repo, run the check, undo
set -u
patch=$1; id=$2; tier=${3:-quick}
cd /repo || exit 2
if [ -n "$(git status --porcelain)" ]; then echo "repo dirty"; exit 2; fi
git apply "$patch" || { echo "patch does not apply"; exit 2; }
( cd /verif && ./check "$id" "$tier" ); rc=$?
git -C /repo checkout -- . ; git -C /repo clean -fdq
echo "trymut rc=$rc"
exit $rc
