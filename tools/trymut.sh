#!/bin/bash
# usage: trymut.sh <patch.diff> <ID> [quick|thorough]
# applies a seeded change to a throw-away worktree of /repo (never to /repo itself), runs the check against it, removes the worktree
set -u
patch=$(readlink -f "$1"); id=$2; tier=${3:-quick}
wt=/tmp/wt/mut-$$-$RANDOM
git -C /repo worktree add --detach "$wt" HEAD >/dev/null 2>&1 || { echo "worktree failed"; exit 2; }
if ! git -C "$wt" apply "$patch"; then echo "patch does not apply"; git -C /repo worktree remove --force "$wt"; exit 2; fi
( cd /verif && VERIF_REPO="$wt" ./check "$id" "$tier" ); rc=$?
git -C /repo worktree remove --force "$wt" >/dev/null 2>&1
rm -rf "/verif/work/alt-$(printf %s "$wt" | sha1sum | cut -c1-10)"
echo "trymut rc=$rc"
exit $rc
