#!/usr/bin/env python3
"""import_round.py <src_root> <round> <ID> [<ID>...]: confirm the seeded changes an independent author left under <src_root>/<ID>/<v>/
(tools/verify_seeded.py in the scratch worktree /tmp/wt/r<round>-<ID>) and copy the confirmed ones to seeded/<ID>/<v>/."""
import json, os, shutil, subprocess, sys
ROOT = os.path.dirname(os.path.dirname(os.path.abspath(__file__)))
src, rnd, ids = sys.argv[1], int(sys.argv[2]), sys.argv[3:]
for pid in ids:
    wt = "/tmp/wt/r%d-%s" % (rnd, pid)
    subprocess.run(["git", "-C", wt, "checkout", "--", "."]); subprocess.run(["git", "-C", wt, "clean", "-fdq"])
    subprocess.run([sys.executable, os.path.join(ROOT, "tools", "verify_seeded.py"), src, wt, pid])
    d = os.path.join(src, pid)
    for v in sorted(os.listdir(d)):
        vd = os.path.join(d, v)
        cf = os.path.join(vd, "confirm.json")
        if not os.path.isfile(cf):
            continue
        c = json.load(open(cf))
        if not c.get("confirmed"):
            print("NOT IMPORTED", pid, v, json.dumps(c)[:1500])
            continue
        dst = os.path.join(ROOT, "seeded", pid, v)
        os.makedirs(dst, exist_ok=True)
        for f in ("patch.diff", "demo_test.go"):
            shutil.copy(os.path.join(vd, f), os.path.join(dst, f))
        meta = json.load(open(os.path.join(vd, "meta.json")))
        meta["confirmed_by_me"] = {k: c.get(k) for k in ("applies", "baseline_passes_with_change", "demo_fails_with_change", "demo_passes_without_change", "confirmed")}
        meta["what_i_ran"] = "tools/verify_seeded.py in a scratch worktree of /repo HEAD: demo on clean tree (must pass); git apply patch; tools/baseline.py (719 pinned tests must pass); demo again (must fail); worktree reset"
        meta["round"] = rnd
        json.dump(meta, open(os.path.join(dst, "meta.json"), "w"), indent=1)
        print("IMPORTED", pid, v)
