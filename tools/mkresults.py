#!/usr/bin/env python3
"""Regenerate the generated part of DESIGN.md §10 (between the GENERATED markers) from evidence/*.json,
known_findings.json, known.d/*.json, seeded/*/*/meta.json and seeded/RESULTS.json."""
import json, os, glob, re, subprocess
ROOT = os.path.dirname(os.path.dirname(os.path.abspath(__file__)))
out = []
def J(p, d=None):
    try: return json.load(open(p))
    except Exception: return d
checks = J(os.path.join(ROOT, "checks.json"), {})
for f in sorted(glob.glob(os.path.join(ROOT, "harness/checks/*/check.json"))):
    checks.update(J(f, {}))
props = [json.loads(l) for l in open(os.path.join(ROOT, "properties.jsonl"))]
out.append("### 10.2 Checks as built (sizes from check.json; measured numbers are in evidence/<ID>.json)\n")
out.append("| id | level | technique | quick | thorough | native fuzz | race |")
out.append("|----|-------|-----------|-------|----------|-------------|------|")
for p in props:
    c = checks.get(p["id"], {})
    q, t = c.get("quick", {}), c.get("thorough", {})
    tests = c.get("tests", ["TestRapid"])
    qs = ("%s × " % q["shards"] if q.get("shards", 1) > 1 else "") + "%s cases" % q.get("checks", "?") + ("".join(" + %s" % x for x in tests if x != "TestRapid"))
    ts = "%s × %s" % (t.get("shards", 1), t.get("checks", "?"))
    fz = ", ".join("%s %ss" % (f["target"], f["seconds"]) for f in c.get("fuzz", [])) or "-"
    rc = "all" if c.get("race") else (",".join(c.get("race_tests", [])) or "-")
    out.append("| %s | %s | %s | %s | %s | %s | %s |" % (p["id"], c.get("level", "exploration"), (c.get("technique") or "")[:160].replace("|", "/"), qs, ts, fz, rc))
out.append("")
# fixes
out.append("### 10.3 Genuine defects repaired in /repo (one `fix:` commit each; the cases stay in replays/ as regression checks)\n")
log = subprocess.run(["git", "-C", "/repo", "log", "--reverse", "--format=%h %s"], stdout=subprocess.PIPE, text=True).stdout.splitlines()
fixed = J(os.path.join(ROOT, "known_findings.json"), {}).get("fixed", [])
out.append("| commit | subject | found by (fingerprints) |")
out.append("|--------|---------|------------------------|")
for l in log:
    h, subj = l.split(" ", 1)
    if not subj.startswith("fix:"): continue
    fps = sorted(set(re.findall(r"\[(C\d\d:[^\]]+)\]", " ".join(x for x in fixed if " %s " % h in x))))
    out.append("| %s | %s | %s |" % (h, subj[5:].replace("|", "/"), ", ".join("`%s`" % f for f in fps) or "-"))
out.append("")
out.append("### 10.4 Genuine defects recorded, not repaired (known findings; each prints a KNOWN-FINDING line)\n")
out.append("| property | fingerprint | what fails |")
out.append("|----------|-------------|------------|")
for f in sorted(glob.glob(os.path.join(ROOT, "known.d", "*.json"))) + [os.path.join(ROOT, "known_findings.json")]:
    for e in J(f, {}).get("known", []):
        out.append("| %s | `%s` | %s |" % (e["property"], e["fingerprint"], e["what"].replace("|", "/")[:420]))
out.append("")
# mutations
res = J(os.path.join(ROOT, "seeded", "RESULTS.json"), {})
out.append("### 10.5 Which check catches which seeded change\n")
out.append("Independent changes (written by sub-agents that saw only the property text; all confirmed: compile, 719 pinned tests pass, demonstration fails with / passes without):\n")
cross = J(os.path.join(ROOT, "seeded", "CROSS.json"), {})
out.append("| change | what it does / needs | result of `./check <ID> quick` on the changed tree | violated oracle (fingerprint) | other checks that report it (of those whose anchored files it touches) |")
out.append("|--------|----------------------|------|------|------|")
n = c_ = 0
for d in sorted(glob.glob(os.path.join(ROOT, "seeded", "C*", "*"))):
    m = J(os.path.join(d, "meta.json"))
    if not m: continue
    name = "seeded/%s/%s" % (os.path.basename(os.path.dirname(d)), os.path.basename(d))
    r = res.get(name, {})
    n += 1; c_ += r.get("verdict") == "caught"
    cr = cross.get(name, {})
    also = ", ".join(sorted(k for k, v in cr.items() if v == "caught")) or ("-" if cr else "not run")
    out.append("| %s | %s | %s | %s | %s |" % (name, (m.get("summary", "")[:300] + " NEEDS: " + m.get("needs", "")[:200]).replace("|", "/").replace("\n", " "), r.get("verdict", "not run") + (" (%s)" % r["tier"] if r.get("tier") and r.get("tier") != "quick" else ""), ", ".join("`%s`" % f for f in r.get("fingerprints", [])[:2]), also))
out.append("\n%d of %d independent changes are caught.\n" % (c_, n))
own = {}
for k, r in res.items():
    if k.startswith("seeded/own/"):
        pid = k.split("/")[2]
        own.setdefault(pid, []).append((os.path.basename(k)[:-5], r))
out.append("Own mutations of the check authors (must-catch lists of §5; `seeded/own/<ID>/*.diff`):\n")
out.append("| property | caught | missed / other |")
out.append("|----------|--------|----------------|")
for pid in sorted(own):
    ok = [a for a, r in own[pid] if r["verdict"] == "caught"]
    bad = ["%s (%s)" % (a, r["verdict"]) for a, r in own[pid] if r["verdict"] != "caught"]
    out.append("| %s | %d: %s | %s |" % (pid, len(ok), ", ".join(sorted(ok)), ", ".join(sorted(bad)) or "-"))
out.append("")
txt = "\n".join(out)
p = os.path.join(ROOT, "DESIGN.md")
s = open(p).read()
b, e = "<!-- BEGIN GENERATED (tools/mkresults.py) -->", "<!-- END GENERATED -->"
if b in s:
    s = s[:s.index(b) + len(b)] + "\n\n" + txt + "\n" + s[s.index(e):]
    open(p, "w").write(s)
    print("DESIGN.md generated part updated (%d lines)" % len(out))
else:
    print("markers missing")
