"""mkbrief.py <round> <letters,comma> <ID>...: write the brief for independent authors of seeded changes to /tmp/auth/briefs/r<round>-<ID>.md
(property text + one-line summaries of earlier changes = do not repeat), create the scratch worktree /tmp/wt/r<round>-<ID> and the output
directory /tmp/seedsrc/r<round>/<ID>. Before use: mkdir -p /tmp/auth/tools /tmp/auth/briefs; cp tools/baseline.py /tmp/auth/tools/ (authors must not read /verif).
Then: tools/round_try.sh <round> /tmp/seedsrc/r<round> <ID> <letters...> confirms, imports and tries each change."""
import json, os, sys, glob
rnd, letters, ids = sys.argv[1], sys.argv[2].split(','), sys.argv[3:]
props = {json.loads(l)['id']: json.loads(l) for l in open('/verif/properties.jsonl')}
for pid in ids:
    p = props[pid]
    prev = []
    for m in sorted(glob.glob('/verif/seeded/%s/*/meta.json' % pid)):
        j = json.load(open(m)); prev.append('- [' + str(j.get('kind','?')) + '] ' + (j.get('summary') or '')[:260].replace('\n', ' '))
    wt = '/tmp/wt/r%s-%s' % (rnd, pid)
    out = '/tmp/seedsrc/r%s/%s' % (rnd, pid)
    txt = f"""# Task: write {len(letters)} realistic breaking changes to zitadel/oidc for one semantic property

You work in your own scratch git worktree of the Go library zitadel/oidc: `{wt}` (detached HEAD of the pinned commit plus a few
bug-fix commits). Do not touch `/repo` or `/verif` and do not read anything under `/verif` or `/tmp/seedsrc` other than your own output
directory. Everything is offline: run Go as `cd {wt} && GOFLAGS=-mod=mod GOPROXY=off go test ...` (never set GOSUMDB or GOTOOLCHAIN).

## The property (id {pid})

Title: {p['title']}

Statement: {p['statement']}

Quantifier: {p['quantifier']['text']}

Anchored in: {json.dumps(p['anchors'])}

## What to produce

{len(letters)} independent changes (variants {', '.join(letters)}) to the library source (pkg/..., not tests, not examples) such that, for EACH change alone:

1. it compiles, and the library's existing test suite still passes with it: `python3 /tmp/auth/tools/baseline.py {wt}` must end with
   `719/719 stable tests pass` (takes ~2-3 min; it runs `go test ./...`); 
2. it breaks the property above (the statement becomes false for some input / history / schedule / fault);
3. it looks like something a maintainer could plausibly commit (an optimisation, a refactoring, a cache, a pool, a "simplification",
   a convenience, a well-meant hardening, a merged feature) - not sabotage, no dead giveaway comments;
4. it needs something SPECIFIC to manifest - one of: a particular interleaving of concurrent calls; a fault (storage error, network
   error, cancelled context, short write) at one particular point; a multi-step sequence of operations (state carried from an earlier
   request / call to a later one); an unusual but legal input or configuration; or two cooperating sites that each look fine alone.
   A change that ordinary use (one happy-path flow) exposes at once is not wanted. Most earlier changes were of kind unusual-input;
   prefer interleaving / fault / sequence / two-sites if you can find a good one, and prefer code sites and clauses of the statement
   that the earlier changes did not touch.
5. you provide a demonstration: ONE Go test file (`demo_test.go`, package of your choice inside the library, test names starting with
   `TestZZDemo{pid}<variant>`) that FAILS with the change applied and PASSES on the untouched worktree. It may use the library's own
   test helpers / mocks, example storage, httptest, etc. It must be deterministic (no flaky timing; own the schedule with channels).

Earlier authors already wrote the changes below for this property. Do NOT repeat them or close variations; look for different code
sites, different mechanisms, different aspects of the statement (read the whole statement and the quantifier: every clause is fair game):

{chr(10).join(prev)}

## Output (exact layout)

For each variant v in {letters}: directory `{out}/<v>/` with
* `patch.diff` - `git diff` of the worktree with only that change applied (relative to HEAD; library files only, NOT the demo file);
* `demo_test.go` - the demonstration;
* `meta.json` - {{"variant": "<v>", "breaks_property": "{pid}", "summary": "<what the change does, 2-5 sentences>", "needs": "<what exactly
  is needed for it to manifest>", "kind": "interleaving|fault|sequence|unusual-input|two-sites", "files": ["pkg/..."],
  "demo_place": "<path relative to the repo root where demo_test.go must be copied, e.g. pkg/op/zz_demo_{pid.lower()}<v>_test.go>",
  "demo_cmd": "go test ./pkg/op/ -run '^TestZZDemo{pid}<v>' -count=1",
  "verified": {{"baseline_passes_with_change": true, "demo_fails_with_change": true, "demo_passes_without_change": true}}}}

Procedure per variant: start from a clean worktree (`git -C {wt} checkout -- . && git -C {wt} clean -fdq`), make the change, write the
demo, run baseline + demo with the change, save `git diff` (excluding the demo file) as patch.diff, revert the change, run the demo again
(must pass), write meta.json. Leave the worktree clean at the end (`git status` empty). Only set the `verified` fields to true if you
actually observed them. Do not spend effort on prose; your final message should be 3-6 lines: per variant one line (site, mechanism, what
it needs). Do not create files anywhere else except scratch under `{wt}` (cleaned at the end).
"""
    open('/tmp/auth/briefs/r%s-%s.md' % (rnd, pid), 'w').write(txt)
    os.makedirs(out, exist_ok=True)
    os.system('git -C /repo worktree add --detach %s HEAD >/dev/null 2>&1' % wt)
    print(pid, len(prev), 'previous')
