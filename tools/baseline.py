#!/usr/bin/env python3
"""Run the pinned zitadel/oidc test suite in a tree and compare with BASELINE.json.

usage: baseline.py [repo_dir]   (default /repo)
exit 0 iff every test in BASELINE.stable_pass passed.
"""
import json, os, subprocess, sys

repo = sys.argv[1] if len(sys.argv) > 1 else "/repo"
base = json.load(open("/root/.vp/BASELINE.json"))
want = set(base["stable_pass"])
env = dict(os.environ, GOFLAGS="-mod=mod", GOPROXY="off")
p = subprocess.run(["go", "test", "-json", "-vet=off", "-count=1", "-timeout", "25m", "./..."],
                   cwd=repo, env=env, stdout=subprocess.PIPE, stderr=subprocess.STDOUT, text=True)
res = {}
for line in p.stdout.splitlines():
    try:
        ev = json.loads(line)
    except Exception:
        continue
    if ev.get("Test") and ev.get("Action") in ("pass", "fail", "skip"):
        res[ev["Package"] + "::" + ev["Test"]] = ev["Action"]
bad = sorted(t for t in want if res.get(t) != "pass")
print(f"baseline: {len(want) - len(bad)}/{len(want)} stable tests pass")
for t in bad[:40]:
    print("  NOT PASSING:", t, res.get(t, "missing"))
sys.exit(1 if bad else 0)
