#!/bin/bash
# usage: round_try.sh <round> <src_root> <ID> [variants...]: confirm + import an author's changes, remove the author's worktree, run the property's quick check against each
rnd=$1; src=$2; id=$3; shift 3
cd /verif
python3 tools/import_round.py "$src" "$rnd" "$id" 2>&1 | grep -E "CONFIRMED|IMPORTED"
git -C /repo worktree remove --force /tmp/wt/r$rnd-$id 2>/dev/null
for v in "$@"; do
  [ -f seeded/$id/$v/patch.diff ] || { echo "$id/$v: not imported"; continue; }
  out=$(tools/trymut.sh seeded/$id/$v/patch.diff $id quick 2>&1)
  rc=$(echo "$out" | grep -o "trymut rc=[0-9]*")
  echo "== $id/$v $rc"; echo "$out" | grep -E "^  |VIOLATION" | grep -v KNOWN | head -3 | cut -c1-400
done
