#!/usr/bin/env python3
"""prune_known.py <ID>... : after `./check ID quick` ran, report which known fingerprints still fire (replay tier or
generated tier) according to evidence/<ID>.json; with --write remove the dead ones from known.d/<ID>.json and print them."""
import json, os, sys
ROOT = os.path.dirname(os.path.dirname(os.path.abspath(__file__)))
write = "--write" in sys.argv
for pid in [a for a in sys.argv[1:] if not a.startswith("--")]:
    kf = os.path.join(ROOT, "known.d", pid + ".json")
    if not os.path.exists(kf):
        continue
    k = json.load(open(kf))
    ev = json.load(open(os.path.join(ROOT, "evidence", pid + ".json")))["coverage"]
    alive = set(ev.get("excluded_known", {}).keys())
    for l in ev.get("known_findings_reported", []):
        alive.add(l[l.rindex("[") + 1:-1])
    keep, dead = [], []
    for e in k["known"]:
        (keep if e["fingerprint"] in alive else dead).append(e)
    print(pid, "alive:", [e["fingerprint"] for e in keep])
    print(pid, "dead :", [e["fingerprint"] for e in dead])
    if write and dead:
        k["known"] = keep
        json.dump(k, open(kf, "w"), indent=1)
        json.dump(dead, open(os.path.join(ROOT, "work", "dead-" + pid + ".json"), "w"), indent=1)
