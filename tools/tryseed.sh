#!/bin/bash
# usage: tryseed.sh <ID> <variant>... : run the quick check of <ID> against seeded/<ID>/<v>/patch.diff, print the verdict lines
id=$1; shift
for v in "$@"; do
  echo "== $id/$v"
  /verif/tools/trymut.sh /verif/seeded/$id/$v/patch.diff $id ${TIER:-quick} 2>&1 | grep -v '^built\|KNOWN-FINDING' | tail -4
done
