#!/usr/bin/env python3
"""Confirm every seeded change independently in a scratch worktree:
 - patch applies; library builds; pinned baseline passes with the change
 - demo fails with the change, passes without it
usage: verify_seeded.py <src_root> <worktree> [ids...]   writes <src_root>/<ID>/<v>/confirm.json
"""
import json, os, shutil, subprocess, sys
src, wt = sys.argv[1], sys.argv[2]
only = sys.argv[3:]
env = dict(os.environ, GOFLAGS="-mod=mod", GOPROXY="off")
def sh(cmd, cwd=wt, timeout=900):
    p = subprocess.run(cmd, cwd=cwd, env=env, shell=True, stdout=subprocess.PIPE, stderr=subprocess.STDOUT, text=True, timeout=timeout)
    return p.returncode, p.stdout
def clean():
    sh("git checkout -- . && git clean -fdq")
for pid in sorted(os.listdir(src)):
    d = os.path.join(src, pid)
    if not os.path.isdir(d) or (only and pid not in only):
        continue
    for v in sorted(os.listdir(d)):
        vd = os.path.join(d, v)
        if not os.path.isfile(os.path.join(vd, "patch.diff")):
            continue
        meta = json.load(open(os.path.join(vd, "meta.json")))
        clean()
        res = {"id": pid, "variant": v}
        place = meta["demo_place"]
        if place.endswith("/") or not place.endswith(".go"):
            place = os.path.join(place, "zz_demo_test.go")
        demo_cmd = meta["demo_cmd"]
        # demo without change
        os.makedirs(os.path.dirname(os.path.join(wt, place)), exist_ok=True)
        shutil.copy(os.path.join(vd, "demo_test.go"), os.path.join(wt, place))
        rc, out = sh(demo_cmd)
        res["demo_passes_without_change"] = rc == 0
        os.remove(os.path.join(wt, place))
        rc, out = sh("git apply " + os.path.join(vd, "patch.diff"))
        res["applies"] = rc == 0
        if rc == 0:
            rc, out = sh("python3 /verif/tools/baseline.py " + wt)
            res["baseline_passes_with_change"] = rc == 0
            res["baseline_out"] = out[-300:]
            shutil.copy(os.path.join(vd, "demo_test.go"), os.path.join(wt, place))
            rc, out = sh(demo_cmd)
            res["demo_fails_with_change"] = rc != 0
            res["demo_out"] = out[-600:]
        clean()
        res["confirmed"] = bool(res.get("applies") and res.get("baseline_passes_with_change") and res.get("demo_fails_with_change") and res.get("demo_passes_without_change"))
        json.dump(res, open(os.path.join(vd, "confirm.json"), "w"), indent=1)
        print(pid, v, "CONFIRMED" if res["confirmed"] else "NOT CONFIRMED " + json.dumps({k: res.get(k) for k in ("applies","baseline_passes_with_change","demo_fails_with_change","demo_passes_without_change")}), flush=True)
